/-
  Character-level round trip: the parser automaton (`Xml.run`) reads what the writer (`Xml.serElem`)
  produces back as the very same element.

  Automaton states are written out as `⟨mode, stack, done, cr⟩` (frames as `⟨tag, attrs, text, kids, hasKid⟩`)
  so that single steps on literal characters close by `rfl`.
-/
import Indi.Spec.Xml
namespace Indi.Xml
open Indi

theorem run_append (st : St) (a b : Str) : run st (a ++ b) = run (run st a) b := by
  simp [run, List.foldl_append]

@[simp] theorem run_nil (st : St) : run st [] = st := rfl
@[simp] theorem run_cons (st : St) (c : Char) (cs : Str) : run st (c :: cs) = run (step st c) cs := rfl

theorem ceq (c d : Char) : c = d ↔ c.toNat = d.toNat := by
  constructor
  · intro h; rw [h]
  · intro h; exact Char.toNat_inj.mp h

/-! ### character classes -/

theorem nameStart_nameChar (c : Char) (h : nameStart c = true) : nameChar c = true := by
  simp [nameChar, h]

theorem nameChar_facts (c : Char) (h : nameChar c = true) :
    xmlChar c = true ∧ nameUns c = false ∧ isS c = false ∧ c ≠ '>' ∧ c ≠ '/' ∧ c ≠ '=' ∧ c ≠ '!' ∧ c ≠ '?' := by
  simp [nameChar, nameStart, isAlpha, isDigit, xmlChar, nameUns, isS, Char.le_def, UInt32.le_iff_toNat_le, ceq] at *
  omega

theorem isDigit_facts (c : Char) (h : isDigit c = true) :
    xmlChar c = true ∧ c ≠ ';' ∧ c ≠ 'x' := by
  simp [isDigit, xmlChar, Char.le_def, UInt32.le_iff_toNat_le, ceq] at *
  omega

theorem xmlChar_lt (c : Char) (h : xmlChar c = true) : c.toNat < 0x110000 := by
  simp [xmlChar] at h
  omega

/-! ### decimal references -/

theorem ofNat_digit_toNat (k : Nat) (h : k < 10) : (Char.ofNat (48 + k)).toNat = 48 + k := by
  have : ∀ k, k < 10 → (Char.ofNat (48 + k)).toNat = 48 + k := by decide
  exact this k h

theorem isDigit_ofNat (k : Nat) (h : k < 10) : isDigit (Char.ofNat (48 + k)) = true := by
  have : ∀ k, k < 10 → isDigit (Char.ofNat (48 + k)) = true := by decide
  exact this k h

theorem decVal_ofNat (k : Nat) (h : k < 10) : decVal (Char.ofNat (48 + k)) = k := by
  simp [decVal, ofNat_digit_toNat k h]

theorem decDigits_spec (n : Nat) :
    (decDigits n).all isDigit = true ∧ decDigits n ≠ [] ∧
    (decDigits n).foldl (fun a c => a * 10 + decVal c) 0 = n := by
  induction n using Nat.strongRecOn with
  | _ n ih =>
    unfold decDigits
    split
    · rename_i h
      simp [isDigit_ofNat n h, decVal_ofNat n h]
    · rename_i h
      obtain ⟨h1, h2, h3⟩ := ih (n / 10) (by omega)
      have h4 : n % 10 < 10 := by omega
      simp [h1, h3, List.foldl_append, isDigit_ofNat _ h4, decVal_ofNat _ h4]
      omega

theorem parseDec_decDigits (n : Nat) : parseDec (decDigits n) = some n := by
  obtain ⟨h1, h2, h3⟩ := decDigits_spec n
  unfold parseDec
  split
  · contradiction
  · simp [h1, h3]

theorem charOfRef_toNat (c : Char) (h : xmlChar c = true) : charOfRef c.toNat = some c := by
  have := xmlChar_lt c h
  simp [charOfRef, Char.ofNat_toNat, h, this]

theorem decodeRef_dec (ds : Str) (h1 : ds.all isDigit = true) (h2 : ds ≠ []) :
    decodeRef ('#' :: ds) = (parseDec ds).bind charOfRef := by
  cases ds with
  | nil => contradiction
  | cons d ds =>
    simp at h1
    obtain ⟨_, _, hx⟩ := isDigit_facts d h1.1
    unfold decodeRef
    split <;> simp_all

theorem decodeRef_charRef (c : Char) (h : xmlChar c = true) :
    decodeRef ('#' :: decDigits c.toNat) = some c := by
  obtain ⟨h1, h2, _⟩ := decDigits_spec c.toNat
  rw [decodeRef_dec _ h1 h2, parseDec_decDigits]
  simp [charOfRef_toNat c h]

theorem decDigits_refChars (n : Nat) : ∀ c ∈ decDigits n, xmlChar c = true ∧ c ≠ ';' := by
  intro c hc
  obtain ⟨h1, _, _⟩ := decDigits_spec n
  have := (List.all_eq_true.mp h1) c hc
  obtain ⟨a, b, _⟩ := isDigit_facts c this
  exact ⟨a, b⟩

/-! ### names -/

theorem isName_facts (n : Str) (h : isName n = true) :
    ∃ c cs, n = c :: cs ∧ nameStart c = true ∧ cs.all nameChar = true := by
  cases n with
  | nil => simp [isName] at h
  | cons c cs => simp [isName] at h; exact ⟨c, cs, rfl, h.1, by simpa using h.2⟩

theorem isName_all (n : Str) (h : isName n = true) : n.all nameChar = true := by
  obtain ⟨c, cs, rfl, h1, h2⟩ := isName_facts n h
  simp [nameStart_nameChar c h1] 
  simpa using h2

theorem step_tagName (acc stk d cr c) (h : nameChar c = true) :
    step ⟨.tagName acc, stk, d, cr⟩ c = ⟨.tagName (c :: acc), stk, d, cr⟩ := by
  obtain ⟨h1, h2, h3, h4, h5, h6, h7, h8⟩ := nameChar_facts c h
  simp [step, stepMode, *]

theorem step_attrName (acc stk d cr c) (h : nameChar c = true) :
    step ⟨.attrName acc, stk, d, cr⟩ c = ⟨.attrName (c :: acc), stk, d, cr⟩ := by
  obtain ⟨h1, h2, h3, h4, h5, h6, h7, h8⟩ := nameChar_facts c h
  simp [step, stepMode, *]

theorem step_endName (acc stk d cr c) (h : nameChar c = true) :
    step ⟨.endName acc, stk, d, cr⟩ c = ⟨.endName (c :: acc), stk, d, cr⟩ := by
  obtain ⟨h1, h2, h3, h4, h5, h6, h7, h8⟩ := nameChar_facts c h
  simp [step, stepMode, *]

theorem run_tagName (n : Str) (h : n.all nameChar = true) (acc stk d cr) :
    run ⟨.tagName acc, stk, d, cr⟩ n = ⟨.tagName (n.reverse ++ acc), stk, d, cr⟩ := by
  induction n generalizing acc with
  | nil => rfl
  | cons c cs ih =>
    simp at h
    simp [step_tagName _ _ _ _ _ h.1, ih (by simpa using h.2)]

theorem run_attrName (n : Str) (h : n.all nameChar = true) (acc stk d cr) :
    run ⟨.attrName acc, stk, d, cr⟩ n = ⟨.attrName (n.reverse ++ acc), stk, d, cr⟩ := by
  induction n generalizing acc with
  | nil => rfl
  | cons c cs ih =>
    simp at h
    simp [step_attrName _ _ _ _ _ h.1, ih (by simpa using h.2)]

theorem run_endName (n : Str) (h : n.all nameChar = true) (acc stk d cr) :
    run ⟨.endName acc, stk, d, cr⟩ n = ⟨.endName (n.reverse ++ acc), stk, d, cr⟩ := by
  induction n generalizing acc with
  | nil => rfl
  | cons c cs ih =>
    simp at h
    simp [step_endName _ _ _ _ _ h.1, ih (by simpa using h.2)]

theorem step_lt (b stk cr c) (h : nameStart c = true) :
    step ⟨.lt b, stk, none, cr⟩ c = ⟨.tagName [c], stk, none, cr⟩ := by
  obtain ⟨h1, h2, h3, h4, h5, h6, h7, h8⟩ := nameChar_facts c (nameStart_nameChar c h)
  simp [step, stepMode, *]

/-- `<name` from just after the `<` -/
theorem run_lt_name (n : Str) (h : isName n = true) (b stk cr) :
    run ⟨.lt b, stk, none, cr⟩ n = ⟨.tagName n.reverse, stk, none, cr⟩ := by
  obtain ⟨c, cs, rfl, h1, h2⟩ := isName_facts n h
  simp [step_lt _ _ _ _ h1, run_tagName cs h2]

/-! ### references inside attribute values and text -/

theorem run_attrRef (x : Str) (h : ∀ c ∈ x, xmlChar c = true ∧ c ≠ ';') (name q acc ref stk d cr) :
    run ⟨.attrRef name q acc ref, stk, d, cr⟩ x = ⟨.attrRef name q acc (x.reverse ++ ref), stk, d, cr⟩ := by
  induction x generalizing ref with
  | nil => rfl
  | cons c cs ih =>
    obtain ⟨h1, h2⟩ := h c (by simp)
    have : step ⟨.attrRef name q acc ref, stk, d, cr⟩ c = ⟨.attrRef name q acc (c :: ref), stk, d, cr⟩ := by
      simp [step, stepMode, h1, h2]
    simp [this, ih (fun c hc => h c (by simp [hc]))]

theorem run_textRef (x : Str) (h : ∀ c ∈ x, xmlChar c = true ∧ c ≠ ';') (ref stk d cr) :
    run ⟨.textRef ref, stk, d, cr⟩ x = ⟨.textRef (x.reverse ++ ref), stk, d, cr⟩ := by
  induction x generalizing ref with
  | nil => rfl
  | cons c cs ih =>
    obtain ⟨h1, h2⟩ := h c (by simp)
    have : step ⟨.textRef ref, stk, d, cr⟩ c = ⟨.textRef (c :: ref), stk, d, cr⟩ := by
      simp [step, stepMode, h1, h2]
    simp [this, ih (fun c hc => h c (by simp [hc]))]

/-! ### attribute values -/

theorem run_attr_charRef (c : Char) (h : xmlChar c = true) (name acc stk d) :
    run ⟨.attrVal name '"' acc, stk, d, false⟩ (charRef c) = ⟨.attrVal name '"' (c :: acc), stk, d, false⟩ := by
  have h1 : step ⟨.attrVal name '"' acc, stk, d, false⟩ '&' = ⟨.attrRef name '"' acc [], stk, d, false⟩ := rfl
  have h2 : step ⟨.attrRef name '"' acc [], stk, d, false⟩ '#' = ⟨.attrRef name '"' acc ['#'], stk, d, false⟩ := rfl
  have h3 : ∀ ref, step ⟨.attrRef name '"' acc ref, stk, d, false⟩ ';' =
      (match decodeRef ref.reverse with
       | some ch => ⟨.attrVal name '"' (ch :: acc), stk, d, false⟩
       | none => ⟨.err, stk, d, false⟩) := fun _ => rfl
  simp only [charRef, run_cons, h1, h2, run_append, run_attrRef _ (decDigits_refChars _), run_nil, h3]
  simp [decodeRef_charRef c h]

theorem run_escAttrChar (c : Char) (h : xmlChar c = true) (name acc stk d) :
    run ⟨.attrVal name '"' acc, stk, d, false⟩ (escAttrChar c) = ⟨.attrVal name '"' (c :: acc), stk, d, false⟩ := by
  unfold escAttrChar
  split; · subst c; rfl
  split; · subst c; rfl
  split; · subst c; rfl
  split; · subst c; rfl
  split; · subst c; rfl
  split; · subst c; rfl
  split; · subst c; rfl
  split; · exact run_attr_charRef c h name acc stk d
  simp [step, stepMode, *]

theorem run_escAttr (v : Str) (h : safeChars v = true) (name acc stk d) :
    run ⟨.attrVal name '"' acc, stk, d, false⟩ (escAttr v) = ⟨.attrVal name '"' (v.reverse ++ acc), stk, d, false⟩ := by
  induction v generalizing acc with
  | nil => rfl
  | cons c cs ih =>
    simp [safeChars] at h
    simp [escAttr, run_append, run_escAttrChar c h.1]
    have := ih (by simpa [safeChars] using h.2) (c :: acc)
    simpa [escAttr] using this

/-! ### attributes -/

theorem step_attrName_eq (acc f stk d cr) (hx : acc.reverse ≠ s "xmlns")
    (hd : (f.attrs.any fun kv => kv.1 = acc.reverse) = false) :
    step ⟨.attrName acc, f :: stk, d, cr⟩ '=' = ⟨.attrQuote acc.reverse, f :: stk, d, cr⟩ := by
  have h1 : xmlChar '=' = true := by decide
  have h2 : nameUns '=' = false := by decide
  have h3 : nameChar '=' = false := by decide
  have h4 : isS '=' = false := by decide
  simp [step, stepMode, St.dupAttr, h1, h2, h3, h4, hx, hd]

/-- one attribute, from just after the separating blank -/
theorem run_attr (k v : Str) (hk : isName k = true) (hx : k ≠ s "xmlns") (hv : safeChars v = true)
    (f stk d) (hd : (f.attrs.any fun kv => kv.1 = k) = false) :
    run ⟨.tagSpace true, f :: stk, d, false⟩ (k ++ '=' :: '"' :: escAttr v ++ ['"']) =
      ⟨.tagSpace false, { f with attrs := f.attrs ++ [(k, v)] } :: stk, d, false⟩ := by
  obtain ⟨c, cs, rfl, h1, h2⟩ := isName_facts k hk
  have s1 : step ⟨.tagSpace true, f :: stk, d, false⟩ c = ⟨.attrName [c], f :: stk, d, false⟩ := by
    obtain ⟨g1, g2, g3, g4, g5, g6, g7, g8⟩ := nameChar_facts c (nameStart_nameChar c h1)
    simp [step, stepMode, *]
  have s2 := step_attrName_eq (cs.reverse ++ [c]) f stk d false (by simpa using hx) (by simpa using hd)
  have s3 : ∀ name, step ⟨.attrQuote name, f :: stk, d, false⟩ '"' = ⟨.attrVal name '"' [], f :: stk, d, false⟩ :=
    fun _ => rfl
  have s4 : ∀ name acc, step ⟨.attrVal name '"' acc, f :: stk, d, false⟩ '"' =
      ⟨.tagSpace false, { f with attrs := f.attrs ++ [(name, acc.reverse)] } :: stk, d, false⟩ := fun _ _ => rfl
  simp only [List.cons_append, run_cons, s1, run_append, run_attrName cs h2, s2, s3, run_escAttr v hv, s4, run_nil]
  simp

theorem nodupKeys_cons (kv : Str × Str) (l : List (Str × Str)) (h : nodupKeys (kv :: l) = true) :
    (∀ kv' ∈ l, kv'.1 ≠ kv.1) ∧ nodupKeys l = true := by
  simp [nodupKeys] at h
  exact ⟨fun kv' hkv' => h.1 kv'.1 kv'.2 hkv', h.2⟩

/-- the attribute list, from the state after an attribute or after the tag name's blank -/
theorem run_serAttrs (l : List (Str × Str))
    (hok : ∀ kv ∈ l, isName kv.1 = true ∧ kv.1 ≠ s "xmlns" ∧ safeChars kv.2 = true)
    (hnd : nodupKeys l = true) (b f stk d)
    (hnew : ∀ kv ∈ l, ∀ kv' ∈ f.attrs, kv'.1 ≠ kv.1) :
    ∃ b', run ⟨.tagSpace b, f :: stk, d, false⟩ (serAttrs l) =
      ⟨.tagSpace b', { f with attrs := f.attrs ++ l } :: stk, d, false⟩ := by
  induction l generalizing b f with
  | nil => exact ⟨b, by simp [serAttrs]⟩
  | cons kv l ih =>
    obtain ⟨g1, g2, g3⟩ := hok kv (by simp)
    obtain ⟨n1, n2⟩ := nodupKeys_cons kv l hnd
    have s1 : step ⟨.tagSpace b, f :: stk, d, false⟩ ' ' = ⟨.tagSpace true, f :: stk, d, false⟩ := rfl
    have hd : (f.attrs.any fun kv' => kv'.1 = kv.1) = false := by
      simp only [List.any_eq_false]
      intro kv' hkv'
      simpa using hnew kv (by simp) kv' hkv'
    have s2 := run_attr kv.1 kv.2 g1 g2 g3 f stk d hd
    obtain ⟨b', ih'⟩ := ih (fun kv' h' => hok kv' (by simp [h'])) n2 false
      { f with attrs := f.attrs ++ [kv] } (by
        intro x hx y hy
        simp at hy
        rcases hy with hy | hy
        · exact hnew x (by simp [hx]) y hy
        · subst hy; exact fun e => n1 x hx e.symm)
    refine ⟨b', ?_⟩
    have e : serAttrs (kv :: l) = ' ' :: ((kv.1 ++ '=' :: '"' :: escAttr kv.2 ++ ['"']) ++ serAttrs l) := by
      simp [serAttrs, serAttr]
    rw [e, run_cons, s1, run_append, s2, ih']
    simp

theorem attrsOk_facts (l : List (Str × Str)) (h : attrsOk l = true) :
    (∀ kv ∈ l, isName kv.1 = true ∧ kv.1 ≠ s "xmlns" ∧ safeChars kv.2 = true) ∧ nodupKeys l = true := by
  simp [attrsOk] at h
  refine ⟨fun kv hkv => ?_, h.2⟩
  obtain ⟨⟨a, b⟩, c⟩ := h.1 kv.1 kv.2 hkv
  exact ⟨a, b, c⟩

/-- `<tag attrs` followed by a blank (the ` />` form), from just after the `<` -/
theorem run_open_blank (tag : Str) (attrs : List (Str × Str)) (ht : isName tag = true) (ha : attrsOk attrs = true)
    (b stk cr) (rest : Str) :
    run ⟨.lt b, stk, none, cr⟩ (tag ++ (serAttrs attrs ++ ' ' :: rest)) =
      run ⟨.tagSpace true, { tag := tag, attrs := attrs } :: stk, none, false⟩ rest := by
  obtain ⟨a1, a2⟩ := attrsOk_facts attrs ha
  rw [run_append, run_lt_name tag ht]
  cases attrs with
  | nil =>
    have : step ⟨.tagName tag.reverse, stk, none, cr⟩ ' ' = ⟨.tagSpace true, { tag := tag.reverse.reverse } :: stk, none, false⟩ := rfl
    simp [serAttrs, this]
  | cons kv l =>
    have e : serAttrs (kv :: l) = ' ' :: ((kv.1 ++ '=' :: '"' :: escAttr kv.2 ++ ['"']) ++ serAttrs l) := by
      simp [serAttrs, serAttr]
    have s1 : step ⟨.tagName tag.reverse, stk, none, cr⟩ ' ' = ⟨.tagSpace true, { tag := tag.reverse.reverse } :: stk, none, false⟩ := rfl
    obtain ⟨g1, g2, g3⟩ := a1 kv (by simp)
    obtain ⟨n1, n2⟩ := nodupKeys_cons kv l a2
    have s2 := run_attr kv.1 kv.2 g1 g2 g3 { tag := tag.reverse.reverse } stk none (by simp)
    obtain ⟨b', s3⟩ := run_serAttrs l (fun kv' h' => a1 kv' (by simp [h'])) n2 false
      { tag := tag.reverse.reverse, attrs := [] ++ [kv] } stk none (by
        intro x hx y hy
        simp at hy
        subst hy; exact fun e => n1 x hx e.symm)
    have s4 : ∀ f, step ⟨.tagSpace b', f :: stk, none, false⟩ ' ' = ⟨.tagSpace true, f :: stk, none, false⟩ := fun _ => rfl
    rw [e, List.cons_append, run_cons, s1, run_append, run_append, s2, s3, run_cons, s4]
    simp

/-- `<tag attrs>`, from just after the `<` -/
theorem run_open_gt (tag : Str) (attrs : List (Str × Str)) (ht : isName tag = true) (ha : attrsOk attrs = true)
    (b stk cr) (rest : Str) :
    run ⟨.lt b, stk, none, cr⟩ (tag ++ (serAttrs attrs ++ '>' :: rest)) =
      run ⟨.text 0, { tag := tag, attrs := attrs } :: stk, none, false⟩ rest := by
  obtain ⟨a1, a2⟩ := attrsOk_facts attrs ha
  rw [run_append, run_lt_name tag ht]
  cases attrs with
  | nil =>
    have : step ⟨.tagName tag.reverse, stk, none, cr⟩ '>' = ⟨.text 0, { tag := tag.reverse.reverse } :: stk, none, false⟩ := rfl
    simp [serAttrs, this]
  | cons kv l =>
    have e : serAttrs (kv :: l) = ' ' :: ((kv.1 ++ '=' :: '"' :: escAttr kv.2 ++ ['"']) ++ serAttrs l) := by
      simp [serAttrs, serAttr]
    have s1 : step ⟨.tagName tag.reverse, stk, none, cr⟩ ' ' = ⟨.tagSpace true, { tag := tag.reverse.reverse } :: stk, none, false⟩ := rfl
    obtain ⟨g1, g2, g3⟩ := a1 kv (by simp)
    obtain ⟨n1, n2⟩ := nodupKeys_cons kv l a2
    have s2 := run_attr kv.1 kv.2 g1 g2 g3 { tag := tag.reverse.reverse } stk none (by simp)
    obtain ⟨b', s3⟩ := run_serAttrs l (fun kv' h' => a1 kv' (by simp [h'])) n2 false
      { tag := tag.reverse.reverse, attrs := [] ++ [kv] } stk none (by
        intro x hx y hy
        simp at hy
        subst hy; exact fun e => n1 x hx e.symm)
    have s4 : ∀ f, step ⟨.tagSpace b', f :: stk, none, false⟩ '>' = ⟨.text 0, f :: stk, none, false⟩ := fun _ => rfl
    rw [e, List.cons_append, run_cons, s1, run_append, run_append, s2, s3, run_cons, s4]
    simp

/-! ### character data -/

theorem run_text_charRef (c : Char) (h : xmlChar c = true) (br tg ats tx kd stk d) :
    run ⟨.text br, ⟨tg, ats, tx, kd, false⟩ :: stk, d, false⟩ (charRef c) =
      ⟨.text 0, ⟨tg, ats, tx ++ [c], kd, false⟩ :: stk, d, false⟩ := by
  have h1 : step ⟨.text br, ⟨tg, ats, tx, kd, false⟩ :: stk, d, false⟩ '&' =
      ⟨.textRef [], ⟨tg, ats, tx, kd, false⟩ :: stk, d, false⟩ := rfl
  have h2 : step ⟨.textRef [], ⟨tg, ats, tx, kd, false⟩ :: stk, d, false⟩ '#' =
      ⟨.textRef ['#'], ⟨tg, ats, tx, kd, false⟩ :: stk, d, false⟩ := rfl
  have h3 : ∀ ref, step ⟨.textRef ref, ⟨tg, ats, tx, kd, false⟩ :: stk, d, false⟩ ';' =
      (match decodeRef ref.reverse with
       | some ch => ⟨.text 0, ⟨tg, ats, tx ++ [ch], kd, false⟩ :: stk, d, false⟩
       | none => ⟨.err, ⟨tg, ats, tx, kd, false⟩ :: stk, d, false⟩) := by
    intro ref
    have : xmlChar ';' = true := by decide
    simp only [step, stepMode, this, St.emit, St.fail]
    cases decodeRef ref.reverse <;> simp
  simp only [charRef, run_cons, h1, h2, run_append, run_textRef _ (decDigits_refChars _), run_nil, h3]
  simp [decodeRef_charRef c h]

theorem run_escTextChar (c : Char) (h : xmlChar c = true) (hr : c ≠ '\r') (br tg ats tx kd stk d) :
    ∃ br', run ⟨.text br, ⟨tg, ats, tx, kd, false⟩ :: stk, d, false⟩ (escTextChar c) =
      ⟨.text br', ⟨tg, ats, tx ++ [c], kd, false⟩ :: stk, d, false⟩ := by
  unfold escTextChar
  split; · subst c; exact ⟨0, rfl⟩
  split; · subst c; exact ⟨0, rfl⟩
  split; · subst c; exact ⟨0, rfl⟩
  split; · exact ⟨0, run_text_charRef c h br tg ats tx kd stk d⟩
  by_cases hb : c = ']'
  · subst c
    exact ⟨if br ≥ 2 then 2 else br + 1, by simp [step, stepMode, St.emit, h]⟩
  · exact ⟨0, by simp [step, stepMode, St.emit, *]⟩

theorem textOk_cons (c : Char) (t : Str) (h : textOk (c :: t) = true) :
    xmlChar c = true ∧ c ≠ '\r' ∧ textOk t = true := by
  simp [textOk, safeChars] at h
  obtain ⟨⟨h1, h2⟩, h3, h4⟩ := h
  refine ⟨h1, fun e => h3 e.symm, ?_⟩
  simp [textOk, safeChars]
  exact ⟨h2, h4⟩

theorem run_escText (t : Str) (h : textOk t = true) (br tg ats tx kd stk d) :
    ∃ br', run ⟨.text br, ⟨tg, ats, tx, kd, false⟩ :: stk, d, false⟩ (escText t) =
      ⟨.text br', ⟨tg, ats, tx ++ t, kd, false⟩ :: stk, d, false⟩ := by
  induction t generalizing br tx with
  | nil => exact ⟨br, by simp [escText]⟩
  | cons c cs ih =>
    obtain ⟨h1, h2, h3⟩ := textOk_cons c cs h
    obtain ⟨b1, e1⟩ := run_escTextChar c h1 h2 br tg ats tx kd stk d
    obtain ⟨b2, e2⟩ := ih h3 b1 (tx ++ [c])
    refine ⟨b2, ?_⟩
    have : escText (c :: cs) = escTextChar c ++ escText cs := by simp [escText]
    rw [this, run_append, e1, e2]
    simp

/-! ### end tags -/

theorem run_endTag (tag : Str) (ht : isName tag = true) (br ats tx kd hk stk d) :
    run ⟨.text br, ⟨tag, ats, tx, kd, hk⟩ :: stk, d, false⟩ ('<' :: '/' :: (tag ++ ['>'])) =
      St.close ⟨.endName tag.reverse, ⟨tag, ats, tx, kd, hk⟩ :: stk, d, false⟩ := by
  have s1 : step ⟨.text br, ⟨tag, ats, tx, kd, hk⟩ :: stk, d, false⟩ '<' =
      ⟨.lt false, ⟨tag, ats, tx, kd, hk⟩ :: stk, d, false⟩ := rfl
  have s2 : step ⟨.lt false, ⟨tag, ats, tx, kd, hk⟩ :: stk, d, false⟩ '/' =
      ⟨.endName [], ⟨tag, ats, tx, kd, hk⟩ :: stk, d, false⟩ := rfl
  have s3 : step ⟨.endName tag.reverse, ⟨tag, ats, tx, kd, hk⟩ :: stk, d, false⟩ '>' =
      St.close ⟨.endName tag.reverse, ⟨tag, ats, tx, kd, hk⟩ :: stk, d, false⟩ := by
    have h1 : xmlChar '>' = true := by decide
    have h2 : nameUns '>' = false := by decide
    have h3 : nameChar '>' = false := by decide
    have h4 : isS '>' = false := by decide
    simp [step, stepMode, h1, h2, h3, h4]
  simp only [run_cons, s1, s2, run_append, run_endName tag (isName_all tag ht), run_nil,
    List.append_nil, s3]

/-! ### children -/

theorem run_serElem1 (c : Elem1) (h : elem1Ok c = true) (br tg ats tx kd hk stk) :
    run ⟨.text br, ⟨tg, ats, tx, kd, hk⟩ :: stk, none, false⟩ (serElem1 c) =
      ⟨.text 0, ⟨tg, ats, tx, kd ++ [c], true⟩ :: stk, none, false⟩ := by
  obtain ⟨ctag, cattrs, ctext⟩ := c
  simp [elem1Ok] at h
  obtain ⟨⟨ht, ha⟩, hx⟩ := h
  have s1 : step ⟨.text br, ⟨tg, ats, tx, kd, hk⟩ :: stk, none, false⟩ '<' =
      ⟨.lt false, ⟨tg, ats, tx, kd, hk⟩ :: stk, none, false⟩ := rfl
  unfold serElem1
  simp only []
  split
  · rename_i he
    simp at he
    subst he
    have e : s " />" = ' ' :: ['/', '>'] := by decide
    simp only [e, List.cons_append, List.append_assoc]
    rw [run_cons, s1, run_open_blank ctag cattrs ht ha]
    rfl
  · rename_i he
    obtain ⟨b1, e1⟩ := run_escText ctext hx 0 ctag cattrs [] [] (⟨tg, ats, tx, kd, hk⟩ :: stk) none
    simp only [List.cons_append, List.append_assoc]
    rw [run_cons, s1, run_open_gt ctag cattrs ht ha, run_append, e1, run_endTag ctag ht]
    simp [St.close]

theorem run_children (l : List Elem1) (h : l.all elem1Ok = true) (br tg ats tx kd hk stk) :
    ∃ br' hk', run ⟨.text br, ⟨tg, ats, tx, kd, hk⟩ :: stk, none, false⟩ (l.flatMap serElem1) =
      ⟨.text br', ⟨tg, ats, tx, kd ++ l, hk'⟩ :: stk, none, false⟩ := by
  induction l generalizing br kd hk with
  | nil => exact ⟨br, hk, by simp⟩
  | cons c cs ih =>
    simp at h
    obtain ⟨b, k, e⟩ := ih (by simpa using h.2) 0 (kd ++ [c]) true
    refine ⟨b, k, ?_⟩
    rw [List.flatMap_cons, run_append, run_serElem1 c h.1, e]
    simp

/-! ### the document element -/

/-- the writer's output for an acceptable element, fed to the automaton in prolog state, leaves exactly that element
as the finished document -/
theorem run_serElem (e : Elem) (h : elemOk e = true) (st : St)
    (hmode : st.mode = .misc ∨ st.mode = .start) (hstack : st.stack = []) (hdone : st.done = none) :
    run st (serElem e) = { mode := .misc, stack := [], done := some e, cr := false } := by
  obtain ⟨tag, attrs, text, children⟩ := e
  obtain ⟨mode, stack, done, cr⟩ := st
  simp only at hmode hstack hdone
  subst hstack hdone
  simp [elemOk] at h
  obtain ⟨⟨⟨ht, ha⟩, hx⟩, hc⟩ := h
  have s1 : ∃ b, step ⟨mode, [], none, cr⟩ '<' = ⟨.lt b, [], none, cr⟩ := by
    rcases hmode with rfl | rfl
    · exact ⟨false, rfl⟩
    · exact ⟨true, rfl⟩
  obtain ⟨b, s1⟩ := s1
  unfold serElem
  simp only []
  split
  · rename_i he
    simp at he
    obtain ⟨rfl, rfl⟩ := he
    have e : s " />" = ' ' :: ['/', '>'] := by decide
    simp only [e, List.cons_append, List.append_assoc]
    rw [run_cons, s1, run_open_blank tag attrs ht ha]
    rfl
  · obtain ⟨b1, e1⟩ := run_escText text hx 0 tag attrs [] [] [] none
    obtain ⟨b2, k2, e2⟩ := run_children children (by simpa using hc) b1 tag attrs ([] ++ text) [] false []
    simp only [List.cons_append, List.append_assoc]
    rw [run_cons, s1, run_open_gt tag attrs ht ha, run_append, e1, run_append, e2, run_endTag tag ht]
    simp [St.close]

theorem parseDoc_serElem (e : Elem) (h : elemOk e = true) : parseDoc (serElem e) = .ok e := by
  unfold parseDoc
  rw [run_serElem e h init (Or.inr rfl) rfl rfl]
  rfl

end Indi.Xml
