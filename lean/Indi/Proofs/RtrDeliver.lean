/-
  Delivery theorems for the router model, shared by C04 and C05.
-/
import Indi.Proofs.Rtr

namespace Indi.Rtr
open Indi.Spec.Rtr

theorem processEnableBlob_devices (σ : State) (m : RMsg) (sd : Sender) :
    (processEnableBlob σ m sd).devices = σ.devices ∧ (processEnableBlob σ m sd).clients = σ.clients := by
  unfold processEnableBlob
  cases sd with
  | cli c => simp only; split <;> simp
  | nobody => simp
  | dev i => simp

/-- the deliveries of one `process_message` are exactly what the history specification demands -/
theorem process_deliveries (h : List Op) (m : RMsg) (sd : Sender) :
    (step (run h) (.send m sd)).2 =
      expected (h ++ [.send m sd]) (run h).devices (run h).clients m sd := by
  have hinv := inv_runRev (Op.send m sd :: h.reverse)
  have hpol := hinv.pol
  simp only [runRev, ← run_eq_runRev, step] at hpol
  simp only [step, process, expected, devicesFor, clientsFor, policyOf, List.reverse_append,
    List.reverse_cons, List.reverse_nil, List.nil_append, List.cons_append]
  have hd : (if (m.fromClient && m.isEnableBlob) = true then processEnableBlob (run h) m sd else run h).devices = (run h).devices := by
    split
    · exact (processEnableBlob_devices _ _ _).1
    · rfl
  have hc : (if (m.fromClient && m.isEnableBlob) = true then processEnableBlob (run h) m sd else run h).clients = (run h).clients := by
    split
    · exact (processEnableBlob_devices _ _ _).2
    · rfl
  rw [hd, hc]
  congr 1
  split
  · congr 1
    apply List.filter_congr
    intro c _
    have := hpol c m.device
    simp only [process] at this
    rw [this, deliverCond_eq_allows]
  · rfl

theorem devicesOf_append (a b : List Op) : devicesOf (a ++ b) = devicesOf a ++ devicesOf b := by
  simp [devicesOf, List.filterMap_append]

/-- the router's device list is the list of registered devices, in registration order -/
theorem devices_eq (h : List Op) : (run h).devices = devicesOf h := by
  rw [run_eq_runRev]
  have : ∀ r : List Op, (runRev r).devices = devicesOf r.reverse := by
    intro r
    induction r with
    | nil => rfl
    | cons op rest ih =>
      simp only [List.reverse_cons, devicesOf_append]
      cases op with
      | regDev d => simp [runRev, step, ih, devicesOf]
      | regCli c => simp [runRev, step, ih, devicesOf]
      | unreg c => simp [runRev, step, ih, devicesOf]
      | send m sd =>
        simp only [runRev, step, process]
        split
        · simp [(processEnableBlob_devices _ _ _).1, ih, devicesOf]
        · simp [ih, devicesOf]
  rw [this, List.reverse_reverse]

theorem mem_removeFirst {c x : Nat} {l : List Nat} (h : x ∈ removeFirst c l) : x ∈ l := by
  induction l with
  | nil => cases h
  | cons y ys ih =>
    simp only [removeFirst] at h
    split at h
    · exact List.mem_cons_of_mem _ h
    · rcases List.mem_cons.mp h with e | e
      · exact e ▸ List.mem_cons_self
      · exact List.mem_cons_of_mem _ (ih e)

theorem removeFirst_nodup {c : Nat} {l : List Nat} (h : l.Nodup) :
    (removeFirst c l).Nodup ∧ c ∉ removeFirst c l ∧ ∀ x, x ≠ c → (x ∈ removeFirst c l ↔ x ∈ l) := by
  induction l with
  | nil => simp [removeFirst]
  | cons y ys ih =>
    simp only [List.nodup_cons] at h
    obtain ⟨ih1, ih2, ih3⟩ := ih h.2
    simp only [removeFirst]
    split
    · rename_i hy
      subst hy
      refine ⟨h.2, h.1, ?_⟩
      intro x hx
      simp [hx]
    · rename_i hy
      refine ⟨?_, ?_, ?_⟩
      · simp only [List.nodup_cons]
        exact ⟨fun hm => h.1 (mem_removeFirst hm), ih1⟩
      · simp only [List.mem_cons, not_or]
        exact ⟨fun e => hy e.symm, ih2⟩
      · intro x hx
        simp only [List.mem_cons]
        rw [ih3 x hx]

/-- under the API precondition the router's client list has no duplicates and
holds exactly the currently registered clients -/
theorem clients_registered : ∀ (r : List Op), wellFormedRev r = true →
    (runRev r).clients.Nodup ∧ ∀ c, c ∈ (runRev r).clients ↔ registered r c = true := by
  intro r
  induction r with
  | nil => intro _; simp [runRev, init, registered]
  | cons op rest ih =>
    intro hwf
    simp only [wellFormedRev, Bool.and_eq_true] at hwf
    obtain ⟨ih1, ih2⟩ := ih hwf.1
    cases op with
    | regDev d => simpa [runRev, step, registered] using ⟨ih1, ih2⟩
    | regCli c0 =>
      have hnew : registered rest c0 = false := by simpa using hwf.2
      simp only [runRev, step, registered]
      refine ⟨?_, ?_⟩
      · rw [List.nodup_append]
        refine ⟨ih1, by simp, ?_⟩
        intro a ha b hb
        simp only [List.mem_singleton] at hb
        subst hb
        intro e; subst e
        rw [ih2] at ha
        rw [ha] at hnew; cases hnew
      · intro c
        simp only [List.mem_append, List.mem_singleton]
        by_cases h : c0 = c
        · subst h; simp
        · have : ¬ c = c0 := fun e => h e.symm
          simp [h, this, ih2 c]
    | unreg c0 =>
      simp only [runRev, step, registered]
      obtain ⟨n1, n2, n3⟩ := removeFirst_nodup (c := c0) ih1
      refine ⟨n1, ?_⟩
      intro c
      by_cases h : c0 = c
      · subst h; simp [n2]
      · have : c ≠ c0 := fun e => h e.symm
        simp [h, n3 c this, ih2 c]
    | send m sd =>
      simp only [runRev, step, process, registered]
      have : (if (m.fromClient && m.isEnableBlob) = true then processEnableBlob (runRev rest) m sd else runRev rest).clients
          = (runRev rest).clients := by
        split
        · exact (processEnableBlob_devices _ _ _).2
        · rfl
      rw [this]
      exact ⟨ih1, ih2⟩

theorem device_ids_nodup : ∀ (r : List Op), wellFormedRev r = true →
    ((devicesOf r.reverse).map (·.id)).Nodup := by
  intro r
  induction r with
  | nil => intro _; simp [devicesOf]
  | cons op rest ih =>
    intro hwf
    simp only [wellFormedRev, Bool.and_eq_true] at hwf
    have ih' := ih hwf.1
    simp only [List.reverse_cons, devicesOf_append]
    cases op with
    | regDev d =>
      simp only [devicesOf, List.filterMap_cons, List.filterMap_nil, List.map_append, List.map_cons, List.map_nil]
      rw [List.nodup_append]
      refine ⟨ih', by simp, ?_⟩
      intro a ha b hb
      simp only [List.mem_singleton] at hb
      subst hb
      intro e
      have h2 := hwf.2
      simp only [Bool.not_eq_true', List.any_eq_false, decide_eq_true_eq] at h2
      obtain ⟨d', hd', hid⟩ := List.mem_map.mp ha
      -- devicesOf rest (newest first) has the same members as devicesOf rest.reverse
      have hmem : d' ∈ devicesOf rest := by
        simp only [devicesOf, List.mem_filterMap] at hd' ⊢
        obtain ⟨op, hop, hh⟩ := hd'
        exact ⟨op, List.mem_reverse.mp hop, hh⟩
      exact h2 d' hmem (hid.trans e)
    | regCli c => simpa [devicesOf] using ih'
    | unreg c => simpa [devicesOf] using ih'
    | send m sd => simpa [devicesOf] using ih'

end Indi.Rtr
