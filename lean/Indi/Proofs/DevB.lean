/-
  Helper lemmas for Properties/DevB.lean (C07).

  Part 1 (`Indi.DevBNum`): every text `num_to_str` renders is accepted by `checks.number`.
  Part 2 (`Indi.DevBResp`): the response to `getProperties` (`C07_response`).
  Part 3 (`Indi.DevB`): every message a well-formed driver emits reads back (`C07_emitted_valid`):
    keyword lookup is insensitive to the sorting of attributes; each part class and each message
    class reads back (evaluated on the regenerated class table); vectors stay well-formed inside
    an operation.
-/
import Indi.Spec.Dev
import Indi.Generated.Registry

/-! ## Part 1: rendered numbers are valid number texts -/

namespace Indi.DevBNum
open Indi Indi.Num

/-- an ASCII digit as far as the recogniser is concerned -/
def Dig (c : Char) : Prop :=
  pyIsDigit c = true ∧ pyIsSpace c = false ∧ c ≠ '-' ∧ c ≠ '+'

def AllDig (l : Str) : Prop := ∀ c ∈ l, Dig c
def AllNS (l : Str) : Prop := ∀ c ∈ l, pyIsSpace c = false
def AllSp (l : Str) : Prop := ∀ c ∈ l, pyIsSpace c = true

theorem dig_ofNat : ∀ k, k < 10 → Dig (Char.ofNat (48 + k)) := by
  unfold Dig; decide

theorem dig_zero : Dig '0' := dig_ofNat 0 (by omega)

theorem padDigits2_len : ∀ n, n < 100 → (padDigits 2 n).length = 2 := by decide
theorem natDigits_len1 : ∀ n, n < 10 → (natDigits n).length = 1 := by decide

theorem misc : pyIsDigit '.' = false ∧ pyIsDigit ':' = false ∧ pyIsSpace '.' = false ∧
    pyIsSpace ':' = false ∧ pyIsSpace '-' = false ∧ pyIsSpace '+' = false ∧
    pyIsSpace ' ' = true := by decide

/-! ### digits -/

theorem natDigitsAux_dig (fuel : Nat) : ∀ (n : Nat) (acc : Str), AllDig acc →
    AllDig (natDigitsAux fuel n acc) := by
  induction fuel with
  | zero => intro n acc h; simpa [natDigitsAux] using h
  | succ f ih =>
    intro n acc h
    have h' : AllDig (Char.ofNat (48 + n % 10) :: acc) := by
      intro c hc
      cases hc with
      | head => exact dig_ofNat _ (by omega)
      | tail _ hc => exact h c hc
    simp only [natDigitsAux]
    split
    · exact h'
    · exact ih _ _ h'

theorem natDigitsAux_ne (fuel : Nat) : ∀ (n : Nat) (acc : Str), (acc ≠ [] ∨ fuel ≠ 0) →
    natDigitsAux fuel n acc ≠ [] := by
  induction fuel with
  | zero => intro n acc h; cases h with
    | inl h => simpa [natDigitsAux] using h
    | inr h => exact absurd rfl h
  | succ f ih =>
    intro n acc _
    simp only [natDigitsAux]
    split
    · simp
    · exact ih _ _ (Or.inl (by simp))

theorem natDigits_dig (n : Nat) : AllDig (natDigits n) :=
  natDigitsAux_dig _ _ _ (by intro c hc; cases hc)

theorem natDigits_ne (n : Nat) : natDigits n ≠ [] :=
  natDigitsAux_ne _ _ _ (Or.inr (by omega))

theorem allDig_append {a b : Str} (ha : AllDig a) (hb : AllDig b) : AllDig (a ++ b) := by
  intro c hc
  rcases List.mem_append.1 hc with h | h
  · exact ha c h
  · exact hb c h

theorem allDig_replicate (k : Nat) : AllDig (List.replicate k '0') := by
  intro c hc
  rw [(List.mem_replicate.1 hc).2]; exact dig_zero

theorem padDigits_dig (w n : Nat) : AllDig (padDigits w n) := by
  unfold padDigits
  exact allDig_append (allDig_replicate _) (natDigits_dig n)

theorem padDigits_ne (w n : Nat) : padDigits w n ≠ [] := by
  unfold padDigits
  simp [natDigits_ne]

theorem padDigits2 (n : Nat) (h : n < 100) : ∃ a b, padDigits 2 n = [a, b] ∧ Dig a ∧ Dig b := by
  have hl := padDigits2_len n h
  have hd := padDigits_dig 2 n
  match hp : padDigits 2 n, hl, hd with
  | [a, b], _, hd => exact ⟨a, b, rfl, hd a (by simp), hd b (by simp)⟩

theorem natDigits1 (n : Nat) (h : n < 10) : ∃ a, natDigits n = [a] ∧ Dig a := by
  have hl := natDigits_len1 n h
  have hd := natDigits_dig n
  match hp : natDigits n, hl, hd with
  | [a], _, hd => exact ⟨a, rfl, hd a (by simp)⟩

/-! ### spanDigits -/

theorem spanDigits_append (ds r : Str) (hds : AllDig ds) (hr : spanDigits r = ([], r)) :
    spanDigits (ds ++ r) = (ds, r) := by
  induction ds with
  | nil => simpa using hr
  | cons c cs ih =>
    have hc : pyIsDigit c = true := (hds c (by simp)).1
    have := ih (fun x hx => hds x (by simp [hx]))
    simp [spanDigits, hc, this]

theorem spanDigits_all (ds : Str) (hds : AllDig ds) : spanDigits ds = (ds, []) := by
  have := spanDigits_append ds [] hds (by simp [spanDigits])
  simpa using this

theorem spanDigits_nd (c : Char) (r : Str) (h : pyIsDigit c = false) :
    spanDigits (c :: r) = ([], c :: r) := by
  simp [spanDigits, h]
def numberBody (body : Str) : Bool :=
  let (d, r) := spanDigits body
  if d.isEmpty then
    match r with
    | '.' :: r' => let (d', r'') := spanDigits r'; !d'.isEmpty && r''.isEmpty
    | _ => false
  else
    match r with
    | [] => true
    | '.' :: r' => let (_, r'') := spanDigits r'; r''.isEmpty
    | c :: r' =>
      if isSexaSep c then
        match twoDigits r' with
        | none => false
        | some r2 =>
          match r2 with
          | [] => true
          | '.' :: _ => optFracEnd r2
          | c2 :: r3 =>
            if isSexaSep c2 then
              match twoDigits r3 with
              | none => false
              | some r4 => optFracEnd r4
            else false
      else false

theorem numberCore_neg (r : Str) : numberCore ('-' :: r) = numberBody r := rfl
theorem numberCore_pos (r : Str) : numberCore ('+' :: r) = numberBody r := rfl
theorem numberCore_other (c : Char) (r : Str) (h1 : c ≠ '-') (h2 : c ≠ '+') :
    numberCore (c :: r) = numberBody (c :: r) := by
  unfold numberCore
  split
  · rename_i heq; cases heq; exact absurd rfl h1
  · rename_i heq; cases heq; exact absurd rfl h2
  · rfl

/-! ### shapes -/

inductive Tail : Str → Prop
  | nil : Tail []
  | frac (ds : Str) : AllDig ds → Tail ('.' :: ds)
  | m (a b : Char) : Dig a → Dig b → Tail [':', a, b]
  | mf (a b : Char) (ds : Str) : Dig a → Dig b → ds ≠ [] → AllDig ds →
      Tail (':' :: a :: b :: '.' :: ds)
  | ms (a b c d : Char) : Dig a → Dig b → Dig c → Dig d → Tail [':', a, b, ':', c, d]
  | msf (a b c d : Char) (ds : Str) : Dig a → Dig b → Dig c → Dig d → ds ≠ [] → AllDig ds →
      Tail (':' :: a :: b :: ':' :: c :: d :: '.' :: ds)

theorem isEmpty_false {l : Str} (h : l ≠ []) : l.isEmpty = false := by
  cases l with
  | nil => exact absurd rfl h
  | cons => rfl

theorem tail_span {tl : Str} (h : Tail tl) : spanDigits tl = ([], tl) := by
  cases h with
  | nil => simp [spanDigits]
  | frac => exact spanDigits_nd _ _ misc.1
  | m => exact spanDigits_nd _ _ misc.2.1
  | mf => exact spanDigits_nd _ _ misc.2.1
  | ms => exact spanDigits_nd _ _ misc.2.1
  | msf => exact spanDigits_nd _ _ misc.2.1

theorem sep_colon : isSexaSep ':' = true := by decide

theorem numberBody_shape (ds tl : Str) (hne : ds ≠ []) (hds : AllDig ds) (htl : Tail tl) :
    numberBody (ds ++ tl) = true := by
  have hs := spanDigits_append ds tl hds (tail_span htl)
  unfold numberBody
  rw [hs]
  simp only [isEmpty_false hne]
  cases htl with
  | nil => rfl
  | frac ds2 h2 => simp [spanDigits_all ds2 h2]
  | m a b ha hb => simp [sep_colon, twoDigits, ha.1, hb.1]
  | mf a b ds2 ha hb hne2 h2 =>
    simp [sep_colon, twoDigits, ha.1, hb.1, optFracEnd, spanDigits_all ds2 h2, isEmpty_false hne2]
  | ms a b c d ha hb hc hd =>
    simp [sep_colon, twoDigits, ha.1, hb.1, hc.1, hd.1, optFracEnd]
  | msf a b c d ds2 ha hb hc hd hne2 h2 =>
    simp [sep_colon, twoDigits, ha.1, hb.1, hc.1, hd.1, optFracEnd, spanDigits_all ds2 h2,
      isEmpty_false hne2]

def SgOk (sg : Str) : Prop := sg = [] ∨ sg = ['-'] ∨ sg = ['+']

def Shape (t : Str) : Prop :=
  ∃ sg ds tl, t = sg ++ (ds ++ tl) ∧ SgOk sg ∧ ds ≠ [] ∧ AllDig ds ∧ Tail tl

theorem numberCore_shape {t : Str} (h : Shape t) : numberCore t = true := by
  obtain ⟨sg, ds, tl, rfl, hsg, hne, hds, htl⟩ := h
  rcases hsg with rfl | rfl | rfl
  · cases ds with
    | nil => exact absurd rfl hne
    | cons c cs =>
      have hc := hds c (by simp)
      have := numberCore_other c (cs ++ tl) hc.2.2.1 hc.2.2.2
      simp only [List.nil_append, List.cons_append]
      rw [this]
      exact numberBody_shape (c :: cs) tl hne hds htl
  · exact (numberCore_neg _).trans (numberBody_shape ds tl hne hds htl)
  · exact (numberCore_pos _).trans (numberBody_shape ds tl hne hds htl)

/-! ### strip -/

theorem allNS_of_allDig {l : Str} (h : AllDig l) : AllNS l := fun c hc => (h c hc).2.1

theorem allNS_append {a b : Str} (ha : AllNS a) (hb : AllNS b) : AllNS (a ++ b) := by
  intro c hc
  rcases List.mem_append.1 hc with h | h
  · exact ha c h
  · exact hb c h

theorem allNS_cons {c : Char} {l : Str} (hc : pyIsSpace c = false) (hl : AllNS l) :
    AllNS (c :: l) := by
  intro x hx
  cases hx with
  | head => exact hc
  | tail _ hx => exact hl x hx

theorem allNS_nil : AllNS [] := by intro c hc; cases hc

theorem tail_allNS {tl : Str} (h : Tail tl) : AllNS tl := by
  have hd : pyIsSpace '.' = false := misc.2.2.1
  have hcn : pyIsSpace ':' = false := misc.2.2.2.1
  cases h with
  | nil => exact allNS_nil
  | frac ds h => exact allNS_cons hd (allNS_of_allDig h)
  | m a b ha hb => exact allNS_cons hcn (allNS_cons ha.2.1 (allNS_cons hb.2.1 allNS_nil))
  | mf a b ds ha hb _ h =>
    exact allNS_cons hcn (allNS_cons ha.2.1 (allNS_cons hb.2.1 (allNS_cons hd (allNS_of_allDig h))))
  | ms a b c d ha hb hc hd' =>
    exact allNS_cons hcn (allNS_cons ha.2.1 (allNS_cons hb.2.1
      (allNS_cons hcn (allNS_cons hc.2.1 (allNS_cons hd'.2.1 allNS_nil)))))
  | msf a b c d ds ha hb hc hd' _ h =>
    exact allNS_cons hcn (allNS_cons ha.2.1 (allNS_cons hb.2.1
      (allNS_cons hcn (allNS_cons hc.2.1 (allNS_cons hd'.2.1 (allNS_cons hd (allNS_of_allDig h)))))))

theorem shape_allNS {t : Str} (h : Shape t) : AllNS t := by
  obtain ⟨sg, ds, tl, rfl, hsg, _, hds, htl⟩ := h
  refine allNS_append ?_ (allNS_append (allNS_of_allDig hds) (tail_allNS htl))
  rcases hsg with rfl | rfl | rfl
  · exact allNS_nil
  · exact allNS_cons misc.2.2.2.2.1 allNS_nil
  · exact allNS_cons misc.2.2.2.2.2.1 allNS_nil

theorem dropSpaces_allNS {l : Str} (h : AllNS l) : dropSpaces l = l := by
  cases l with
  | nil => rfl
  | cons c cs => simp [dropSpaces, h c (by simp)]

theorem dropSpaces_allSp (p r : Str) (h : AllSp p) : dropSpaces (p ++ r) = dropSpaces r := by
  induction p with
  | nil => rfl
  | cons c cs ih =>
    simp only [List.cons_append, dropSpaces, h c (by simp), if_true]
    exact ih (fun x hx => h x (by simp [hx]))

theorem allNS_reverse {l : Str} (h : AllNS l) : AllNS l.reverse :=
  fun c hc => h c (List.mem_reverse.1 hc)

theorem allSp_reverse {l : Str} (h : AllSp l) : AllSp l.reverse :=
  fun c hc => h c (List.mem_reverse.1 hc)

/-- stripping blank padding around blank-free text -/
theorem strip_pad (p m q : Str) (hp : AllSp p) (hq : AllSp q) (hm : AllNS m) :
    pyStrip (p ++ (m ++ q)) = m := by
  unfold pyStrip
  rw [dropSpaces_allSp p _ hp]
  cases m with
  | nil =>
    have : dropSpaces ([] ++ q) = [] := by
      have := dropSpaces_allSp q [] hq
      simpa [dropSpaces] using this
    rw [this]; rfl
  | cons c cs =>
    have h1 : dropSpaces (c :: cs ++ q) = c :: cs ++ q := by
      simp [dropSpaces, hm c (by simp)]
    rw [h1, List.reverse_append, dropSpaces_allSp _ _ (allSp_reverse hq),
      dropSpaces_allNS (allNS_reverse hm), List.reverse_reverse]

theorem strip_allNS {m : Str} (hm : AllNS m) : pyStrip m = m := by
  have := strip_pad [] m [] (by intro c hc; cases hc) (by intro c hc; cases hc) hm
  simpa using this

theorem numberOk_shape {t : Str} (h : Shape t) : numberOk (pyStrip t) = true := by
  rw [strip_allNS (shape_allNS h)]
  simp [numberOk, numberCore_shape h]

/-- blank padding around a well-shaped number -/
def Good (u : Str) : Prop := ∃ p m q, u = p ++ (m ++ q) ∧ AllSp p ∧ AllSp q ∧ Shape m

theorem numberOk_good {u : Str} (h : Good u) : numberOk (pyStrip (pyStrip u)) = true := by
  obtain ⟨p, m, q, rfl, hp, hq, hm⟩ := h
  rw [strip_pad p m q hp hq (shape_allNS hm)]
  exact numberOk_shape hm

/-! ### printf fields -/

/-- digits with an optional fraction -/
def Body (b : Str) : Prop := ∃ ds tl, b = ds ++ tl ∧ ds ≠ [] ∧ AllDig ds ∧ Tail tl

/-- a printf sign: blanks then an optional real sign -/
def SignOk (sign : Str) : Prop := ∃ sp sg, sign = sp ++ sg ∧ AllSp sp ∧ SgOk sg

theorem allSp_nil : AllSp [] := by intro c hc; cases hc

theorem allSp_replicate (k : Nat) : AllSp (List.replicate k ' ') := by
  intro c hc
  rw [(List.mem_replicate.1 hc).2]; exact misc.2.2.2.2.2.2

theorem allSp_append {a b : Str} (ha : AllSp a) (hb : AllSp b) : AllSp (a ++ b) := by
  intro c hc
  rcases List.mem_append.1 hc with h | h
  · exact ha c h
  · exact hb c h

theorem signStr_ok (fl : Flags) (neg : Bool) : SignOk (signStr fl neg) := by
  unfold signStr
  split
  · exact ⟨[], ['-'], rfl, allSp_nil, Or.inr (Or.inl rfl)⟩
  · split
    · exact ⟨[], ['+'], rfl, allSp_nil, Or.inr (Or.inr rfl)⟩
    · split
      · exact ⟨[' '], [], rfl, allSp_replicate 1, Or.inl rfl⟩
      · exact ⟨[], [], rfl, allSp_nil, Or.inl rfl⟩

theorem padField_good (fl : Flags) (width : Nat) (sign body : Str) (hs : SignOk sign)
    (hb : Body body) : Good (padField fl width sign body) := by
  obtain ⟨sp, sg, rfl, hsp, hsg⟩ := hs
  obtain ⟨ds, tl, rfl, hne, hds, htl⟩ := hb
  unfold padField
  simp only []
  generalize width - ((sp ++ sg).length + (ds ++ tl).length) = k
  split
  · exact ⟨sp, sg ++ (ds ++ tl), [], by simp only [List.append_assoc, List.append_nil],
      hsp, allSp_nil, sg, ds, tl, rfl, hsg, hne, hds, htl⟩
  · split
    · exact ⟨sp, sg ++ (ds ++ tl), List.replicate k ' ', by simp only [List.append_assoc],
        hsp, allSp_replicate _, sg, ds, tl, rfl, hsg, hne, hds, htl⟩
    · split
      · refine ⟨sp, sg ++ ((List.replicate k '0' ++ ds) ++ tl), [],
          by simp only [List.append_assoc, List.append_nil], hsp, allSp_nil,
          sg, _, tl, rfl, hsg, ?_, allDig_append (allDig_replicate _) hds, htl⟩
        simp [hne]
      · exact ⟨List.replicate k ' ' ++ sp, sg ++ (ds ++ tl), [],
          by simp only [List.append_assoc, List.append_nil],
          allSp_append (allSp_replicate _) hsp, allSp_nil, sg, ds, tl, rfl, hsg, hne, hds, htl⟩

/-! ### sexagesimal -/

theorem sexaBase_cases {frac base : Nat} (h : sexaBase frac = some base) :
    (frac = 3 ∧ base = 60) ∨ (frac = 5 ∧ base = 600) ∨ (frac = 6 ∧ base = 3600) ∨
    (frac = 8 ∧ base = 36000) ∨ (frac = 9 ∧ base = 360000) := by
  unfold sexaBase Generated.sexaBases at h
  simp only [List.find?] at h
  split at h
  · rename_i h1; simp at h1 h; omega
  · split at h
    · rename_i h1; simp at h1 h; omega
    · split at h
      · rename_i h1; simp at h1 h; omega
      · split at h
        · rename_i h1; simp at h1 h; omega
        · split at h
          · rename_i h1; simp at h1 h; omega
          · simp at h

theorem sexaFields_shape {frac base : Nat} (total : Nat) (h : sexaBase frac = some base) :
    ∃ tl, sexaFields frac base total = natDigits (total / base) ++ tl ∧ Tail tl := by
  rcases sexaBase_cases h with ⟨rfl, rfl⟩ | ⟨rfl, rfl⟩ | ⟨rfl, rfl⟩ | ⟨rfl, rfl⟩ | ⟨rfl, rfl⟩
  · obtain ⟨a, b, hab, ha, hb⟩ := padDigits2 (total % 60) (by omega)
    refine ⟨[':', a, b], ?_, Tail.m a b ha hb⟩
    have e : sexaFields 3 60 total =
        natDigits (total / 60) ++ [':'] ++ padDigits 2 (total % 60) := rfl
    rw [e, hab]; simp only [List.append_assoc, List.cons_append, List.nil_append]
  · obtain ⟨a, b, hab, ha, hb⟩ := padDigits2 (total % 600 / 10) (by omega)
    refine ⟨':' :: a :: b :: '.' :: natDigits (total % 600 % 10), ?_,
      Tail.mf a b _ ha hb (natDigits_ne _) (natDigits_dig _)⟩
    have e : sexaFields 5 600 total =
        natDigits (total / 600) ++ [':'] ++ padDigits 2 (total % 600 / 10) ++ ['.'] ++
          natDigits (total % 600 % 10) := rfl
    rw [e, hab]; simp only [List.append_assoc, List.cons_append, List.nil_append]
  · obtain ⟨a, b, hab, ha, hb⟩ := padDigits2 (total % 3600 / 60) (by omega)
    obtain ⟨c, d, hcd, hc, hd⟩ := padDigits2 (total % 3600 % 60) (by omega)
    refine ⟨[':', a, b, ':', c, d], ?_, Tail.ms a b c d ha hb hc hd⟩
    have e : sexaFields 6 3600 total =
        natDigits (total / 3600) ++ [':'] ++ padDigits 2 (total % 3600 / 60) ++ [':'] ++
          padDigits 2 (total % 3600 % 60) := rfl
    rw [e, hab, hcd]; simp only [List.append_assoc, List.cons_append, List.nil_append]
  · obtain ⟨a, b, hab, ha, hb⟩ := padDigits2 (total % 36000 / 600) (by omega)
    obtain ⟨c, d, hcd, hc, hd⟩ := padDigits2 (total % 36000 % 600 / 10) (by omega)
    refine ⟨':' :: a :: b :: ':' :: c :: d :: '.' :: natDigits (total % 36000 % 600 % 10), ?_,
      Tail.msf a b c d _ ha hb hc hd (natDigits_ne _) (natDigits_dig _)⟩
    have e : sexaFields 8 36000 total =
        natDigits (total / 36000) ++ [':'] ++ padDigits 2 (total % 36000 / 600) ++ [':'] ++
          padDigits 2 (total % 36000 % 600 / 10) ++ ['.'] ++
          natDigits (total % 36000 % 600 % 10) := rfl
    rw [e, hab, hcd]; simp only [List.append_assoc, List.cons_append, List.nil_append]
  · obtain ⟨a, b, hab, ha, hb⟩ := padDigits2 (total % 360000 / 6000) (by omega)
    obtain ⟨c, d, hcd, hc, hd⟩ := padDigits2 (total % 360000 % 6000 / 100) (by omega)
    refine ⟨':' :: a :: b :: ':' :: c :: d :: '.' :: padDigits 2 (total % 360000 % 6000 % 100), ?_,
      Tail.msf a b c d _ ha hb hc hd (padDigits_ne _ _) (padDigits_dig _ _)⟩
    have e : sexaFields 9 360000 total =
        natDigits (total / 360000) ++ [':'] ++ padDigits 2 (total % 360000 / 6000) ++ [':'] ++
          padDigits 2 (total % 360000 % 6000 / 100) ++ ['.'] ++
          padDigits 2 (total % 360000 % 6000 % 100) := rfl
    rw [e, hab, hcd]; simp only [List.append_assoc, List.cons_append, List.nil_append]

/-! ### the theorems -/

theorem render_numberOk (A : Arith) (fmt : Fmt) (x : Rat) (t : Str)
    (h : render A fmt x = .ok t) : numberOk (pyStrip t) = true := by
  cases fmt with
  | sexa frac =>
    simp only [render] at h
    split at h
    · cases h
    · rename_i base hb
      simp only [Outcome.ok.injEq] at h
      subst h
      obtain ⟨tl, htl, hT⟩ := sexaFields_shape (rhe (ratAbs x * base)).toNat hb
      apply numberOk_shape
      refine ⟨if x < 0 then ['-'] else [], natDigits _, tl, by rw [htl], ?_, natDigits_ne _,
        natDigits_dig _, hT⟩
      split
      · exact Or.inr (Or.inl rfl)
      · exact Or.inl rfl
  | f fl width prec =>
    simp only [render, Outcome.ok.injEq] at h
    subst h
    apply numberOk_good
    apply padField_good _ _ _ _ (signStr_ok _ _)
    refine ⟨natDigits _, _, rfl, natDigits_ne _, natDigits_dig _, ?_⟩
    split
    · exact Tail.frac _ (padDigits_dig _ _)
    · split
      · exact Tail.frac [] (by intro c hc; cases hc)
      · exact Tail.nil
  | d fl width prec =>
    simp only [render, Outcome.ok.injEq] at h
    subst h
    apply numberOk_good
    apply padField_good _ _ _ _ (signStr_ok _ _)
    cases prec with
    | some p => exact ⟨padDigits p _, [], (List.append_nil _).symm, padDigits_ne _ _, padDigits_dig _ _, Tail.nil⟩
    | none => exact ⟨natDigits _, [], (List.append_nil _).symm, natDigits_ne _, natDigits_dig _, Tail.nil⟩

theorem numToStr_numberOk (A : Arith) (f : Str) (x : Rat) (t : Str)
    (h : numToStr A f x = .ok t) : numberOk (pyStrip t) = true := by
  unfold numToStr at h
  split at h
  · cases h
  · exact render_numberOk A _ x t h

end Indi.DevBNum

/-! ## Part 2: the response to `getProperties`

  C07: the response of the driver model to `getProperties`.

  For every well-formed device (`WF`) and every `getProperties` request, what
  `fromClient` publishes satisfies the oracle `c07Holds`: the definitions published
  are exactly `expectedDefs`, and everything else is a `delProperty` notice.

  Route: `full d` lists every vector with its position; with distinct names
  `dictVecs d` is the list of all positions and `findVecByName` finds the unique
  vector of a name; definitions of well-formed vectors never fail (`defMsg_ok`);
  `sendDefs` over distinct positions publishes `filterMap (defOf d)` although the
  device is refreshed on the way (`sendDefs_msgs`); hence
  `(fromClient d m).msgs = (allVecs d).filterMap (sel d name)` (`fromClient_msgs`).
-/

namespace Indi.DevBResp
open Indi Indi.Dev Indi.Spec.Dev

/-! ### generic list lemmas -/

theorem filterMap_congr' {α β : Type} {f g : α → Option β} :
    ∀ {l : List α}, (∀ a ∈ l, f a = g a) → l.filterMap f = l.filterMap g
  | [], _ => rfl
  | a :: l, h => by
    have h1 : f a = g a := h a (by simp)
    have h2 : l.filterMap f = l.filterMap g := filterMap_congr' fun b hb => h b (by simp [hb])
    simp only [List.filterMap_cons, h1, h2]

theorem not_mem_take_of_nodup {α : Type} {a : α} :
    ∀ {l : List α} {i : Nat}, l.Nodup → l[i]? = some a → a ∉ l.take i
  | [], _, _, _ => by simp
  | b :: l, 0, _, _ => by simp
  | b :: l, i + 1, hn, hi => by
    rw [List.nodup_cons] at hn
    simp only [List.getElem?_cons_succ] at hi
    simp only [List.take_succ_cons, List.mem_cons, not_or]
    refine ⟨?_, not_mem_take_of_nodup hn.2 hi⟩
    intro hab
    exact hn.1 (hab ▸ List.mem_of_getElem? hi)

theorem inj_of_nodup_map {α β : Type} (k : α → β) :
    ∀ {l : List α}, (l.map k).Nodup → ∀ {x y : α}, x ∈ l → y ∈ l → k x = k y → x = y
  | [], _, _, _, hx, _, _ => by simp at hx
  | a :: l, hn, x, y, hx, hy, hk => by
    rw [List.map_cons, List.nodup_cons] at hn
    rcases List.mem_cons.1 hx with rfl | hx'
    · rcases List.mem_cons.1 hy with rfl | hy'
      · rfl
      · exact absurd (List.mem_map.2 ⟨y, hy', hk.symm⟩) hn.1
    · rcases List.mem_cons.1 hy with rfl | hy'
      · exact absurd (List.mem_map.2 ⟨x, hx', hk⟩) hn.1
      · exact inj_of_nodup_map k hn.2 hx' hy' hk

/-- with distinct keys, selecting by the key of a member selects that member -/
theorem filterMap_key {α β γ : Type} [DecidableEq β] (k : α → β) (F : α → Option γ) (x : α) :
    ∀ {l : List α}, (l.map k).Nodup → x ∈ l →
      l.filterMap (fun y => if k y = k x then F y else none) = (F x).toList
  | [], _, hx => by simp at hx
  | a :: l, hn, hx => by
    have hn' := hn
    rw [List.map_cons, List.nodup_cons] at hn'
    by_cases hax : a = x
    · subst hax
      have hrest : l.filterMap (fun y => if k y = k a then F y else none) = [] := by
        rw [List.filterMap_eq_nil_iff]
        intro y hy
        have : k y ≠ k a := fun h => hn'.1 (List.mem_map.2 ⟨y, hy, h⟩)
        simp [this]
      rw [List.filterMap_cons, hrest]
      cases F a <;> simp
    · have hx' : x ∈ l := by
        rcases List.mem_cons.1 hx with h | h
        · exact absurd h.symm hax
        · exact h
      have : k a ≠ k x := fun h => hn'.1 (List.mem_map.2 ⟨x, hx', h.symm⟩)
      rw [List.filterMap_cons]
      simp only [this, if_false]
      exact filterMap_key k F x hn'.2 hx'

theorem find_rev_key {α β : Type} [DecidableEq β] (k : α → β) {l : List α} (hn : (l.map k).Nodup)
    {x : α} (hx : x ∈ l) : l.reverse.find? (fun t => decide (k t = k x)) = some x := by
  cases h : l.reverse.find? (fun t => decide (k t = k x)) with
  | none =>
    rw [List.find?_eq_none] at h
    exact absurd (by simp) (h x (List.mem_reverse.2 hx))
  | some y =>
    have hy : y ∈ l := List.mem_reverse.1 (List.mem_of_find?_eq_some h)
    have hk : k y = k x := by simpa using List.find?_some h
    rw [inj_of_nodup_map k hn hy hx hk]


/-! ### the master list of vectors with their positions -/

def full (d : Device) : List ((Group × Vec) × (Nat × Nat)) :=
  (d.groups.zipIdx.map fun (g, gi) => g.vecs.zipIdx.map fun (v, vi) => ((g, v), (gi, vi))).flatten

/-- the list `all` of `dictVecs` / `findVecByName` -/
def allT (d : Device) : List (Str × Nat × Nat) :=
  (d.groups.zipIdx.map fun (g, gi) => g.vecs.zipIdx.map fun (v, vi) => (v.name, gi, vi)).flatten

def tOf (x : (Group × Vec) × (Nat × Nat)) : Str × Nat × Nat := (x.1.2.name, x.2.1, x.2.2)

theorem allVecs_eq (d : Device) : allVecs d = (full d).map (·.1) := by
  unfold allVecs full
  rw [List.map_flatten, List.map_map]
  congr 1
  have : ∀ n, List.map (List.map (fun x => x.1) ∘ fun (x : Group × Nat) =>
        List.map (fun (y : Vec × Nat) => ((x.1, y.1), (x.2, y.2))) x.1.vecs.zipIdx) (d.groups.zipIdx n)
      = List.map (fun g => List.map (fun v => (g, v)) g.vecs) d.groups := by
    induction d.groups with
    | nil => intro n; rfl
    | cons g gs ih =>
      intro n
      rw [List.zipIdx_cons, List.map_cons, List.map_cons, ih]
      congr 1
      simp only [Function.comp, List.map_map]
      show List.map ((fun v => (g, v)) ∘ Prod.fst) (g.vecs.zipIdx) = _
      rw [← List.map_map, List.zipIdx_map_fst]
  exact (this 0).symm

theorem allT_eq (d : Device) : allT d = (full d).map tOf := by
  unfold allT full
  rw [List.map_flatten, List.map_map]
  congr 1
  apply List.map_congr_left
  rintro ⟨g, gi⟩ _
  simp only [Function.comp, List.map_map]
  apply List.map_congr_left
  rintro ⟨v, vi⟩ _
  rfl

theorem mem_full {d : Device} {x : (Group × Vec) × (Nat × Nat)} :
    x ∈ full d ↔ getVec d x.2.1 x.2.2 = some x.1 := by
  obtain ⟨⟨g, v⟩, gi, vi⟩ := x
  unfold full getVec
  simp only [List.mem_flatten, List.mem_map, Prod.exists, List.mem_zipIdx_iff_getElem?]
  constructor
  · rintro ⟨l, ⟨g', gi', hg, rfl⟩, hx⟩
    simp only [List.mem_map, Prod.exists, List.mem_zipIdx_iff_getElem?, Prod.mk.injEq] at hx
    obtain ⟨v', vi', hv, ⟨rfl, rfl⟩, rfl, rfl⟩ := hx
    simp only [hg, hv, Option.map_some]
  · intro h
    cases hg : d.groups[gi]? with
    | none => simp [hg] at h
    | some g' =>
      simp only [hg] at h
      cases hv : g'.vecs[vi]? with
      | none => simp [hv] at h
      | some v' =>
        simp only [hv, Option.map_some, Option.some.injEq, Prod.mk.injEq] at h
        obtain ⟨rfl, rfl⟩ := h
        refine ⟨_, ⟨g', gi, hg, rfl⟩, ?_⟩
        simp only [List.mem_map, Prod.exists, List.mem_zipIdx_iff_getElem?]
        exact ⟨v', vi, hv, rfl⟩


/-! ### consequences of distinct names -/

def NamesNodup (d : Device) : Prop := ((full d).map fun x => x.1.2.name).Nodup

theorem names_nodup {d : Device} (h : namesDistinct d = true) : NamesNodup d := by
  unfold namesDistinct at h
  simp only [decide_eq_true_eq] at h
  rw [allVecs_eq, List.map_map] at h
  exact h

theorem pos_nodup {d : Device} (hn : NamesNodup d) : ((full d).map (·.2)).Nodup := by
  unfold NamesNodup at hn
  rw [List.nodup_iff_pairwise_ne, List.pairwise_map] at *
  refine List.Pairwise.imp_of_mem ?_ hn
  intro a b ha hb hne heq
  apply hne
  have h1 := mem_full.1 ha
  have h2 := mem_full.1 hb
  rw [heq, h2] at h1
  injection h1 with h1
  rw [h1]

theorem allT_names (d : Device) : (allT d).map (·.1) = (full d).map fun x => x.1.2.name := by
  rw [allT_eq, List.map_map]; rfl

theorem findVecByName_eq (d : Device) (n : Str) :
    findVecByName d n = ((allT d).reverse.find? fun t => decide (t.1 = n)).map fun t => (t.2.1, t.2.2) := rfl

theorem find_of_mem {d : Device} (hn : NamesNodup d) {x : (Group × Vec) × (Nat × Nat)} (hx : x ∈ full d) :
    findVecByName d x.1.2.name = some x.2 := by
  have hall : ((allT d).map (·.1)).Nodup := by rw [allT_names]; exact hn
  have hmem : tOf x ∈ allT d := by rw [allT_eq]; exact List.mem_map.2 ⟨x, hx, rfl⟩
  have := find_rev_key (·.1) hall hmem
  rw [findVecByName_eq]
  show Option.map _ (List.find? (fun (t : Str × Nat × Nat) => decide (t.1 = (tOf x).1)) _) = _
  rw [this]
  rfl

theorem find_some {d : Device} {n : Str} {p : Nat × Nat} (h : findVecByName d n = some p) :
    ∃ x ∈ full d, x.2 = p ∧ x.1.2.name = n := by
  rw [findVecByName_eq] at h
  cases hf : (allT d).reverse.find? fun t => decide (t.1 = n) with
  | none => rw [hf] at h; simp at h
  | some t =>
    rw [hf] at h
    simp only [Option.map_some, Option.some.injEq] at h
    have hm : t ∈ allT d := List.mem_reverse.1 (List.mem_of_find?_eq_some hf)
    have hk : t.1 = n := by simpa using List.find?_some hf
    rw [allT_eq] at hm
    obtain ⟨x, hx, rfl⟩ := List.mem_map.1 hm
    exact ⟨x, hx, h, hk⟩

theorem find_none {d : Device} {n : Str} (h : findVecByName d n = none) :
    ∀ x ∈ full d, x.1.2.name ≠ n := by
  rw [findVecByName_eq] at h
  simp only [Option.map_eq_none_iff, List.find?_eq_none, List.mem_reverse, decide_eq_true_eq] at h
  intro x hx
  have := h (tOf x) (by rw [allT_eq]; exact List.mem_map.2 ⟨x, hx, rfl⟩)
  exact this

theorem dictVecs_eq {d : Device} (hn : NamesNodup d) : dictVecs d = (full d).map (·.2) := by
  have hall : ((allT d).map (·.1)).Nodup := by rw [allT_names]; exact hn
  show ((allT d).zipIdx.filter fun (t, i) => !(((allT d).map (·.1)).take i).contains t.1).filterMap
      (fun (t, _) => findVecByName d t.1) = _
  rw [List.filter_eq_self.2]
  · have : (fun (p : (Str × Nat × Nat) × Nat) => findVecByName d p.1.1)
        = (fun t => findVecByName d t.1) ∘ Prod.fst := rfl
    show List.filterMap (fun (p : (Str × Nat × Nat) × Nat) => findVecByName d p.1.1) _ = _
    rw [this, ← List.filterMap_map, List.zipIdx_map_fst, allT_eq, List.filterMap_map,
      filterMap_congr' (g := some ∘ (·.2)), List.filterMap_eq_map]
    intro x hx
    exact find_of_mem hn hx
  · rintro ⟨t, i⟩ hti
    rw [List.mem_zipIdx_iff_getElem?] at hti
    have h1 : ((allT d).map (·.1))[i]? = some t.1 := by
      rw [List.getElem?_map]; simp only at hti; rw [hti]; rfl
    have := not_mem_take_of_nodup hall h1
    simpa using this


/-! ### `getVec` after `setVec` -/

theorem getVec_setVec (d : Device) (gi vi : Nat) (v' : Vec) (gj vj : Nat) :
    getVec (setVec d gi vi v') gj vj =
      match getVec d gj vj with
      | none => none
      | some (g, v) =>
        some (if gi = gj then { g with vecs := g.vecs.set vi v' } else g,
              if gi = gj ∧ vi = vj then v' else v) := by
  unfold getVec setVec
  simp only [List.getElem?_modify]
  cases hg : d.groups[gj]? with
  | none => simp
  | some g =>
    by_cases hgi : gi = gj
    · simp only [hgi, Option.map_eq_map, Option.map_some, if_true, List.getElem?_set, true_and]
      by_cases hvi : vi = vj
      · subst hvi
        simp only [if_true]
        cases hv : g.vecs[vi]? with
        | none =>
          have : ¬ vi < g.vecs.length := by
            intro h; rw [List.getElem?_eq_getElem h] at hv; simp at hv
          simp [this]
        | some v =>
          have : vi < g.vecs.length := by
            apply Classical.byContradiction; intro h
            rw [List.getElem?_eq_none (by omega)] at hv; simp at hv
          simp [this]
      · simp only [hvi, if_false]
        cases hv : g.vecs[vj]? <;> simp
    · simp only [hgi, Option.map_eq_map, Option.map_some, if_false, false_and]
      cases hv : g.vecs[vj]? <;> simp

theorem setVec_name (d : Device) (gi vi : Nat) (v' : Vec) : (setVec d gi vi v').name = d.name := rfl

theorem defMsg_group (dev : Str) (g g' : Group) (v : Vec) (hn : g'.name = g.name) (he : g'.enabled = g.enabled) :
    defMsg dev g' v = defMsg dev g v := by
  unfold defMsg vecEnabled
  rw [hn, he]


/-! ### definitions of well-formed vectors never fail -/

def DevOk (d : Device) : Prop := ∀ gi vi g v, getVec d gi vi = some (g, v) → vecOk v = true

theorem devOk_of_WF {d : Device} (h : WF d = true) : DevOk d := by
  unfold WF at h
  simp only [Bool.and_eq_true, List.all_eq_true] at h
  intro gi vi g v hgv
  unfold getVec at hgv
  cases hg : d.groups[gi]? with
  | none => simp [hg] at hgv
  | some g' =>
    simp only [hg] at hgv
    cases hv : g'.vecs[vi]? with
    | none => simp [hv] at hgv
    | some v' =>
      simp only [hv, Option.map_some, Option.some.injEq, Prod.mk.injEq] at hgv
      obtain ⟨rfl, rfl⟩ := hgv
      exact h.1 g' (List.mem_of_getElem? hg) v' (List.mem_of_getElem? hv)

theorem devOk_setVec {d : Device} (h : DevOk d) (gi vi : Nat) {v' : Vec} (hv' : vecOk v' = true) :
    DevOk (setVec d gi vi v') := by
  intro gj vj g v hgv
  rw [getVec_setVec] at hgv
  cases h0 : getVec d gj vj with
  | none => simp [h0] at hgv
  | some gv =>
    obtain ⟨g0, v0⟩ := gv
    simp only [h0, Option.some.injEq, Prod.mk.injEq] at hgv
    obtain ⟨_, rfl⟩ := hgv
    split
    · exact hv'
    · exact h gj vj g0 v0 h0

theorem readValue_ok {k : Kind} {e : Dev.Elem} (h : elemOk k e = true) : valueOk k (readValue e) = true := by
  unfold elemOk at h
  unfold readValue
  simp only [Bool.and_eq_true] at h
  cases hr : e.d.refresh with
  | none => exact h.1.1
  | some v =>
    have := h.1.2
    rw [hr] at this
    simp only [Bool.and_eq_true] at this
    exact this.1

theorem elemOk_afterRead {k : Kind} {e : Dev.Elem} (h : elemOk k e = true) : elemOk k (afterRead e) = true := by
  have hv := readValue_ok h
  unfold elemOk at h ⊢
  simp only [Bool.and_eq_true] at h ⊢
  exact ⟨⟨hv, h.1.2⟩, h.2⟩

theorem vecOk_refresh {v : Vec} (h : vecOk v = true) : vecOk (refreshVec v) = true := by
  unfold vecOk at h ⊢
  simp only [Bool.and_eq_true] at h ⊢
  refine ⟨h.1, ?_⟩
  have h2 := h.2
  rw [List.all_eq_true] at h2 ⊢
  intro e he
  simp only [refreshVec, List.mem_map] at he
  obtain ⟨e0, he0, rfl⟩ := he
  show elemOk v.kind _ = true
  split
  · exact elemOk_afterRead (h2 e0 he0)
  · exact h2 e0 he0

theorem vecOk_refreshDef {v : Vec} (h : vecOk v = true) : vecOk (refreshDef v) = true := by
  unfold refreshDef; split
  · exact h
  · exact vecOk_refresh h

theorem renderNum_ok {fmt : Str} (hf : fmtOk fmt = true) {v : Value} (hv : valueOk .number v = true) :
    ∃ t, renderNum fmt v = .ok t := by
  cases v with
  | none => exact ⟨none, rfl⟩
  | num x i =>
    unfold fmtOk at hf
    unfold renderNum Num.numToStr
    cases hp : Num.parseFmt fmt with
    | none => simp [hp] at hf
    | some f =>
      simp only [hp] at hf ⊢
      cases f with
      | sexa frac =>
        simp only at hf
        unfold Num.render
        cases hb : Num.sexaBase frac with
        | none => simp [hb] at hf
        | some b => simp only [hb]; exact ⟨_, rfl⟩
      | f fl w p => exact ⟨_, rfl⟩
      | d fl w p => exact ⟨_, rfl⟩
  | text t => simp [valueOk] at hv
  | blob b f => simp [valueOk] at hv
  | other => simp [valueOk] at hv

theorem defPart_ok {k : Kind} {e : Dev.Elem} (h : elemOk k e = true) : ∃ p, defPart k e = .ok p := by
  have hv := readValue_ok h
  unfold defPart
  cases k with
  | text =>
    cases hr : readValue e <;> simp [hr, valueOk] at hv ⊢
  | switch =>
    cases hr : readValue e <;> simp [hr, valueOk] at hv ⊢
  | light =>
    cases hr : readValue e <;> simp [hr, valueOk] at hv ⊢
  | blob => exact ⟨_, rfl⟩
  | number =>
    have hf : fmtOk e.d.format = true := by
      unfold elemOk at h
      simp only [Bool.and_eq_true, Bool.or_eq_true] at h
      rcases h.2 with h2 | h2
      · simp at h2
      · exact h2
    obtain ⟨t, ht⟩ := renderNum_ok hf hv
    simp only [ht]
    exact ⟨_, rfl⟩

theorem mapParts_ok {f : Dev.Elem → Except Exc Part} :
    ∀ {es : List Dev.Elem}, (∀ e ∈ es, ∃ p, f e = .ok p) → ∃ ps, mapParts f es = .ok ps
  | [], _ => ⟨[], rfl⟩
  | e :: es, h => by
    obtain ⟨ps, hps⟩ := mapParts_ok (f := f) (es := es) fun e' he' => h e' (by simp [he'])
    obtain ⟨p, hp⟩ := h e (by simp)
    unfold mapParts
    split
    · simp only [hp, hps]; exact ⟨_, rfl⟩
    · exact ⟨ps, hps⟩

theorem defMsg_ok (dev : Str) (g : Group) {v : Vec} (h : vecOk v = true) : ∃ m, defMsg dev g v = .ok m := by
  unfold defMsg
  split
  · exact ⟨_, rfl⟩
  · have : ∃ ps, mapParts (defPart v.kind) v.elems = .ok ps := by
      apply mapParts_ok
      intro e he
      apply defPart_ok
      unfold vecOk at h
      simp only [Bool.and_eq_true, List.all_eq_true] at h
      exact h.2 e he
    obtain ⟨ps, hps⟩ := this
    simp only [hps]
    exact ⟨_, rfl⟩


/-! ### what `sendDefs` publishes -/

def pub (dev : Str) (gv : Group × Vec) : Option Msg :=
  match defMsg dev gv.1 gv.2 with
  | .ok m => some m
  | .error _ => none

def defOf (d : Device) (p : Nat × Nat) : Option Msg := (getVec d p.1 p.2).bind (pub d.name)

theorem defOf_setVec (d : Device) (gi vi : Nat) (v' : Vec) (p : Nat × Nat) (hp : p ≠ (gi, vi)) :
    defOf (setVec d gi vi v') p = defOf d p := by
  unfold defOf
  rw [getVec_setVec, setVec_name]
  cases h0 : getVec d p.1 p.2 with
  | none => rfl
  | some gv =>
    obtain ⟨g, v⟩ := gv
    have hne : ¬ (gi = p.1 ∧ vi = p.2) := by
      rintro ⟨h1, h2⟩
      exact hp (by rw [h1, h2])
    simp only [hne, if_false, Option.bind_some]
    unfold pub
    simp only
    rw [defMsg_group]
    · split <;> rfl
    · split <;> rfl

theorem sendDefs_msgs : ∀ (L : List (Nat × Nat)) (d : Device), DevOk d → L.Nodup →
    (sendDefs d L).msgs = L.filterMap (defOf d)
  | [], d, _, _ => rfl
  | (gi, vi) :: rest, d, hd, hn => by
    rw [List.nodup_cons] at hn
    rw [sendDefs, List.filterMap_cons]
    cases hg : getVec d gi vi with
    | none =>
      simp only [defOf, hg, Option.bind_none]
      exact sendDefs_msgs rest d hd hn.2
    | some gv =>
      obtain ⟨g, v⟩ := gv
      have hv := hd gi vi g v hg
      obtain ⟨m, hm⟩ := defMsg_ok d.name g hv
      have hdef : defOf d (gi, vi) = some m := by
        simp only [defOf, hg, Option.bind_some, pub, hm]
      simp only [hm, hdef, mergeRes]
      have hv' : vecOk (if vecEnabled g v = true then refreshDef v else v) = true := by
        split
        · exact vecOk_refreshDef hv
        · exact hv
      rw [sendDefs_msgs rest _ (devOk_setVec hd gi vi hv') hn.2]
      simp only [List.singleton_append, List.cons.injEq, true_and]
      apply filterMap_congr'
      intro p hp
      apply defOf_setVec
      intro h
      exact hn.1 (h ▸ hp)


/-! ### the response to getProperties -/

/-- what the request `name` elicits from one vector -/
def sel (d : Device) (name : Option Str) (gv : Group × Vec) : Option Msg :=
  if wanted name gv.2 then pub d.name gv else none

theorem defOf_full {d : Device} {x : (Group × Vec) × (Nat × Nat)} (hx : x ∈ full d) :
    defOf d x.2 = pub d.name x.1 := by
  unfold defOf
  rw [mem_full.1 hx]
  rfl

theorem published_all {d : Device} (hok : DevOk d) (hn : NamesNodup d) :
    (sendDefs d (dictVecs d)).msgs = (allVecs d).filterMap (pub d.name) := by
  rw [dictVecs_eq hn, sendDefs_msgs _ d hok (pos_nodup hn), List.filterMap_map, allVecs_eq,
    List.filterMap_map]
  apply filterMap_congr'
  intro x hx
  exact defOf_full hx

theorem fromClient_msgs (d : Device) (hwf : WF d = true) (m : Msg) (hm : m.tag = s "getProperties") :
    (fromClient d m).msgs =
      (allVecs d).filterMap (sel d ((alookup (s "name") m.fields).getD none)) := by
  have hok := devOk_of_WF hwf
  have hn : NamesNodup d := by
    unfold WF at hwf
    simp only [Bool.and_eq_true] at hwf
    exact names_nodup hwf.2
  unfold fromClient
  simp only [hm, if_true]
  cases hname : (alookup (s "name") m.fields).getD none with
  | none =>
    simp only
    rw [published_all hok hn]
    apply filterMap_congr'
    intro gv _
    simp [sel, wanted]
  | some n =>
    simp only
    by_cases hemp : n.isEmpty = true
    · simp only [hemp, if_true]
      rw [published_all hok hn]
      apply filterMap_congr'
      intro gv _
      simp [sel, wanted, hemp]
    · simp only [hemp]
      have hsel : ∀ gv : Group × Vec, sel d (some n) gv = if gv.2.name = n then pub d.name gv else none := by
        intro gv
        simp [sel, wanted, hemp]
      cases hf : findVecByName d n with
      | none =>
        simp only [Bool.false_eq_true, if_false]
        symm
        rw [List.filterMap_eq_nil_iff, allVecs_eq]
        intro gv hgv
        obtain ⟨x, hx, rfl⟩ := List.mem_map.1 hgv
        rw [hsel]
        simp only [find_none hf x hx, if_false]
      | some p =>
        obtain ⟨gi, vi⟩ := p
        obtain ⟨x, hx, hpos, hxn⟩ := find_some hf
        simp only [Bool.false_eq_true, if_false]
        rw [sendDefs_msgs _ d hok (by simp), ← hpos, allVecs_eq, List.filterMap_map]
        simp only [List.filterMap_cons, List.filterMap_nil, defOf_full hx]
        have := filterMap_key (fun (y : (Group × Vec) × (Nat × Nat)) => y.1.2.name)
          (fun y => pub d.name y.1) x hn hx
        have hfun : (sel d (some n) ∘ fun (x : (Group × Vec) × (Nat × Nat)) => x.1)
            = fun y => if y.1.2.name = x.1.2.name then pub d.name y.1 else none := by
          funext y
          simp only [Function.comp, hsel, hxn]
        rw [hfun, this]
        cases pub d.name x.1 <;> rfl


theorem isDef_del (fs : List (Str × Option Str)) (c : Option (List Part)) :
    isDef { tag := s "delProperty", fields := fs, children := c } = false := by
  show decide ((s "delProperty").take 3 = s "def") = false
  decide

theorem isDef_def (k : Kind) (fs : List (Str × Option Str)) (c : Option (List Part)) :
    isDef { tag := s ("def" ++ kindName k ++ "Vector"), fields := fs, children := c } = true := by
  show decide ((s ("def" ++ kindName k ++ "Vector")).take 3 = s "def") = true
  cases k <;> decide

/-- a published message is a definition exactly when the vector is enabled, else a `delProperty` -/
theorem pub_spec (dev : Str) (gv : Group × Vec) (m : Msg) (h : pub dev gv = some m) :
    if vecEnabled gv.1 gv.2 then isDef m = true else (isDef m = false ∧ m.tag = s "delProperty") := by
  unfold pub defMsg at h
  by_cases he : vecEnabled gv.1 gv.2 = true
  · simp only [he, Bool.not_true, Bool.false_eq_true, if_false] at h
    simp only [he, if_true]
    cases hp : mapParts (defPart gv.2.kind) gv.2.elems with
    | error x => simp [hp] at h
    | ok ps =>
      simp only [hp, Option.some.injEq] at h
      rw [← h]
      exact isDef_def _ _ _
  · simp only [he]
    simp only [Bool.not_eq_true] at he
    simp only [he, Bool.not_false, if_true, Option.some.injEq] at h
    rw [← h]
    exact ⟨isDef_del _ _, rfl⟩

theorem sel_filter (d : Device) (name : Option Str) (gv : Group × Vec) :
    (sel d name gv).filter isDef =
      if vecEnabled gv.1 gv.2 && wanted name gv.2 then
        match defMsg d.name gv.1 gv.2 with
        | .ok m => some m
        | .error _ => none
      else none := by
  unfold sel
  by_cases hw : wanted name gv.2 = true
  · simp only [hw, if_true, Bool.and_true]
    show Option.filter isDef (pub d.name gv) = if vecEnabled gv.1 gv.2 = true then pub d.name gv else none
    cases hp : pub d.name gv with
    | none => simp
    | some m =>
      have := pub_spec d.name gv m hp
      by_cases he : vecEnabled gv.1 gv.2 = true
      · simp only [he, if_true] at this ⊢
        simp [Option.filter, this]
      · simp only [he] at this ⊢
        simp [Option.filter, this.1]
  · simp [hw]

theorem C07_response (d : Device) (hwf : WF d = true) (m : Msg) (hm : m.tag = s "getProperties") :
    c07Holds d ((alookup (s "name") m.fields).getD none) (fromClient d m).msgs = true := by
  rw [fromClient_msgs d hwf m hm]
  unfold c07Holds
  rw [Bool.and_eq_true]
  constructor
  · rw [beq_iff_eq, List.filter_filterMap]
    unfold expectedDefs
    apply filterMap_congr'
    intro gv _
    exact sel_filter d _ gv
  · rw [List.all_eq_true]
    intro msg hmsg
    rw [List.mem_filterMap] at hmsg
    obtain ⟨gv, _, hsel⟩ := hmsg
    unfold sel at hsel
    split at hsel
    · have := pub_spec d.name gv msg hsel
      split at this
      · simp [this]
      · simp [this.2]
    · simp at hsel

end Indi.DevBResp

/-! ## Part 3: emitted messages read back -/

namespace Indi.DevB
open Indi Indi.Dev Indi.Spec.Dev

/-! ### association lists, keyword lookup -/

theorem alookup_insertSorted (kv : Str × Str) (k : Str) :
    ∀ l : List (Str × Str), alookup kv.1 l = none →
      alookup k (insertSorted kv l) = if kv.1 = k then some kv.2 else alookup k l
  | [], _ => by simp [insertSorted, alookup]
  | x :: xs, h => by
    obtain ⟨xk, xv⟩ := x
    simp only [alookup] at h
    split at h
    · cases h
    · rename_i hne
      simp only [insertSorted]
      split
      · simp [alookup]
      · simp only [alookup, alookup_insertSorted kv k xs h]
        by_cases h1 : xk = k
        · subst h1; simp; intro h2; exact absurd h2.symm hne
        · simp [h1]

theorem alookup_sortByKey (k : Str) :
    ∀ l : List (Str × Str), (l.map Prod.fst).Nodup → alookup k (sortByKey l) = alookup k l
  | [], _ => rfl
  | x :: xs, h => by
    have hx : alookup x.1 xs = none := by
      have : x.1 ∉ xs.map Prod.fst := (List.nodup_cons.mp h).1
      clear h
      induction xs with
      | nil => rfl
      | cons y ys ih =>
        simp only [List.map_cons, List.mem_cons, not_or] at this
        simp only [alookup]
        rw [if_neg (fun h => this.1 h.symm)]
        exact ih this.2
    have ih := alookup_sortByKey k xs (List.nodup_cons.mp h).2
    have ihx := alookup_sortByKey x.1 xs (List.nodup_cons.mp h).2
    show alookup k (insertSorted x (sortByKey xs)) = _
    rw [alookup_insertSorted x k _ (ihx.trans hx), ih]
    obtain ⟨xk, xv⟩ := x
    simp [alookup]

theorem alookup_attrKw (k : Str) : ∀ l : List (Str × Str), alookup k (attrKw l) = (alookup k l).map PyVal.str
  | [] => rfl
  | (a, b) :: xs => by
    simp only [attrKw, List.map_cons, alookup]
    split
    · rfl
    · exact alookup_attrKw k xs

theorem alookup_aset' {α : Type} (k k' : Str) (v : α) :
    ∀ l : List (Str × α), alookup k (aset k' v l) = if k' = k then some v else alookup k l
  | [] => by simp [aset, alookup]
  | (a, b) :: xs => by
    simp only [aset]
    split
    · rename_i h; subst h
      simp only [alookup]
      split <;> rfl
    · rename_i h
      simp only [alookup, alookup_aset' k k' v xs]
      by_cases h1 : a = k
      · subst h1; simp; intro h2; exact absurd h2.symm h
      · simp [h1]

def KwEq (a b : List (Str × PyVal)) : Prop := ∀ k, alookup k a = alookup k b

theorem buildFields_congr {a b : List (Str × PyVal)} (h : KwEq a b) :
    ∀ fs, buildFields a fs = buildFields b fs
  | [] => rfl
  | f :: fs => by
    have hk : kwGet a f.source = kwGet b f.source := by
      cases hs : f.source <;> simp [kwGet, h _]
    simp only [buildFields, hk, buildFields_congr h fs]

theorem construct_congr {a b : List (Str × PyVal)} (h : KwEq a b) (c : ClassSpec) :
    construct c a = construct c b := by
  have h1 : ∀ k, ahas k a = ahas k b := fun k => by simp [ahas, h k]
  simp only [construct, h1, buildFields_congr h]


/-! ### `pyStrip` is idempotent; normalisation of a value read back -/

def hdOk : Str → Bool
  | [] => true
  | c :: _ => !pyIsSpace c

theorem hdOk_dropSpaces : ∀ x : Str, hdOk (dropSpaces x) = true
  | [] => rfl
  | c :: cs => by
    simp only [dropSpaces]
    split
    · exact hdOk_dropSpaces cs
    · rename_i h; simp [hdOk, h]

theorem dropSpaces_of_hdOk : ∀ x : Str, hdOk x = true → dropSpaces x = x
  | [], _ => rfl
  | c :: cs, h => by
    simp only [hdOk, Bool.not_eq_true'] at h
    simp [dropSpaces, h]

theorem dropSpaces_suffix : ∀ x : Str, ∃ pre, x = pre ++ dropSpaces x
  | [] => ⟨[], rfl⟩
  | c :: cs => by
    simp only [dropSpaces]
    split
    · obtain ⟨pre, h⟩ := dropSpaces_suffix cs
      exact ⟨c :: pre, by rw [List.cons_append, ← h]⟩
    · exact ⟨[], rfl⟩

theorem hdOk_of_append : ∀ (a b : Str), a ≠ [] → hdOk (a ++ b) = true → hdOk a = true
  | [], _, h, _ => absurd rfl h
  | _ :: _, _, _, h => h

theorem pyStrip_idem (x : Str) : pyStrip (pyStrip x) = pyStrip x := by
  unfold pyStrip
  generalize hy : dropSpaces x = y
  have hy1 : hdOk y = true := hy ▸ hdOk_dropSpaces x
  generalize hz : dropSpaces y.reverse = z
  have hz1 : hdOk z = true := hz ▸ hdOk_dropSpaces _
  obtain ⟨pre, hpre⟩ := dropSpaces_suffix y.reverse
  rw [hz] at hpre
  have hyz : y = z.reverse ++ pre.reverse := by
    have := congrArg List.reverse hpre
    simpa using this
  have h3 : hdOk z.reverse = true := by
    by_cases hzn : z = []
    · subst hzn; rfl
    · apply hdOk_of_append z.reverse pre.reverse (by simpa using hzn)
      rw [← hyz]; exact hy1
  rw [dropSpaces_of_hdOk _ h3, List.reverse_reverse, dropSpaces_of_hdOk _ hz1]

theorem normVal_readback (t : Str) :
    normVal (if t.isEmpty then none else some (pyStrip t)) = normVal (some t) := by
  cases t with
  | nil => rfl
  | cons c cs => simp [normVal, pyStrip_idem]

end Indi.DevB

namespace Indi.DevB
open Indi Indi.Dev Indi.Spec.Dev

/-! ### parts read back -/

/-- a part that reads back (up to normalisation) as a part of the same class -/
def PartGood (tag : Str) (p : Part) : Prop :=
  p.tag = tag ∧ ∃ p', partFromXml Generated.registry (partToXml p) = .ok p' ∧ normPart p' = normPart p ∧ p'.tag = tag

theorem strip_On : pyStrip ['O', 'n'] = ['O', 'n'] := by decide
theorem strip_Off : pyStrip ['O', 'f', 'f'] = ['O', 'f', 'f'] := by decide
theorem strip_Idle : pyStrip ['I', 'd', 'l', 'e'] = ['I', 'd', 'l', 'e'] := by decide
theorem strip_Ok : pyStrip ['O', 'k'] = ['O', 'k'] := by decide
theorem strip_Busy : pyStrip ['B', 'u', 's', 'y'] = ['B', 'u', 's', 'y'] := by decide
theorem strip_Alert : pyStrip ['A', 'l', 'e', 'r', 't'] = ['A', 'l', 'e', 'r', 't'] := by decide

theorem normVal_none_nil : normVal none = normVal (some []) := rfl
theorem normVal_strip (t : Str) : normVal (some (pyStrip t)) = normVal (some t) := by
  simp [normVal, pyStrip_idem]

/-- evaluate `partFromXml registry (partToXml p)` on a part with explicit keys -/
macro "part_simp" " [" ts:Lean.Parser.Tactic.simpLemma,* "]" : tactic =>
  `(tactic| simp [partFromXml, partToXml, findClass, Generated.registry, Generated.partClasses, constructPart, construct,
      buildFields, partKw, aset, attrKw, presentAttrs, valueOf, alookup, ahas, kwGet, checkGuard, scalarView, childrenView,
      s, normPart, normFields, normVal_none_nil, normVal_strip, strip_On, strip_Off, strip_Idle, strip_Ok, strip_Busy,
      strip_Alert, $ts,*])

theorem part_defText (n l : Str) (v : Option Str) :
    PartGood (s "defText") { tag := s "defText", fields := [(s "name", some n), (s "value", v), (s "label", some l)] } := by
  refine ⟨rfl, ?_⟩
  rcases v with _ | (_ | ⟨c, cs⟩) <;> part_simp []

theorem part_defBLOB (n l : Str) (v : Option Str) :
    PartGood (s "defBLOB") { tag := s "defBLOB", fields := [(s "name", some n), (s "value", v), (s "label", some l)] } := by
  refine ⟨rfl, ?_⟩
  rcases v with _ | (_ | ⟨c, cs⟩) <;> part_simp []

theorem part_defSwitch (n l t : Str) (ht : t = s "On" ∨ t = s "Off") :
    PartGood (s "defSwitch") { tag := s "defSwitch", fields := [(s "name", some n), (s "value", some t), (s "label", some l)] } := by
  refine ⟨rfl, ?_⟩
  rcases ht with rfl | rfl <;> part_simp []

theorem part_defLight (n l t : Str) (ht : states.contains t = true) :
    PartGood (s "defLight") { tag := s "defLight", fields := [(s "name", some n), (s "value", some t), (s "label", some l)] } := by
  refine ⟨rfl, ?_⟩
  simp [states, s] at ht
  rcases ht with rfl | rfl | rfl | rfl <;> part_simp []

theorem part_defNumber (n l f mn mx st : Str) (v : Option Str)
    (hv : ∀ x, v = some x → numberOk (pyStrip x) = true) :
    PartGood (s "defNumber")
      { tag := s "defNumber",
        fields := [(s "name", some n), (s "value", v), (s "label", some l), (s "format", some f), (s "min", some mn),
                   (s "max", some mx), (s "step", some st)] } := by
  refine ⟨rfl, ?_⟩
  rcases v with _ | (_ | ⟨c, cs⟩)
  · part_simp []
  · part_simp []
  · have h := hv _ rfl
    part_simp [h]

theorem part_oneText (n : Str) (v : Option Str) :
    PartGood (s "oneText") { tag := s "oneText", fields := [(s "name", some n), (s "value", v)] } := by
  refine ⟨rfl, ?_⟩
  rcases v with _ | (_ | ⟨c, cs⟩) <;> part_simp []

theorem part_oneSwitch (n t : Str) (ht : t = s "On" ∨ t = s "Off") :
    PartGood (s "oneSwitch") { tag := s "oneSwitch", fields := [(s "name", some n), (s "value", some t)] } := by
  refine ⟨rfl, ?_⟩
  rcases ht with rfl | rfl <;> part_simp []

theorem part_oneLight (n t : Str) (ht : states.contains t = true) :
    PartGood (s "oneLight") { tag := s "oneLight", fields := [(s "name", some n), (s "value", some t)] } := by
  refine ⟨rfl, ?_⟩
  simp [states, s] at ht
  rcases ht with rfl | rfl | rfl | rfl <;> part_simp []

theorem part_oneNumber (n : Str) (v : Option Str) (hv : ∀ x, v = some x → numberOk (pyStrip x) = true) :
    PartGood (s "oneNumber") { tag := s "oneNumber", fields := [(s "name", some n), (s "value", v)] } := by
  refine ⟨rfl, ?_⟩
  rcases v with _ | (_ | ⟨c, cs⟩)
  · part_simp []
  · part_simp []
  · have h := hv _ rfl
    part_simp [h]

theorem part_oneBLOB (n sz f : Str) (v : Option Str) :
    PartGood (s "oneBLOB")
      { tag := s "oneBLOB",
        fields := [(s "name", some n), (s "value", v), (s "size", some sz), (s "format", some f)] } := by
  refine ⟨rfl, ?_⟩
  rcases v with _ | (_ | ⟨c, cs⟩) <;> part_simp []


/-! ### the extra hypothesis of `C07_emitted_valid`: BLOB values carry a format -/

/-- a BLOB value carries a format (Python: `values.BLOB.format` is a `str`, as annotated, not `None`) -/
def hasFormat : Value → Bool
  | .blob _ none => false
  | _ => true

def vecFmt (v : Vec) : Bool := v.elems.all fun e => hasFormat e.value

/-- every BLOB value stored in the device carries a format -/
def devFormats (d : Device) : Bool := d.groups.all fun g => g.vecs.all vecFmt

/-- the values an operation brings in carry a format: the assigned value, resp. the `format` attribute of
every child of a client's `newBLOBVector` (required by `oneBLOB`, so always there after `from_xml`) -/
def opFormats : Op → Bool
  | .assign _ v => hasFormat v
  | .setValue _ v => hasFormat v
  | .client m =>
      m.tag != s "newBLOBVector" ||
        (m.children.getD []).all fun p => ((alookup (s "format") p.fields).getD none).isSome
  | _ => true

/-! ### the parts of a well-formed vector read back -/

def defTag : Kind → Str
  | .text => s "defText" | .number => s "defNumber" | .switch => s "defSwitch"
  | .light => s "defLight" | .blob => s "defBLOB"

def oneTag : Kind → Str
  | .text => s "oneText" | .number => s "oneNumber" | .switch => s "oneSwitch"
  | .light => s "oneLight" | .blob => s "oneBLOB"

/-- what the proof needs about `num_to_str` (discharged in Properties/DevB.lean) -/
def NumValid : Prop :=
  ∀ (f : Str) (x : Rat) (t : Str), Num.numToStr Num.exactIEEE f x = .ok t → numberOk (pyStrip t) = true

theorem readValue_ok {k : Kind} {e : Dev.Elem} (h : elemOk k e = true) : valueOk k (readValue e) = true := by
  simp only [elemOk, Bool.and_eq_true] at h
  obtain ⟨⟨h1, h2⟩, _⟩ := h
  unfold readValue
  cases hr : e.d.refresh with
  | none => exact h1
  | some v =>
    rw [hr] at h2
    simp only [Bool.and_eq_true] at h2
    exact h2.1

theorem readValue_fmt {k : Kind} {e : Dev.Elem} (h : elemOk k e = true) (hf : hasFormat e.value = true) :
    hasFormat (readValue e) = true := by
  simp only [elemOk, Bool.and_eq_true] at h
  obtain ⟨⟨_, h2⟩, _⟩ := h
  unfold readValue
  cases hr : e.d.refresh with
  | none => exact hf
  | some v =>
    rw [hr] at h2
    simp only [Bool.and_eq_true, Bool.or_eq_true, decide_eq_true_eq] at h2
    obtain ⟨hv, hk⟩ := h2
    rcases hk with rfl | rfl <;> cases v <;> simp_all [valueOk, hasFormat]

theorem renderNum_valid (hnum : NumValid) {f : Str} {v : Value} {t : Option Str}
    (h : renderNum f v = .ok t) : ∀ x, t = some x → numberOk (pyStrip x) = true := by
  intro x hx
  subst hx
  unfold renderNum at h
  cases v with
  | num q i =>
    simp only at h
    generalize preRound f i q = q' at h
    cases hq : Num.numToStr Num.exactIEEE f q' with
    | ok t' =>
      rw [hq] at h
      simp only [Rendered.ok.injEq, Option.some.injEq] at h
      subst h
      exact hnum f q' _ hq
    | valueError => rw [hq] at h; cases h
    | assertionError => rw [hq] at h; cases h
    | unsupported => rw [hq] at h; cases h
  | none => simp at h
  | text _ => simp at h
  | blob _ _ => simp at h
  | other => simp at h

theorem defPart_good (hnum : NumValid) {k : Kind} {e : Dev.Elem} {p : Part}
    (hok : elemOk k e = true) (h : defPart k e = .ok p) : PartGood (defTag k) p := by
  have hv := readValue_ok hok
  unfold defPart at h
  cases k with
  | text =>
    cases hr : readValue e <;> rw [hr] at h hv <;> simp [valueOk] at h hv
    · subst h; exact part_defText _ _ _
    · subst h; exact part_defText _ _ _
  | switch =>
    cases hr : readValue e <;> rw [hr] at h hv <;> simp [valueOk] at h hv
    subst h; exact part_defSwitch _ _ _ hv
  | light =>
    cases hr : readValue e <;> rw [hr] at h hv <;> simp only [valueOk] at h hv <;> try cases hv
    simp at h
    subst h; exact part_defLight _ _ _ hv
  | number =>
    simp only at h
    cases hr : renderNum e.d.format (readValue e) with
    | ok t =>
      rw [hr] at h
      simp at h
      subst h
      exact part_defNumber _ _ _ _ _ _ _ (renderNum_valid hnum hr)
    | fail x => rw [hr] at h; cases h
  | blob =>
    simp at h
    subst h; exact part_defBLOB _ _ _

theorem onePart_good (hnum : NumValid) {k : Kind} {e : Dev.Elem} {p : Part}
    (hok : elemOk k e = true) (hf : hasFormat e.value = true) (h : onePart k e = .ok p) : PartGood (oneTag k) p := by
  have hv := readValue_ok hok
  have hfr := readValue_fmt hok hf
  unfold onePart at h
  cases k with
  | text =>
    cases hr : readValue e <;> rw [hr] at h hv <;> simp [valueOk] at h hv
    · subst h; exact part_oneText _ _
    · subst h; exact part_oneText _ _
  | switch =>
    cases hr : readValue e <;> rw [hr] at h hv <;> simp [valueOk] at h hv
    subst h; exact part_oneSwitch _ _ hv
  | light =>
    cases hr : readValue e <;> rw [hr] at h hv <;> simp only [valueOk] at h hv <;> try cases hv
    simp at h
    subst h; exact part_oneLight _ _ hv
  | number =>
    simp only at h
    cases hr : renderNum e.d.format (readValue e) with
    | ok t =>
      rw [hr] at h
      simp at h
      subst h
      exact part_oneNumber _ _ (renderNum_valid hnum hr)
    | fail x => rw [hr] at h; cases h
  | blob =>
    cases hr : readValue e with
    | none => rw [hr] at h; simp at h; subst h; exact part_oneBLOB _ _ _ _
    | blob bs f =>
      rw [hr] at h hfr
      cases f with
      | none => simp [hasFormat] at hfr
      | some f => simp at h; subst h; exact part_oneBLOB _ _ _ _
    | text _ => rw [hr] at hv; simp [valueOk] at hv
    | num _ _ => rw [hr] at hv; simp [valueOk] at hv
    | other => rw [hr] at hv; simp [valueOk] at hv

theorem mapParts_mem {f : Dev.Elem → Except Exc Part} :
    ∀ {es : List Dev.Elem} {ps : List Part}, mapParts f es = .ok ps → ∀ p ∈ ps, ∃ e ∈ es, f e = .ok p
  | [], ps, h, p, hp => by
    simp only [mapParts, Except.ok.injEq] at h
    subst h; cases hp
  | e :: es, ps, h, p, hp => by
    simp only [mapParts] at h
    split at h
    · cases hfe : f e with
      | error x => rw [hfe] at h; cases h
      | ok q =>
        rw [hfe] at h
        simp only at h
        cases hrest : mapParts f es with
        | error x => rw [hrest] at h; cases h
        | ok qs =>
          rw [hrest] at h
          simp only [Except.ok.injEq] at h
          subst h
          rcases List.mem_cons.mp hp with rfl | hp'
          · exact ⟨e, List.mem_cons_self, hfe⟩
          · obtain ⟨e', he', hfe'⟩ := mapParts_mem hrest p hp'
            exact ⟨e', List.mem_cons_of_mem _ he', hfe'⟩
    · obtain ⟨e', he', hfe'⟩ := mapParts_mem h p hp
      exact ⟨e', List.mem_cons_of_mem _ he', hfe'⟩

theorem parts_readback {tag : Str} :
    ∀ {ps : List Part}, (∀ p ∈ ps, PartGood tag p) →
      ∃ ps', partsFromXml Generated.registry (ps.map partToXml) = .ok ps' ∧
        ps'.map normPart = ps.map normPart ∧ ∀ p ∈ ps', p.tag = tag
  | [], _ => ⟨[], rfl, rfl, by simp⟩
  | p :: ps, h => by
    obtain ⟨_, p', hp', hn, ht⟩ := h p List.mem_cons_self
    obtain ⟨ps', hps', hns, hts⟩ := parts_readback (ps := ps) fun q hq => h q (List.mem_cons_of_mem _ hq)
    refine ⟨p' :: ps', ?_, ?_, ?_⟩
    · simp only [List.map_cons, partsFromXml, hp', hps']
    · simp only [List.map_cons, hn, hns]
    · intro q hq
      rcases List.mem_cons.mp hq with rfl | hq'
      · exact ht
      · exact hts q hq'

end Indi.DevB

namespace Indi.DevB
open Indi Indi.Dev Indi.Spec.Dev

/-! ### messages read back -/

def consMsg (tag : Str) (kw : List (Str × PyVal)) : Except Err Msg :=
  match findClass tag Generated.registry.messages with
  | none => .error .invalidTag
  | some c => construct c kw

/-- the keywords `from_xml` passes, before sorting of the attributes -/
def childKw (ps : List Part) (attrs : List (Str × Str)) : List (Str × PyVal) :=
  if ps.isEmpty then attrKw attrs else aset (s "children") (PyVal.parts ps) (attrKw attrs)

theorem msgKw_toXml_eq {tag : Str} {fs : List (Str × Option Str)} {ch : Option (List Part)} {ps' : List Part}
    (hv : valueOf fs = none) (hnd : ((presentAttrs fs).map Prod.fst).Nodup) :
    KwEq (msgKw (toXml { tag := tag, fields := fs, children := ch }) ps') (childKw ps' (presentAttrs fs)) := by
  intro k
  simp only [msgKw, toXml, hv, Option.getD_none, List.isEmpty_nil, if_true, childKw]
  split
  · rw [alookup_attrKw, alookup_attrKw, alookup_sortByKey k _ hnd]
  · rw [alookup_aset', alookup_aset', alookup_attrKw, alookup_attrKw, alookup_sortByKey k _ hnd]

theorem readsBack_of {tag : Str} {fs : List (Str × Option Str)} {ps ps' : List Part}
    (hv : valueOf fs = none) (hnd : ((presentAttrs fs).map Prod.fst).Nodup)
    (hps : partsFromXml Generated.registry (ps.map partToXml) = .ok ps')
    (hn : ps'.map normPart = ps.map normPart)
    (hc : consMsg tag (childKw ps' (presentAttrs fs)) = .ok { tag := tag, fields := fs, children := some ps' }) :
    readsBack Generated.registry { tag := tag, fields := fs, children := some ps } = true := by
  unfold consMsg at hc
  unfold readsBack fromXml
  have hx : (toXml { tag := tag, fields := fs, children := some ps }).tag = tag := rfl
  have hch : (toXml { tag := tag, fields := fs, children := some ps }).children = ps.map partToXml := rfl
  rw [hx, hch, hps]
  cases hfc : findClass tag Generated.registry.messages with
  | none => rw [hfc] at hc; cases hc
  | some c =>
    simp only [hfc] at hc
    simp only
    rw [construct_congr (msgKw_toXml_eq hv hnd) c, hc]
    simp [norm, hn]

theorem readsBack_of_nochild {tag : Str} {fs : List (Str × Option Str)}
    (hv : valueOf fs = none) (hnd : ((presentAttrs fs).map Prod.fst).Nodup)
    (hc : consMsg tag (attrKw (presentAttrs fs)) = .ok { tag := tag, fields := fs, children := none }) :
    readsBack Generated.registry { tag := tag, fields := fs, children := none } = true := by
  unfold consMsg at hc
  unfold readsBack fromXml
  have hx : (toXml { tag := tag, fields := fs, children := none }).tag = tag := rfl
  have hch : (toXml { tag := tag, fields := fs, children := none }).children = [] := rfl
  rw [hx, hch]
  cases hfc : findClass tag Generated.registry.messages with
  | none => rw [hfc] at hc; cases hc
  | some c =>
    simp only [hfc] at hc
    simp only [partsFromXml]
    rw [construct_congr (msgKw_toXml_eq hv hnd) c]
    simp only [childKw, List.isEmpty_nil, if_true]
    rw [hc]
    simp

/-- evaluate `consMsg tag kw` on explicit keys -/
macro "msg_simp" " [" ts:Lean.Parser.Tactic.simpLemma,* "]" : tactic =>
  `(tactic| simp [consMsg, childKw, findClass, Generated.registry, Generated.messageClasses, construct,
      buildFields, aset, attrKw, presentAttrs, valueOf, alookup, alookup_aset', ahas, kwGet, checkGuard, scalarView,
      childrenView, s, stamp, $ts,*])

/-- the common proof: split on whether there are children, then evaluate -/
macro "msg_tac" ps':ident htag:ident " [" ts:Lean.Parser.Tactic.simpLemma,* "]" : tactic =>
  `(tactic| (
    refine readsBack_of (by msg_simp []) (by msg_simp []) ‹_› ‹_› ?_
    cases $ps':ident with
    | nil => msg_simp [$ts,*]
    | cons p ps'' =>
      simp only [List.mem_cons, forall_eq_or_imp] at $htag:ident
      obtain ⟨h1, h2⟩ := $htag:ident
      simp [s] at h1 h2
      have h2' := eq_true h2
      msg_simp [h1, h2', $ts,*]))

section
variable {dev name state label group perm timeout : Str} {ps ps' : List Part}

theorem msg_defText
    (hst : states.contains state = true) (hperm : perms.contains perm = true)
    (hps : partsFromXml Generated.registry (ps.map partToXml) = .ok ps')
    (hn : ps'.map normPart = ps.map normPart) (htag : ∀ p ∈ ps', p.tag = s "defText") :
    readsBack Generated.registry
      { tag := s "defTextVector",
        fields := [(s "device", some dev), (s "name", some name), (s "state", some state), (s "label", some label),
                   (s "group", some group), (s "timestamp", some stamp), (s "message", none)] ++
                  [(s "perm", some perm), (s "timeout", some timeout)],
        children := some ps } = true := by
  simp [states, perms, s] at hst hperm
  msg_tac ps' htag [hst, hperm]

theorem msg_defNumber
    (hst : states.contains state = true) (hperm : perms.contains perm = true)
    (hps : partsFromXml Generated.registry (ps.map partToXml) = .ok ps')
    (hn : ps'.map normPart = ps.map normPart) (htag : ∀ p ∈ ps', p.tag = s "defNumber") :
    readsBack Generated.registry
      { tag := s "defNumberVector",
        fields := [(s "device", some dev), (s "name", some name), (s "state", some state), (s "label", some label),
                   (s "group", some group), (s "timestamp", some stamp), (s "message", none)] ++
                  [(s "perm", some perm), (s "timeout", some timeout)],
        children := some ps } = true := by
  simp [states, perms, s] at hst hperm
  msg_tac ps' htag [hst, hperm]

theorem msg_defBLOB
    (hst : states.contains state = true) (hperm : perms.contains perm = true)
    (hps : partsFromXml Generated.registry (ps.map partToXml) = .ok ps')
    (hn : ps'.map normPart = ps.map normPart) (htag : ∀ p ∈ ps', p.tag = s "defBLOB") :
    readsBack Generated.registry
      { tag := s "defBLOBVector",
        fields := [(s "device", some dev), (s "name", some name), (s "state", some state), (s "label", some label),
                   (s "group", some group), (s "timestamp", some stamp), (s "message", none)] ++
                  [(s "perm", some perm), (s "timeout", some timeout)],
        children := some ps } = true := by
  simp [states, perms, s] at hst hperm
  msg_tac ps' htag [hst, hperm]

theorem msg_defSwitch {r : Switch.Rule}
    (hst : states.contains state = true) (hperm : perms.contains perm = true)
    (hps : partsFromXml Generated.registry (ps.map partToXml) = .ok ps')
    (hn : ps'.map normPart = ps.map normPart) (htag : ∀ p ∈ ps', p.tag = s "defSwitch") :
    readsBack Generated.registry
      { tag := s "defSwitchVector",
        fields := [(s "device", some dev), (s "name", some name), (s "state", some state), (s "label", some label),
                   (s "group", some group), (s "timestamp", some stamp), (s "message", none)] ++
                  [(s "perm", some perm), (s "timeout", some timeout)] ++ [(s "rule", some (ruleName r))],
        children := some ps } = true := by
  simp [states, perms, s] at hst hperm
  cases r <;> simp only [ruleName] <;> msg_tac ps' htag [hst, hperm]

theorem msg_defLight
    (hst : states.contains state = true)
    (hps : partsFromXml Generated.registry (ps.map partToXml) = .ok ps')
    (hn : ps'.map normPart = ps.map normPart) (htag : ∀ p ∈ ps', p.tag = s "defLight") :
    readsBack Generated.registry
      { tag := s "defLightVector",
        fields := [(s "device", some dev), (s "name", some name), (s "state", some state), (s "label", some label),
                   (s "group", some group), (s "timestamp", some stamp), (s "message", none)],
        children := some ps } = true := by
  simp [states, s] at hst
  msg_tac ps' htag [hst]

theorem msg_set {kind : String} {ptag : Str} {tmo : Option Str}
    (hk : (kind, ptag) ∈ [("Text", s "oneText"), ("Number", s "oneNumber"), ("Switch", s "oneSwitch"),
                           ("Light", s "oneLight"), ("BLOB", s "oneBLOB")])
    (hst : states.contains state = true)
    (hps : partsFromXml Generated.registry (ps.map partToXml) = .ok ps')
    (hn : ps'.map normPart = ps.map normPart) (htag : ∀ p ∈ ps', p.tag = ptag) :
    readsBack Generated.registry
      { tag := s ("set" ++ kind ++ "Vector"),
        fields := [(s "device", some dev), (s "name", some name), (s "state", some state), (s "timeout", tmo),
                   (s "timestamp", some stamp), (s "message", none)],
        children := some ps } = true := by
  simp [states, s] at hst
  simp only [List.mem_cons, Prod.mk.injEq, List.not_mem_nil, or_false] at hk
  rcases hk with ⟨rfl, rfl⟩ | ⟨rfl, rfl⟩ | ⟨rfl, rfl⟩ | ⟨rfl, rfl⟩ | ⟨rfl, rfl⟩ <;>
    cases tmo <;> msg_tac ps' htag [hst]

theorem msg_del :
    readsBack Generated.registry
      { tag := s "delProperty",
        fields := [(s "device", some dev), (s "name", some name), (s "timestamp", some stamp), (s "message", none)],
        children := none } = true := by
  refine readsBack_of_nochild (by msg_simp []) (by msg_simp []) ?_
  msg_simp []

end

end Indi.DevB

namespace Indi.DevB
open Indi Indi.Dev Indi.Spec.Dev

/-! ### the messages of a well-formed vector read back -/

/-- what makes a vector's messages valid: `vecOk`, and BLOB values with a format -/
def VecGood (v : Vec) : Prop := vecOk v = true ∧ vecFmt v = true

theorem vecOk_elems {v : Vec} (h : vecOk v = true) : ∀ e ∈ v.elems, elemOk v.kind e = true := by
  simp only [vecOk, Bool.and_eq_true, List.all_eq_true] at h
  exact h.2

theorem vecOk_state {v : Vec} (h : vecOk v = true) : states.contains v.state = true := by
  simp only [vecOk, Bool.and_eq_true] at h
  exact h.1.1

theorem vecOk_perm {v : Vec} (h : vecOk v = true) (hk : v.kind ≠ .light) :
    ∃ p t, v.perm = some p ∧ perms.contains p = true ∧ v.timeout = some t := by
  simp only [vecOk, Bool.and_eq_true] at h
  obtain ⟨⟨_, h2⟩, _⟩ := h
  cases hkind : v.kind <;> rw [hkind] at h2 <;> simp only [Bool.and_eq_true] at h2
  · cases hp : v.perm <;> rw [hp] at h2 <;> simp at h2
    cases ht : v.timeout <;> rw [ht] at h2 <;> simp at h2
    exact ⟨_, _, rfl, by simpa using h2, rfl⟩
  · cases hp : v.perm <;> rw [hp] at h2 <;> simp at h2
    cases ht : v.timeout <;> rw [ht] at h2 <;> simp at h2
    exact ⟨_, _, rfl, by simpa using h2, rfl⟩
  · cases hp : v.perm <;> rw [hp] at h2 <;> simp at h2
    cases ht : v.timeout <;> rw [ht] at h2 <;> simp at h2
    exact ⟨_, _, rfl, by simpa using h2.1, rfl⟩
  · exact absurd hkind hk
  · cases hp : v.perm <;> rw [hp] at h2 <;> simp at h2
    cases ht : v.timeout <;> rw [ht] at h2 <;> simp at h2
    exact ⟨_, _, rfl, by simpa using h2, rfl⟩

theorem vecOk_rule {v : Vec} (h : vecOk v = true) (hk : v.kind = .switch) : ∃ r, v.rule = some r := by
  simp only [vecOk, Bool.and_eq_true] at h
  obtain ⟨⟨_, h2⟩, _⟩ := h
  rw [hk] at h2
  simp only [Bool.and_eq_true] at h2
  cases hr : v.rule with
  | none => rw [hr] at h2; simp at h2
  | some r => exact ⟨r, rfl⟩

theorem defMsg_readsBack (hnum : NumValid) {dev : Str} {g : Group} {v : Vec} {m : Msg}
    (hok : vecOk v = true) (h : defMsg dev g v = .ok m) : readsBack Generated.registry m = true := by
  unfold defMsg at h
  split at h
  · simp only [Except.ok.injEq] at h
    subst h
    exact msg_del
  · cases hmp : mapParts (defPart v.kind) v.elems with
    | error x => rw [hmp] at h; cases h
    | ok ps =>
      rw [hmp] at h
      simp only [Except.ok.injEq] at h
      have hgood : ∀ p ∈ ps, PartGood (defTag v.kind) p := fun p hp => by
        obtain ⟨e, he, hpe⟩ := mapParts_mem hmp p hp
        exact defPart_good hnum (vecOk_elems hok e he) hpe
      obtain ⟨ps', hps, hn, htag⟩ := parts_readback hgood
      have hst := vecOk_state hok
      cases hk : v.kind with
      | light =>
        rw [hk] at h htag
        subst h
        exact msg_defLight hst hps hn htag
      | text =>
        obtain ⟨p, t, hp, hpp, ht⟩ := vecOk_perm hok (by rw [hk]; simp)
        rw [hk, hp, ht] at h
        rw [hk] at htag
        subst h
        exact msg_defText hst hpp hps hn htag
      | number =>
        obtain ⟨p, t, hp, hpp, ht⟩ := vecOk_perm hok (by rw [hk]; simp)
        rw [hk, hp, ht] at h
        rw [hk] at htag
        subst h
        exact msg_defNumber hst hpp hps hn htag
      | blob =>
        obtain ⟨p, t, hp, hpp, ht⟩ := vecOk_perm hok (by rw [hk]; simp)
        rw [hk, hp, ht] at h
        rw [hk] at htag
        subst h
        exact msg_defBLOB hst hpp hps hn htag
      | switch =>
        obtain ⟨p, t, hp, hpp, ht⟩ := vecOk_perm hok (by rw [hk]; simp)
        obtain ⟨r, hr⟩ := vecOk_rule hok hk
        rw [hk, hp, ht, hr] at h
        rw [hk] at htag
        subst h
        exact msg_defSwitch hst hpp hps hn htag

theorem setMsg_readsBack (hnum : NumValid) {dev : Str} {g : Group} {v : Vec} {m : Msg}
    (hgood : VecGood v) (h : setMsg dev g v = .ok (some m)) : readsBack Generated.registry m = true := by
  obtain ⟨hok, hfmt⟩ := hgood
  unfold setMsg at h
  split at h
  · cases h
  · cases hmp : mapParts (onePart v.kind) v.elems with
    | error x => rw [hmp] at h; cases h
    | ok ps =>
      rw [hmp] at h
      simp only [Except.ok.injEq, Option.some.injEq] at h
      have hgood : ∀ p ∈ ps, PartGood (oneTag v.kind) p := fun p hp => by
        obtain ⟨e, he, hpe⟩ := mapParts_mem hmp p hp
        refine onePart_good hnum (vecOk_elems hok e he) ?_ hpe
        simp only [vecFmt, List.all_eq_true] at hfmt
        exact hfmt e he
      obtain ⟨ps', hps, hn, htag⟩ := parts_readback hgood
      have hst := vecOk_state hok
      subst h
      cases hk : v.kind <;> rw [hk] at htag <;> simp only [kindName] <;>
        exact msg_set (by simp [oneTag]) hst hps hn htag

end Indi.DevB

namespace Indi.DevB
open Indi Indi.Dev Indi.Spec.Dev
open Indi.DevBResp (getVec_setVec vecOk_refresh elemOk_afterRead)

/-! ### well-formedness inside an operation -/

def DevGood (d : Device) : Prop := ∀ gi vi g v, getVec d gi vi = some (g, v) → VecGood v

def kindAt (d : Device) (gi vi : Nat) : Option Kind := (getVec d gi vi).map fun gv => gv.2.kind

def MsgsGood (r : Result) : Prop := ∀ m ∈ r.msgs, readsBack Generated.registry m = true

/-- the result of an operation started on `d`: valid messages, a well-formed device, kinds unchanged -/
def ResGood (d : Device) (r : Result) : Prop :=
  MsgsGood r ∧ DevGood r.dev ∧ ∀ gi vi, kindAt r.dev gi vi = kindAt d gi vi

theorem getVec_mem {d : Device} {gi vi : Nat} {g : Group} {v : Vec} (h : getVec d gi vi = some (g, v)) :
    d.groups[gi]? = some g ∧ g.vecs[vi]? = some v := by
  unfold getVec at h
  cases hg : d.groups[gi]? with
  | none => simp [hg] at h
  | some g' =>
    simp only [hg] at h
    cases hv : g'.vecs[vi]? with
    | none => simp [hv] at h
    | some v' =>
      simp only [hv, Option.map_some, Option.some.injEq, Prod.mk.injEq] at h
      obtain ⟨rfl, rfl⟩ := h
      exact ⟨rfl, hv⟩

theorem devGood_of {d : Device} (hwf : WF d = true) (hf : devFormats d = true) : DevGood d := by
  intro gi vi g v h
  obtain ⟨hg, hv⟩ := getVec_mem h
  simp only [WF, Bool.and_eq_true, List.all_eq_true] at hwf
  simp only [devFormats, List.all_eq_true] at hf
  exact ⟨hwf.1 g (List.mem_of_getElem? hg) v (List.mem_of_getElem? hv),
         hf g (List.mem_of_getElem? hg) v (List.mem_of_getElem? hv)⟩

theorem devGood_setVec {d : Device} (h : DevGood d) (gi vi : Nat) {v' : Vec} (hv' : VecGood v') :
    DevGood (setVec d gi vi v') := by
  intro gj vj g v hgv
  rw [getVec_setVec] at hgv
  cases h0 : getVec d gj vj with
  | none => simp [h0] at hgv
  | some gv =>
    obtain ⟨g0, v0⟩ := gv
    simp only [h0, Option.some.injEq, Prod.mk.injEq] at hgv
    obtain ⟨_, rfl⟩ := hgv
    split
    · exact hv'
    · exact h gj vj g0 v0 h0

theorem kindAt_setVec {d : Device} {gi vi : Nat} {g : Group} {v v' : Vec}
    (h : getVec d gi vi = some (g, v)) (hk : v'.kind = v.kind) (gj vj : Nat) :
    kindAt (setVec d gi vi v') gj vj = kindAt d gj vj := by
  unfold kindAt
  rw [getVec_setVec]
  cases h0 : getVec d gj vj with
  | none => rfl
  | some gv =>
    obtain ⟨g0, v0⟩ := gv
    simp only [Option.map_some, Option.some.injEq]
    split
    · rename_i hc
      obtain ⟨rfl, rfl⟩ := hc
      rw [h] at h0
      simp only [Option.some.injEq, Prod.mk.injEq] at h0
      rw [hk, h0.2]
    · rfl

/-! vectors derived from a good vector -/

theorem vecGood_elems {v : Vec} (h : VecGood v) (es : List Dev.Elem)
    (hes : ∀ e ∈ es, elemOk v.kind e = true ∧ hasFormat e.value = true) : VecGood { v with elems := es } := by
  obtain ⟨h1, _⟩ := h
  constructor
  · simp only [vecOk, Bool.and_eq_true, List.all_eq_true] at h1 ⊢
    exact ⟨h1.1, fun e he => (hes e he).1⟩
  · simp only [vecFmt, List.all_eq_true]
    exact fun e he => (hes e he).2

theorem vecGood_mem {v : Vec} (h : VecGood v) {e : Dev.Elem} (he : e ∈ v.elems) :
    elemOk v.kind e = true ∧ hasFormat e.value = true := by
  obtain ⟨h1, h2⟩ := h
  simp only [vecFmt, List.all_eq_true] at h2
  exact ⟨vecOk_elems h1 e he, h2 e he⟩

theorem vecGood_state {v : Vec} (h : VecGood v) {t : Str} (ht : states.contains t = true) :
    VecGood { v with state := t } := by
  obtain ⟨h1, h2⟩ := h
  constructor
  · simp only [vecOk, Bool.and_eq_true] at h1 ⊢
    exact ⟨⟨ht, h1.1.2⟩, h1.2⟩
  · exact h2

theorem vecGood_enabled {v : Vec} (h : VecGood v) (b : Bool) : VecGood { v with enabled := b } := h

theorem vecGood_refresh {v : Vec} (h : VecGood v) : VecGood (refreshVec v) := by
  refine ⟨vecOk_refresh h.1, ?_⟩
  simp only [vecFmt, List.all_eq_true, refreshVec, List.mem_map]
  rintro e ⟨e0, he0, rfl⟩
  obtain ⟨hk, hf⟩ := vecGood_mem h he0
  split
  · exact readValue_fmt hk hf
  · exact hf

theorem vecGood_refresh_if {v : Vec} (h : VecGood v) (c : Bool) :
    VecGood (if c then refreshVec v else v) := by
  cases c
  · exact h
  · exact vecGood_refresh h

theorem vecGood_refreshDef {v : Vec} (h : VecGood v) : VecGood (refreshDef v) := by
  unfold refreshDef; split
  · exact h
  · exact vecGood_refresh h

theorem vecGood_refreshDef_if {v : Vec} (h : VecGood v) (c : Bool) :
    VecGood (if c then refreshDef v else v) := by
  cases c
  · exact h
  · exact vecGood_refreshDef h

theorem refreshVec_kind_if (v : Vec) (c : Bool) : (if c = true then refreshVec v else v).kind = v.kind := by
  split <;> rfl

theorem refreshDef_kind_if (v : Vec) (c : Bool) : (if c = true then refreshDef v else v).kind = v.kind := by
  unfold refreshDef
  split
  · split <;> rfl
  · rfl

theorem elemOk_setValue {k : Kind} {e : Dev.Elem} (h : elemOk k e = true) {x : Value} (hx : valueOk k x = true) :
    elemOk k { e with value := x } = true := by
  simp only [elemOk, Bool.and_eq_true] at h ⊢
  exact ⟨⟨hx, h.1.2⟩, h.2⟩

theorem valueOk_onOff (b : Bool) : valueOk .switch (.text (onOff b)) = true := by
  cases b <;> decide

theorem vecGood_putBools {v : Vec} (h : VecGood v) (hk : v.kind = .switch) (bs : List Bool) :
    VecGood (putBools v bs) := by
  refine vecGood_elems h _ ?_
  intro e he
  simp only [List.mem_map] at he
  obtain ⟨⟨e0, b⟩, hz, rfl⟩ := he
  obtain ⟨hk0, hf0⟩ := vecGood_mem h (List.of_mem_zip hz).1
  simp only
  split
  · exact ⟨hk0, hf0⟩
  · refine ⟨elemOk_setValue hk0 ?_, rfl⟩
    rw [hk]; exact valueOk_onOff b

theorem checkValue_good {v v1 : Vec} {ei : Nat} {val stored : Value} (h : VecGood v)
    (hty : typeOk v.kind val = true) (hval : hasFormat val = true)
    (hc : checkValue v ei val = .ok (v1, stored)) :
    VecGood v1 ∧ v1.kind = v.kind ∧ valueOk v.kind stored = true ∧ hasFormat stored = true := by
  unfold checkValue at hc
  cases hk : v.kind with
  | switch =>
    rw [hk] at hc
    simp only at hc
    cases val with
    | text t =>
      simp only at hc
      split at hc
      · simp only [Except.ok.injEq, Prod.mk.injEq] at hc
        obtain ⟨rfl, rfl⟩ := hc
        exact ⟨vecGood_putBools h hk _, hk, valueOk_onOff _, rfl⟩
      · cases hc
    | none => cases hc
    | num _ _ => cases hc
    | blob _ _ => cases hc
    | other => cases hc
  | light =>
    rw [hk] at hc
    simp only at hc
    cases val with
    | text t =>
      simp only at hc
      split at hc
      · rename_i hs
        simp only [Except.ok.injEq, Prod.mk.injEq] at hc
        obtain ⟨rfl, rfl⟩ := hc
        exact ⟨h, hk, by simpa [valueOk] using hs, rfl⟩
      · cases hc
    | none => cases hc
    | num _ _ => cases hc
    | blob _ _ => cases hc
    | other => cases hc
  | number =>
    rw [hk] at hc hty
    simp only at hc
    cases val with
    | num x i =>
      simp only at hc
      split at hc
      · split at hc <;> cases hc
      · rename_i hb
        simp only [Except.ok.injEq, Prod.mk.injEq] at hc
        obtain ⟨rfl, rfl⟩ := hc
        exact ⟨h, hk, by simpa [valueOk] using hb, rfl⟩
    | none =>
      simp only [Except.ok.injEq, Prod.mk.injEq] at hc
      obtain ⟨rfl, rfl⟩ := hc
      exact ⟨h, hk, rfl, rfl⟩
    | text _ => simp [typeOk] at hty
    | blob _ _ => simp [typeOk] at hty
    | other => simp [typeOk] at hty
  | text =>
    rw [hk] at hc hty
    simp only [Except.ok.injEq, Prod.mk.injEq] at hc
    obtain ⟨rfl, rfl⟩ := hc
    refine ⟨h, hk, ?_, hval⟩
    cases val <;> simp [typeOk] at hty <;> rfl
  | blob =>
    rw [hk] at hc hty
    simp only [Except.ok.injEq, Prod.mk.injEq] at hc
    obtain ⟨rfl, rfl⟩ := hc
    refine ⟨h, hk, ?_, hval⟩
    cases val <;> simp [typeOk] at hty <;> rfl

/-! results -/

theorem resGood_same {d : Device} (hd : DevGood d) {r : Result} (hdev : r.dev = d) (hm : r.msgs = []) :
    ResGood d r := by
  refine ⟨?_, hdev ▸ hd, fun gi vi => by rw [hdev]⟩
  intro m hmem
  rw [hm] at hmem
  cases hmem

theorem resGood_trans {d : Device} {a b : Result} (ha : ResGood d a) (hb : ResGood a.dev b) :
    ResGood d (mergeRes a b) := by
  obtain ⟨ha1, _, ha3⟩ := ha
  obtain ⟨hb1, hb2, hb3⟩ := hb
  refine ⟨?_, hb2, fun gi vi => (hb3 gi vi).trans (ha3 gi vi)⟩
  intro m hm
  simp only [mergeRes, List.mem_append] at hm
  rcases hm with hm | hm
  · exact ha1 m hm
  · exact hb1 m hm

theorem msgs_toList (hnum : NumValid) {dev : Str} {g : Group} {v : Vec} {m : Option Msg} (hv : VecGood v)
    (h : setMsg dev g v = .ok m) : ∀ x ∈ m.toList, readsBack Generated.registry x = true := by
  intro x hx
  cases m with
  | none => cases hx
  | some m' =>
    simp only [Option.toList_some, List.mem_singleton] at hx
    subst hx
    exact setMsg_readsBack hnum hv h

theorem assign_good (hnum : NumValid) {d : Device} (hd : DevGood d) (a : Addr) {val : Value}
    (hval : hasFormat val = true) : ResGood d (assign d a val) := by
  unfold assign
  cases hg : getVec d a.g a.v with
  | none => exact resGood_same hd rfl rfl
  | some gv =>
    obtain ⟨g, v⟩ := gv
    have hv := hd _ _ _ _ hg
    simp only
    cases he : v.elems[a.e]? with
    | none => exact resGood_same hd rfl rfl
    | some e =>
      simp only
      split
      · exact resGood_same hd rfl rfl
      · rename_i hty
        simp only [Bool.not_eq_true, Bool.not_eq_false'] at hty
        have hty' : typeOk v.kind val = true := by simpa using hty
        cases hcv : checkValue v a.e val with
        | error x => exact resGood_same hd rfl rfl
        | ok p =>
          obtain ⟨v1, stored⟩ := p
          obtain ⟨hv1, hk1, hso, hsf⟩ := checkValue_good hv hty' hval hcv
          simp only
          have he_in := vecGood_mem hv (List.mem_of_getElem? he)
          have hbase : elemOk v1.kind (v1.elems[a.e]?.getD e) = true ∧
              hasFormat (v1.elems[a.e]?.getD e).value = true := by
            cases h1 : v1.elems[a.e]? with
            | none => simpa [hk1] using he_in
            | some e' => simpa using vecGood_mem hv1 (List.mem_of_getElem? h1)
          generalize hv2def : (Vec.mk v1.name v1.label v1.kind v1.perm v1.timeout v1.rule v1.state v1.enabled _) = v2
          have hv2 : VecGood v2 := by
            rw [← hv2def]
            refine vecGood_elems hv1 _ ?_
            intro e' he'
            rcases List.mem_or_eq_of_mem_set he' with h' | rfl
            · exact vecGood_mem hv1 h'
            · exact ⟨elemOk_setValue hbase.1 (hk1 ▸ hso), hsf⟩
          have hk2 : v2.kind = v.kind := by rw [← hv2def]; exact hk1
          cases hsm : setMsg d.name g v2 with
          | error x =>
            exact ⟨(fun m hm => nomatch hm), devGood_setVec hd _ _ hv2, kindAt_setVec hg hk2⟩
          | ok m =>
            simp only
            refine ⟨?_, devGood_setVec hd _ _ (vecGood_refresh_if hv2 _), ?_⟩
            · intro x hx
              have : x ∈ m.toList := by
                revert hx
                split <;> exact id
              exact msgs_toList hnum hv2 hsm x this
            · refine kindAt_setVec hg ?_
              split
              · exact hk2
              · exact hk2


theorem resGood_eta {d : Device} {r r' : Result} (h : ResGood d r) (hdev : r'.dev = r.dev) (hm : r'.msgs = r.msgs) :
    ResGood d r' := by
  obtain ⟨h1, h2, h3⟩ := h
  refine ⟨?_, hdev ▸ h2, fun gi vi => by rw [hdev]; exact h3 gi vi⟩
  intro m hmem
  rw [hm] at hmem
  exact h1 m hmem

theorem setValue_good (hnum : NumValid) {d : Device} (hd : DevGood d) (a : Addr) {val : Value}
    (hval : hasFormat val = true) : ResGood d (setValue d a val) := by
  unfold setValue
  cases hg : getVec d a.g a.v with
  | none => exact resGood_same hd rfl rfl
  | some gv =>
    obtain ⟨g, v⟩ := gv
    simp only
    cases he : v.elems[a.e]? with
    | none => exact resGood_same hd rfl rfl
    | some e =>
      simp only
      split
      · exact resGood_same hd rfl rfl
      · exact resGood_eta (assign_good hnum hd a hval) rfl rfl

theorem setState_good (hnum : NumValid) {d : Device} (hd : DevGood d) (gi vi : Nat) (st : Option Str) :
    ResGood d (setState d gi vi st) := by
  unfold setState
  cases hg : getVec d gi vi with
  | none => exact resGood_same hd rfl rfl
  | some gv =>
    obtain ⟨g, v⟩ := gv
    have hv := hd _ _ _ _ hg
    simp only
    cases st with
    | none => exact resGood_same hd rfl rfl
    | some t =>
      simp only
      split
      · exact resGood_same hd rfl rfl
      · rename_i ht
        have ht' : states.contains t = true := by simpa using ht
        have hv1 := vecGood_state hv ht'
        cases hsm : setMsg d.name g { v with state := t } with
        | error x => exact ⟨(fun m hm => nomatch hm), devGood_setVec hd _ _ hv1, kindAt_setVec hg rfl⟩
        | ok m =>
          refine ⟨msgs_toList hnum hv1 hsm, devGood_setVec hd _ _ (vecGood_refresh_if hv1 _), ?_⟩
          refine kindAt_setVec hg ?_
          split <;> rfl

theorem announce_good (hnum : NumValid) {d : Device} (hd : DevGood d) (gi vi : Nat) :
    ResGood d (announce d gi vi) := by
  unfold announce
  cases hg : getVec d gi vi with
  | none => exact resGood_same hd rfl rfl
  | some gv =>
    obtain ⟨g, v⟩ := gv
    have hv := hd _ _ _ _ hg
    simp only
    cases hdm : defMsg d.name g v with
    | error x => exact resGood_same hd rfl rfl
    | ok dm =>
      simp only
      have hdmv := defMsg_readsBack hnum hv.1 hdm
      have hv1 := vecGood_refreshDef_if hv (vecEnabled g v)
      have hk1 : (if vecEnabled g v = true then refreshDef v else v).kind = v.kind := refreshDef_kind_if v _
      cases hsm : setMsg d.name g (if vecEnabled g v = true then refreshDef v else v) with
      | error x =>
        refine ⟨?_, devGood_setVec hd _ _ hv1, kindAt_setVec hg hk1⟩
        intro m hm
        simp only [List.mem_singleton] at hm
        subst hm; exact hdmv
      | ok sm =>
        refine ⟨?_, devGood_setVec hd _ _ (vecGood_refresh_if hv1 _), kindAt_setVec hg ?_⟩
        case refine_2 => exact (refreshVec_kind_if _ _).trans hk1
        intro m hm
        simp only [List.mem_cons] at hm
        rcases hm with rfl | hm
        · exact hdmv
        · exact msgs_toList hnum hv1 hsm m hm

theorem enableVec_good (hnum : NumValid) {d : Device} (hd : DevGood d) (gi vi : Nat) (b : Bool) :
    ResGood d (enableVec d gi vi b) := by
  unfold enableVec
  cases hg : getVec d gi vi with
  | none => exact resGood_same hd rfl rfl
  | some gv =>
    obtain ⟨g, v⟩ := gv
    have hv := hd _ _ _ _ hg
    simp only
    have hd1 : DevGood (setVec d gi vi { v with enabled := b }) := devGood_setVec hd _ _ (vecGood_enabled hv b)
    obtain ⟨h1, h2, h3⟩ := announce_good hnum hd1 gi vi
    exact ⟨h1, h2, fun gj vj => (h3 gj vj).trans (kindAt_setVec (v' := { v with enabled := b }) hg rfl gj vj)⟩

theorem announceAll_good (hnum : NumValid) (gi : Nat) :
    ∀ (l : List Nat) {d : Device}, DevGood d → ResGood d (announceAll gi d l)
  | [], d, hd => resGood_same hd rfl rfl
  | vi :: rest, d, hd => by
    have hr := announce_good hnum hd gi vi
    simp only [announceAll]
    split
    · exact hr
    · exact resGood_trans hr (announceAll_good hnum gi rest hr.2.1)

theorem enableGroup_good (hnum : NumValid) {d : Device} (hd : DevGood d) (gi : Nat) (b : Bool) :
    ResGood d (enableGroup d gi b) := by
  unfold enableGroup
  cases hg : d.groups[gi]? with
  | none => exact resGood_same hd rfl rfl
  | some g =>
    simp only
    have hget : ∀ gj vj, getVec { d with groups := d.groups.set gi { g with enabled := b } } gj vj =
        (getVec d gj vj).map fun gv => (if gi = gj then { gv.1 with enabled := b } else gv.1, gv.2) := by
      intro gj vj
      unfold getVec
      simp only [List.getElem?_set]
      by_cases hij : gi = gj
      · subst hij
        have hlt : gi < d.groups.length := by
          apply Classical.byContradiction; intro h
          rw [List.getElem?_eq_none (by omega)] at hg; cases hg
        simp only [hlt, if_true, hg]
        cases g.vecs[vj]? <;> rfl
      · simp only [hij, if_false]
        cases d.groups[gj]? with
        | none => rfl
        | some g' => simp only; cases g'.vecs[vj]? <;> rfl
    have hd1 : DevGood { d with groups := d.groups.set gi { g with enabled := b } } := by
      intro gj vj g' v' h
      rw [hget] at h
      cases h0 : getVec d gj vj with
      | none => rw [h0] at h; cases h
      | some gv =>
        rw [h0] at h
        simp only [Option.map_some, Option.some.injEq, Prod.mk.injEq] at h
        obtain ⟨_, rfl⟩ := h
        exact hd _ _ _ _ h0
    obtain ⟨h1, h2, h3⟩ := announceAll_good hnum gi (List.range g.vecs.length) hd1
    refine ⟨h1, h2, fun gj vj => (h3 gj vj).trans ?_⟩
    unfold kindAt
    rw [hget]
    cases getVec d gj vj <;> rfl

theorem enableElem_good {d : Device} (a : Addr) (b : Bool) : MsgsGood (enableElem d a b) := by
  unfold enableElem
  intro m hm
  cases hg : getVec d a.g a.v with
  | none => rw [hg] at hm; cases hm
  | some gv =>
    rw [hg] at hm
    simp only at hm
    cases he : gv.2.elems[a.e]? with
    | none => rw [he] at hm; cases hm
    | some e => rw [he] at hm; cases hm

theorem sendDefs_good (hnum : NumValid) :
    ∀ (l : List (Nat × Nat)) {d : Device}, DevGood d → ResGood d (sendDefs d l)
  | [], d, hd => resGood_same hd rfl rfl
  | (gi, vi) :: rest, d, hd => by
    simp only [sendDefs]
    cases hg : getVec d gi vi with
    | none => exact sendDefs_good hnum rest hd
    | some gv =>
      obtain ⟨g, v⟩ := gv
      have hv := hd _ _ _ _ hg
      simp only
      cases hdm : defMsg d.name g v with
      | error x => exact resGood_same hd rfl rfl
      | ok dm =>
        simp only
        have hv1 := vecGood_refreshDef_if hv (vecEnabled g v)
        have hk1 : (if vecEnabled g v = true then refreshDef v else v).kind = v.kind := refreshDef_kind_if v _
        have hd1 := devGood_setVec hd gi vi hv1
        refine resGood_trans (a := { dev := _, msgs := [dm] }) ⟨?_, hd1, kindAt_setVec hg hk1⟩
          (sendDefs_good hnum rest hd1)
        intro m hm
        simp only [List.mem_singleton] at hm
        subst hm
        exact defMsg_readsBack hnum hv.1 hdm

end Indi.DevB

namespace Indi.DevB
open Indi Indi.Dev Indi.Spec.Dev

/-! ### client messages -/

def fmtPresent (p : Part) : Bool := ((alookup (s "format") p.fields).getD none).isSome

theorem valueFromPart_fmt {k : Kind} {p : Part} {val : Value} (h : valueFromPart k p = .ok val)
    (hf : k = .blob → fmtPresent p = true) : hasFormat val = true := by
  unfold valueFromPart at h
  cases k with
  | text =>
    simp only [Except.ok.injEq] at h
    subst h
    split <;> rfl
  | switch =>
    simp only [Except.ok.injEq] at h
    subst h
    split <;> rfl
  | light =>
    simp only [Except.ok.injEq] at h
    subst h
    split <;> rfl
  | number =>
    simp only at h
    split at h
    · simp only [Except.ok.injEq] at h; subst h; rfl
    · split at h
      · simp only [Except.ok.injEq] at h; subst h; rfl
      · simp only [Except.ok.injEq] at h; subst h; rfl
      · cases h
  | blob =>
    have hf' := hf rfl
    simp only at h
    split at h
    · cases h
    · split at h
      · cases h
      · split at h
        · split at h
          · cases h
          · split at h
            · simp only [Except.ok.injEq] at h
              subst h
              unfold fmtPresent at hf'
              cases hfm : (alookup (s "format") p.fields).getD none with
              | none => rw [hfm] at hf'; cases hf'
              | some f => rfl
            · cases h
        · cases h

theorem applyChildren_good (hnum : NumValid) (gi vi : Nat) (k : Option Kind) :
    ∀ (ps : List Part) {d : Device}, DevGood d → kindAt d gi vi = k →
      (k = some .blob → ∀ p ∈ ps, fmtPresent p = true) → ResGood d (applyChildren gi vi d ps)
  | [], d, hd, _, _ => resGood_same hd rfl rfl
  | p :: ps, d, hd, hk, hps => by
    have ih : ∀ {d' : Device}, DevGood d' → kindAt d' gi vi = k → ResGood d' (applyChildren gi vi d' ps) :=
      fun hd' hk' => applyChildren_good hnum gi vi k ps hd' hk' fun hb q hq => hps hb q (List.mem_cons_of_mem _ hq)
    simp only [applyChildren]
    cases hg : getVec d gi vi with
    | none => exact resGood_same hd rfl rfl
    | some gv =>
      obtain ⟨g, v⟩ := gv
      simp only
      split
      · exact ih hd hk
      · rename_i ei _
        split
        · exact ih hd hk
        · rename_i val hvfp
          have hval : hasFormat val = true := by
            refine valueFromPart_fmt hvfp fun hb => hps ?_ p List.mem_cons_self
            rw [← hk]
            simp [kindAt, hg, hb]
          have hr := setValue_good hnum hd ⟨gi, vi, ei⟩ hval
          split
          · split
            · exact resGood_trans (a := { setValue d ⟨gi, vi, ei⟩ val with exc := none }) (resGood_eta hr rfl rfl)
                (ih hr.2.1 ((hr.2.2 gi vi).trans hk))
            · exact hr
          · exact resGood_trans hr (ih hr.2.1 ((hr.2.2 gi vi).trans hk))

theorem fromClient_good (hnum : NumValid) {d : Device} (hd : DevGood d) (m : Msg)
    (hfo : opFormats (.client m) = true) : ResGood d (fromClient d m) := by
  unfold fromClient
  split
  · split
    · exact sendDefs_good hnum _ hd
    · split
      · exact sendDefs_good hnum _ hd
      · split
        · exact sendDefs_good hnum _ hd
        · exact resGood_same hd rfl rfl
  · split
    · split
      · exact resGood_same hd rfl rfl
      · split
        · exact resGood_same hd rfl rfl
        · rename_i gi vi _
          split
          · exact resGood_same hd rfl rfl
          · rename_i g v hg
            split
            · rename_i htag
              refine applyChildren_good hnum gi vi (some v.kind) _ hd (by simp [kindAt, hg]) ?_
              intro hb p hp
              simp only [Option.some.injEq] at hb
              rw [hb] at htag
              simp only [newTag, Option.some.injEq] at htag
              simp only [opFormats, Bool.or_eq_true, bne_iff_ne, ne_eq, List.all_eq_true] at hfo
              rcases hfo with hne | hall
              · exact absurd htag.symm hne
              · exact hall p hp
            · exact resGood_same hd rfl rfl
    · exact resGood_same hd rfl rfl

/-- **C07** (validity of emitted messages), relative to the validity of rendered numbers -/
theorem emitted_valid (hnum : NumValid) (d : Device) (hwf : WF d = true) (op : Op)
    (hfd : devFormats d = true) (hfo : opFormats op = true) :
    ∀ m ∈ (step d op).msgs, readsBack Generated.registry m = true := by
  have hd := devGood_of hwf hfd
  cases op with
  | assign a v => exact (assign_good hnum hd a (by simpa [opFormats] using hfo)).1
  | setValue a v => exact (setValue_good hnum hd a (by simpa [opFormats] using hfo)).1
  | state g v st => exact (setState_good hnum hd g v st).1
  | enableVec g v b => exact (enableVec_good hnum hd g v b).1
  | enableGroup g b => exact (enableGroup_good hnum hd g b).1
  | enableElem a b => exact enableElem_good a b
  | client m => exact (fromClient_good hnum hd m hfo).1

end Indi.DevB

namespace Indi.DevB

/-- rendered numbers are valid (Part 1) -/
theorem numValid : NumValid := fun f x t h => Indi.DevBNum.numToStr_numberOk _ f x t h

end Indi.DevB
