/-
  Helper lemmas for C06 (Properties/C06.lean): a client's write changes exactly the addressed
  elements, to the values sent.  Defines the side conditions `worldOk06` (on the drivers) and
  `writesOkFor` (on the submitted values).
-/
import Indi.Proofs.Sys08
import Indi.Properties.C10
import Mathlib.Algebra.Order.Field.Power

namespace Indi.Num
open Indi Indi.Spec.Num

/-! ### `flIEEE` rounds with relative error at most 2⁻⁵³ (we need 2⁻⁵²) -/

theorem pow2_eq (e : Int) : pow2 e = (2 : Rat) ^ e := by
  unfold pow2
  split
  · rename_i h
    have h' : (0 : Int) ≤ e := h
    conv => rhs; rw [← Int.toNat_of_nonneg h']
    rw [zpow_natCast]
  · rename_i h
    have h' : (0 : Int) ≤ -e := by omega
    have : e = -((-e).toNat : Int) := by rw [Int.toNat_of_nonneg h']; omega
    conv => rhs; rw [this]
    rw [zpow_neg, zpow_natCast, one_div]

theorem pow2_pos (e : Int) : 0 < pow2 e := by
  rw [pow2_eq]; exact zpow_pos (by norm_num) e

theorem pow2_succ (e : Int) : pow2 (e + 1) = 2 * pow2 e := by
  rw [pow2_eq, pow2_eq, zpow_add_one₀ (by norm_num)]; ring

theorem pow2_pred (e : Int) : pow2 (e - 1) = pow2 e / 2 := by
  rw [pow2_eq, pow2_eq, zpow_sub_one₀ (by norm_num)]; ring

/-- the exponent estimate from the bit lengths of numerator and denominator -/
theorem log2_estimate (q : Rat) (hq : 0 < q) :
    (2 : Rat) ^ 51 * pow2 ((Nat.log2 q.num.natAbs : Int) - (Nat.log2 q.den : Int) - 52) ≤ q := by
  set n := q.num.natAbs with hn
  set a := Nat.log2 n
  set b := Nat.log2 q.den
  have hnum : 0 < q.num := Rat.num_pos.2 hq
  have hn0 : n ≠ 0 := by omega
  have h1 : (2 : Rat) ^ a ≤ (n : Rat) := by exact_mod_cast Nat.log2_self_le hn0
  have h2 : (q.den : Rat) < (2 : Rat) ^ (b + 1) := by exact_mod_cast (Nat.lt_log2_self (n := q.den))
  have hden : (0 : Rat) < q.den := by exact_mod_cast q.den_pos
  have hqe : q = (n : Rat) / q.den := by
    conv => lhs; rw [← Rat.num_div_den q]
    congr 1
    have : (q.num : Int) = (n : Int) := by omega
    exact_mod_cast this
  have e1 : (2 : Rat) ^ 51 * pow2 ((a : Int) - (b : Int) - 52) = (2 : Rat) ^ a / (2 : Rat) ^ (b + 1) := by
    rw [pow2_eq]
    have : ((a : Int) - (b : Int) - 52) = ((a : Int) - ((b : Int) + 1)) - 51 := by ring
    rw [this, zpow_sub₀ (by norm_num), zpow_sub₀ (by norm_num)]
    have c1 : (2 : Rat) ^ (a : Int) = (2 : Rat) ^ a := zpow_natCast _ _
    have c2 : (2 : Rat) ^ ((b : Int) + 1) = (2 : Rat) ^ (b + 1) := by
      rw [show ((b : Int) + 1) = ((b + 1 : Nat) : Int) by push_cast; ring, zpow_natCast]
    have c3 : (2 : Rat) ^ (51 : Int) = (2 : Rat) ^ 51 := by
      rw [show (51 : Int) = ((51 : Nat) : Int) by rfl, zpow_natCast]
    rw [c1, c2, c3]
    field_simp
  rw [e1, hqe]
  have hp : (0 : Rat) < (2 : Rat) ^ (b + 1) := by positivity
  rw [div_le_div_iff₀ hp hden]
  have : (2 : Rat) ^ a * q.den ≤ (n : Rat) * (2 : Rat) ^ (b + 1) := by
    have hp' : (0 : Rat) ≤ (2 : Rat) ^ a := by positivity
    nlinarith
  exact this


theorem round_at (q : Rat) (e : Int) (h : (2 : Rat) ^ 51 * pow2 e ≤ q) :
    absR ((rhe (q / pow2 e) : Rat) * pow2 e - q) * 2 ^ 52 ≤ q := by
  have hP := pow2_pos e
  set P := pow2 e
  have hb := rhe_bounds (q / P)
  have hq : q = q / P * P := by field_simp
  have hx : absR ((rhe (q / P) : Rat) * P - q) ≤ P / 2 := by
    rw [absR_le]
    constructor
    · have : (rhe (q / P) : Rat) * P - q = ((rhe (q / P) : Rat) - q / P) * P := by
        conv => lhs; rw [hq]
        ring_nf
        field_simp
      rw [this]
      nlinarith [hb.1, hb.2]
    · have : (rhe (q / P) : Rat) * P - q = ((rhe (q / P) : Rat) - q / P) * P := by
        conv => lhs; rw [hq]
        ring_nf
        field_simp
      rw [this]
      nlinarith [hb.1, hb.2]
  calc absR ((rhe (q / P) : Rat) * P - q) * 2 ^ 52 ≤ P / 2 * 2 ^ 52 := by
        apply mul_le_mul_of_nonneg_right hx (by positivity)
    _ = 2 ^ 51 * P := by ring
    _ ≤ q := h

theorem flPos_accurate (q : Rat) (hq : 0 < q) : absR (flPos q - q) * 2 ^ 52 ≤ q := by
  have hest := log2_estimate q hq
  unfold flPos
  simp only []
  set e0 : Int := (Nat.log2 q.num.natAbs : Int) - (Nat.log2 q.den : Int) - 52 with he0
  have hP := pow2_pos e0
  split
  · apply round_at
    rw [pow2_pred]
    nlinarith
  · split
    · rename_i h1 h2
      apply round_at
      rw [pow2_succ]
      have : (2 : Rat) ^ 53 * pow2 e0 ≤ q := by
        rw [ge_iff_le, le_div_iff₀ hP] at h2
        exact h2
      nlinarith
    · exact round_at q e0 hest

theorem flIEEE_accurate (q : Rat) : absR (flIEEE q - q) * 2 ^ 52 ≤ absR q := by
  unfold flIEEE
  split
  · rename_i h; subst h
    simp [absR]
  · split
    · rename_i h0 hpos
      rw [absR_of_nonneg (le_of_lt hpos)]
      exact flPos_accurate q hpos
    · rename_i h0 hpos
      have hneg : 0 < -q := by
        rcases lt_trichotomy q 0 with h | h | h
        · linarith
        · exact absurd h h0
        · exact absurd h hpos
      have : -flPos (-q) - q = -(flPos (-q) - -q) := by ring
      rw [this, absR_neg, ← absR_neg q, absR_of_nonneg (le_of_lt hneg)]
      exact flPos_accurate (-q) hneg

end Indi.Num

namespace Indi.Sys
open Indi Indi.Dev Indi.Cli Indi.Spec.Sys Indi.Spec.Dev Indi.Spec.MsgValid

/-! ### `c06Holds` as a relation between corresponding properties -/

/-- what `c06Holds` demands of a property `v` of the addressed device and its successor `v'` -/
def Body06 (prop : Str) (written : List (Str × Value)) (v v' : Vec) : Prop :=
  v'.state = v.state ∧ v'.enabled = v.enabled ∧ v'.elems.length = v.elems.length ∧
  ∀ (i : Nat) e e', v.elems[i]? = some e → v'.elems[i]? = some e' →
    e'.enabled = e.enabled ∧
    (if v.name == prop then
       (match written.reverse.find? fun nv => nv.1 == e.d.name with
        | some nv => writtenOk v.kind nv.2 e'.value
        | none => v.kind == .switch || e.value == e'.value)
     else e.value == e'.value) = true

theorem c06_of_rel (d d' : Device) (prop : Str) (written : List (Str × Value))
    (h : DevRel (fun _ _ => Body06 prop written) d d') : c06Holds d d.name prop written d' = true := by
  unfold c06Holds
  simp only [bne_self_eq_false, Bool.false_eq_true, if_false, Bool.and_eq_true, beq_iff_eq]
  refine ⟨h.glen.symm, ?_⟩
  apply zip_all_of_forall
  intro gi g g' hg hg'
  obtain ⟨e1, l1, r1⟩ := h.grp gi g g' hg hg'
  simp only [Bool.and_eq_true, beq_iff_eq]
  refine ⟨⟨e1.symm, l1.symm⟩, ?_⟩
  apply zip_all_of_forall
  intro vi v v' hv hv'
  obtain ⟨b1, b2, b3, b4⟩ := r1 vi v v' hv hv'
  simp only [Bool.and_eq_true, beq_iff_eq]
  refine ⟨⟨⟨b1.symm, b2.symm⟩, b3.symm⟩, ?_⟩
  apply zip_all_of_forall
  intro i e e' he he'
  obtain ⟨c1, c2⟩ := b4 i e e' he he'
  simp only [Bool.and_eq_true, beq_iff_eq] at c2 ⊢
  exact ⟨c1.symm, c2⟩

/-- `DevRel.of_setVec` with reflexivity needed only away from the replaced property -/
theorem DevRel.of_setVec' {R : Nat → Nat → Vec → Vec → Prop} {d : Device} {gi vi : Nat} {g : Group} {v v' : Vec}
    (h : getVec d gi vi = some (g, v)) (hv : R gi vi v v')
    (hr : ∀ gj vj g0 w, getVec d gj vj = some (g0, w) → ¬(gj = gi ∧ vj = vi) → R gj vj w w) :
    DevRel R d (setVec d gi vi v') := by
  have h0 := h
  rw [getVec_eq_some] at h
  refine ⟨by simp [setVec], ?_⟩
  intro gj g1 g2 h1 h2
  simp only [setVec, List.getElem?_modify, h1, Option.map_eq_map, Option.map_some] at h2
  cases h2
  by_cases hg : gi = gj
  · subst hg
    rw [h.1] at h1; cases h1
    refine ⟨by simp, by simp, ?_⟩
    intro vj w w' k1 k2
    simp only [if_true, List.getElem?_set] at k2
    by_cases hvi : vi = vj
    · subst hvi
      rw [h.2] at k1; cases k1
      have : vi < g.vecs.length := by
        rcases List.getElem?_eq_some_iff.1 h.2 with ⟨h1, _⟩; exact h1
      simp [this] at k2
      subst k2; exact hv
    · simp [hvi] at k2
      rw [k1] at k2; cases k2
      exact hr gi vj g w (getVec_eq_some.2 ⟨h.1, k1⟩) (fun hh => hvi hh.2.symm)
  · refine ⟨by simp [hg], by simp [hg], ?_⟩
    intro vj w w' k1 k2
    simp only [hg, if_false] at k2
    rw [k1] at k2; cases k2
    exact hr gj vj g1 w (getVec_eq_some.2 ⟨h1, k1⟩) (fun hh => hg hh.1.symm)

theorem Body06_refl_other (prop : Str) (written : List (Str × Value)) (w : Vec) (h : w.name ≠ prop) :
    Body06 prop written w w := by
  refine ⟨rfl, rfl, rfl, ?_⟩
  intro i e e' h1 h2
  rw [h1] at h2; cases h2
  have : (w.name == prop) = false := by simpa using h
  simp [this]

/-- with distinct property names, only the property at the position found by name has that name -/
theorem name_ne_of_pos_ne {d : Device} (hn : namesDistinct d = true) {gi vi gj vj : Nat} {g g0 : Group} {v w : Vec}
    (h1 : getVec d gi vi = some (g, v)) (h2 : getVec d gj vj = some (g0, w)) (hne : ¬(gj = gi ∧ vj = vi)) :
    w.name ≠ v.name := by
  intro heq
  have hN := DevBResp.names_nodup hn
  have m1 : ((g, v), (gi, vi)) ∈ DevBResp.full d := DevBResp.mem_full.2 h1
  have m2 : ((g0, w), (gj, vj)) ∈ DevBResp.full d := DevBResp.mem_full.2 h2
  have := DevBResp.inj_of_nodup_map (fun (x : (Group × Vec) × (Nat × Nat)) => x.1.2.name)
    (l := DevBResp.full d) hN m2 m1 heq
  simp only [Prod.mk.injEq] at this
  exact hne ⟨this.2.1, this.2.2⟩

/-- replacing the addressed property by one that `Body06` accepts satisfies `c06Holds` -/
theorem c06_setVec {d : Device} (hn : namesDistinct d = true) {gi vi : Nat} {g : Group} {v v' : Vec}
    (h : getVec d gi vi = some (g, v)) (written : List (Str × Value)) (hb : Body06 v.name written v v') :
    c06Holds d d.name v.name written (setVec d gi vi v') = true := by
  apply c06_of_rel
  apply DevRel.of_setVec' h hb
  intro gj vj g0 w hw hne
  exact Body06_refl_other _ _ _ (name_ne_of_pos_ne hn h hw hne)

/-! ### the driver side: exact effect of the children of a `new*Vector` -/

theorem setVec_setVec (d : Device) (gi vi : Nat) (a b : Vec) :
    setVec (setVec d gi vi a) gi vi b = setVec d gi vi b := by
  unfold setVec
  simp only [Device.mk.injEq, true_and]
  apply List.ext_getElem?
  intro j
  simp only [List.getElem?_modify]
  by_cases h : gi = j
  · subst h
    cases d.groups[gi]? <;> simp [List.set_set]
  · cases d.groups[j]? <;> simp [h]

/-- enabled elements have no refreshing Read handler: publication leaves the property as it is -/
theorem refreshVec_id (v : Vec) (h : ∀ e ∈ v.elems, e.enabled = true → e.d.refresh = none) : refreshVec v = v := by
  have : v.elems.map (fun e => if e.enabled then afterRead e else e) = v.elems := by
    conv => rhs; rw [← List.map_id v.elems]
    apply List.map_congr_left
    intro e he
    split
    · rename_i hen
      simp [afterRead, readValue, h e he hen]
    · rfl
  unfold refreshVec
  rw [this]

/-- an accepted assignment stores the value in the element and changes nothing else -/
theorem assign_exact (d : Device) (a : Addr) (val : Value) (g : Group) (v : Vec) (e : Dev.Elem)
    (hv : getVec d a.g a.v = some (g, v)) (he : v.elems[a.e]? = some e)
    (ht : typeOk v.kind val = true) (hc : checkValue v a.e val = .ok (v, val))
    (hnr : ∀ e ∈ v.elems, e.enabled = true → e.d.refresh = none) :
    (assign d a val).dev = setVec d a.g a.v { v with elems := v.elems.set a.e { e with value := val } } := by
  have h2 : asgV2 v a.e e val = { v with elems := v.elems.set a.e { e with value := val } } := by
    simp [asgV2, he]
  have hnr2 : ∀ e' ∈ (asgV2 v a.e e val).elems, e'.enabled = true → e'.d.refresh = none := by
    intro e' he' hen
    rw [h2] at he'
    rcases List.mem_or_eq_of_mem_set he' with h | h
    · exact hnr e' h hen
    · subst h
      exact hnr e (List.mem_of_getElem? he) hen
  rcases assign_cases d a val g v e hv he with ⟨h1, _⟩ | ⟨_, x, h1, _⟩ | ⟨_, v1, stored, h1, h3⟩
  · rw [ht] at h1; cases h1
  · rw [hc] at h1; cases h1
  · rw [hc] at h1
    simp only [Except.ok.injEq, Prod.mk.injEq] at h1
    obtain ⟨rfl, rfl⟩ := h1
    rcases h3 with ⟨x, _, h3⟩ | ⟨m, _, h3⟩
    · rw [h3, h2]
    · have h4 : asgV3 g (asgV2 v a.e e val) = asgV2 v a.e e val := by
        unfold asgV3; split
        · exact refreshVec_id _ hnr2
        · rfl
      rw [h3, h4, h2]


theorem set_self {α : Type} (l : List α) (i : Nat) (x : α) (h : l[i]? = some x) : l.set i x = l := by
  apply List.ext_getElem?
  intro j
  rw [List.getElem?_set]
  split
  · rename_i hij; subst hij
    rcases List.getElem?_eq_some_iff.1 h with ⟨h1, h2⟩
    simp [h1, h2]
  · rfl

theorem setVec_self (d : Device) (gi vi : Nat) (g : Group) (v : Vec) (h : getVec d gi vi = some (g, v)) :
    setVec d gi vi v = d := by
  rw [getVec_eq_some] at h
  unfold setVec
  have : d.groups.modify gi (fun g => { g with vecs := g.vecs.set vi v }) = d.groups := by
    apply List.ext_getElem?
    intro j
    rw [List.getElem?_modify]
    by_cases hj : gi = j
    · subst hj
      simp [h.1, set_self _ _ _ h.2]
    · simp [hj]
  rw [this]

/-- no plain Write handler of the element vetoes -/
def noVeto (dd : ElemDef) : Bool := !(dd.writeH.any fun h => !h.async && h.veto)

/-- the element after child `p` was handled (property of kind `k`) -/
def upd1 (k : Kind) (p : Part) (e : Dev.Elem) : Dev.Elem :=
  if childName p = some e.d.name then
    match valueFromPart k p with
    | .ok val => { e with value := val }
    | .error _ => e
  else e

def updAll (k : Kind) (ps : List Part) (e : Dev.Elem) : Dev.Elem := ps.foldl (fun e p => upd1 k p e) e

theorem upd1_d (k : Kind) (p : Part) (e : Dev.Elem) : (upd1 k p e).d = e.d ∧ (upd1 k p e).enabled = e.enabled := by
  unfold upd1
  split
  · split <;> exact ⟨rfl, rfl⟩
  · exact ⟨rfl, rfl⟩

theorem updAll_d (k : Kind) (ps : List Part) : ∀ e, (updAll k ps e).d = e.d ∧ (updAll k ps e).enabled = e.enabled := by
  induction ps with
  | nil => intro e; exact ⟨rfl, rfl⟩
  | cons p ps ih =>
    intro e
    have h1 := upd1_d k p e
    have h2 := ih (upd1 k p e)
    exact ⟨h2.1.trans h1.1, h2.2.trans h1.2⟩

/-- when no other member has the key, storing into the member found by key is a `map` -/
theorem set_eq_map {α β : Type} [DecidableEq β] (key : α → β) (f : α → α) (l : List α)
    (i : Nat) (e : α) (he : l[i]? = some e) (hu : ∀ (j : Nat) x, l[j]? = some x → key x = key e → j = i) :
    l.set i (f e) = l.map fun x => if key x = key e then f x else x := by
  apply List.ext_getElem?
  intro j
  rw [List.getElem?_set, List.getElem?_map]
  obtain ⟨hlt, hget⟩ := List.getElem?_eq_some_iff.1 he
  by_cases hij : i = j
  · subst hij
    simp [hlt, hget]
  · simp only [hij, if_false]
    cases hj : l[j]? with
    | none => rfl
    | some x =>
      have hne : key x ≠ key e := fun hk => hij (hu j x hj hk).symm
      simp [hne]

theorem findElemByName_of_mem (v : Vec) (e : Dev.Elem) (he : e ∈ v.elems) :
    ∃ ei, findElemByName v e.d.name = some ei := by
  unfold findElemByName
  cases hf : (v.elems.zipIdx.reverse.find? fun (x : Dev.Elem × Nat) => decide (x.1.d.name = e.d.name)) with
  | some x => exact ⟨x.2, rfl⟩
  | none =>
    rw [List.find?_eq_none] at hf
    obtain ⟨i, hi⟩ := List.mem_iff_getElem?.1 he
    have := hf (e, i) (by rw [List.mem_reverse, List.mem_zipIdx_iff_getElem?]; exact hi)
    simp at this

/-- exactly one element definition of the list has the name -/
def UniqueName (D : List ElemDef) (n : Str) : Prop :=
  ∀ (i j : Nat) a b, D[i]? = some a → D[j]? = some b → a.name = n → b.name = n → i = j

/-- what a child of a client write must satisfy for the element it names to take its value -/
def PartOk (k : Kind) (D : List ElemDef) (p : Part) : Prop :=
  ∃ n val, childName p = some n ∧ (∃ dd ∈ D, dd.name = n ∧ noVeto dd = true) ∧ UniqueName D n ∧
    valueFromPart k p = .ok val ∧ typeOk k val = true ∧
    ∀ (v : Vec) (ei : Nat), v.kind = k → checkValue v ei val = .ok (v, val)

/-- the conditions on the addressed property that the exact analysis needs (values excepted) -/
structure VecInv (k : Kind) (D : List ElemDef) (v : Vec) : Prop where
  kind : v.kind = k
  defs : v.elems.map (·.d) = D
  norefresh : ∀ e ∈ v.elems, e.enabled = true → e.d.refresh = none

theorem VecInv.map {k : Kind} {D : List ElemDef} {v : Vec} (h : VecInv k D v) (f : Dev.Elem → Dev.Elem)
    (hf : ∀ e, (f e).d = e.d ∧ (f e).enabled = e.enabled) : VecInv k D { v with elems := v.elems.map f } := by
  refine ⟨h.kind, ?_, ?_⟩
  · rw [← h.defs]; simp only [List.map_map]; apply List.map_congr_left; intro e _; exact (hf e).1
  · intro e' he' hen
    obtain ⟨e, he, rfl⟩ := List.mem_map.1 he'
    rw [(hf e).1]
    rw [(hf e).2] at hen
    exact h.norefresh e he hen

/-- one child -/
theorem child_exact (gi vi : Nat) (k : Kind) (D : List ElemDef) (p : Part) (d : Device) (g : Group) (v : Vec)
    (hv : getVec d gi vi = some (g, v)) (hi : VecInv k D v) (hp : PartOk k D p) :
    ∃ ei val, (childName p).bind (findElemByName v) = some ei ∧ valueFromPart v.kind p = .ok val ∧
      (setValue d ⟨gi, vi, ei⟩ val).dev = setVec d gi vi { v with elems := v.elems.map (upd1 k p) } ∧
      ∀ x, (setValue d ⟨gi, vi, ei⟩ val).exc = some x → swallowed x = true := by
  obtain ⟨n, val, hn, ⟨dd, hdd, hddn, hveto⟩, hu, hval, ht, hc⟩ := hp
  rw [← hi.defs] at hdd hu
  obtain ⟨e0, he0, rfl⟩ := List.mem_map.1 hdd
  obtain ⟨ei, hei⟩ := findElemByName_of_mem v e0 he0
  rw [hddn] at hei
  obtain ⟨e, he, hen⟩ := findElemByName_some hei
  have hD : ∀ (j : Nat) x, v.elems[j]? = some x → (v.elems.map (·.d))[j]? = some x.d := by
    intro j x hj; rw [List.getElem?_map, hj]; rfl
  refine ⟨ei, val, by rw [hn]; exact hei, by rw [hi.kind]; exact hval, ?_, ?_⟩
  · -- e = e0: the name is unique
    obtain ⟨i0, hi0⟩ := List.mem_iff_getElem?.1 he0
    have hii : i0 = ei := hu i0 ei _ _ (hD _ _ hi0) (hD _ _ he) hddn hen
    subst hii
    have hee : e = e0 := by rw [hi0] at he; exact (Option.some.inj he).symm
    subst hee
    rcases setValue_cases d ⟨gi, vi, i0⟩ val g v e hv hi0 with ⟨hvt, _⟩ | ⟨_, hs⟩
    · simp [noVeto, hvt] at hveto
    · rw [hs]
      show (assign d ⟨gi, vi, i0⟩ val).dev = _
      rw [assign_exact d ⟨gi, vi, i0⟩ val g v e hv hi0 (by rw [hi.kind]; exact ht) (hc v i0 hi.kind) hi.norefresh]
      congr 2
      show v.elems.set i0 { e with value := val } = _
      rw [set_eq_map (fun (x : Dev.Elem) => x.d.name) (fun x => { x with value := val }) v.elems i0 e hi0
        (fun j x hj hk => hu j i0 _ _ (hD _ _ hj) (hD _ _ hi0) (hk.trans hen) hen)]
      apply List.map_congr_left
      intro x _
      unfold upd1
      rw [hn, hval]
      by_cases hx : x.d.name = e.d.name
      · simp [hx, hen]
      · have : ¬ (some n = some x.d.name) := by
          intro h; exact hx ((Option.some.inj h).symm.trans hen.symm)
        simp [hx, this]
  · intro x hx
    exact setValue_exc d ⟨gi, vi, ei⟩ val g v e hv he x hx

/-- **exact effect of a client write** on a property that is not a switch property: every element named by a
child takes the child's value, in order; nothing else in the device changes -/
theorem applyChildren_exact (gi vi : Nat) (k : Kind) (D : List ElemDef) (ps : List Part) :
    ∀ (d : Device) (g : Group) (v : Vec), getVec d gi vi = some (g, v) → VecInv k D v →
      (∀ p ∈ ps, PartOk k D p) →
      (applyChildren gi vi d ps).dev = setVec d gi vi { v with elems := v.elems.map (updAll k ps) } := by
  induction ps with
  | nil =>
    intro d g v hv _ _
    show d = _
    have : v.elems.map (updAll k []) = v.elems := by
      conv => rhs; rw [← List.map_id v.elems]
      rfl
    rw [this]
    exact (setVec_self d gi vi g v hv).symm
  | cons p ps ih =>
    intro d g v hv hi hps
    obtain ⟨ei, val, h1, h2, h3, h4⟩ := child_exact gi vi k D p d g v hv hi (hps p (List.mem_cons_self ..))
    have hv1 := getVec_setVec_same (v' := { v with elems := v.elems.map (upd1 k p) }) hv
    have hi1 : VecInv k D { v with elems := v.elems.map (upd1 k p) } := hi.map _ (upd1_d k p)
    have ih' := ih _ _ _ hv1 hi1 (fun q hq => hps q (List.mem_cons_of_mem _ hq))
    have hfin : (applyChildren gi vi (setValue d ⟨gi, vi, ei⟩ val).dev ps).dev =
        setVec d gi vi { v with elems := v.elems.map (updAll k (p :: ps)) } := by
      rw [h3, ih', setVec_setVec]
      congr 2
      simp only [List.map_map]
      rfl
    unfold applyChildren
    simp only [hv]
    unfold childName at h1
    simp only [h1, h2]
    split
    · rename_i x hx
      rw [if_pos (h4 x hx), mergeRes_dev]
      exact hfin
    · rw [mergeRes_dev]
      exact hfin

abbrev AnyF : Nat → Nat → Kind → Str → Prop := fun _ _ _ _ => True

theorem setValue_shape (d : Device) (gi vi ei : Nat) (val : Value) (g : Group) (v : Vec) (e : Dev.Elem)
    (hv : getVec d gi vi = some (g, v)) (he : v.elems[ei]? = some e) :
    ∃ v', (setValue d ⟨gi, vi, ei⟩ val).dev = setVec d gi vi v' ∧ VR AnyF gi vi v v' := by
  have hself : d = setVec d gi vi v := (setVec_self d gi vi g v hv).symm
  rcases setValue_dev d ⟨gi, vi, ei⟩ val with h | h
  · exact ⟨v, h.trans hself, VR.refl _ _ _ _⟩
  · rw [h]
    rcases assign_cases d ⟨gi, vi, ei⟩ val g v e hv he with ⟨_, h1⟩ | ⟨_, x, _, h1⟩ | ⟨ht, v1, stored, hc, ⟨x, _, h1⟩ | ⟨m, _, h1⟩⟩
    · rw [h1]; exact ⟨v, hself, VR.refl _ _ _ _⟩
    · rw [h1]; exact ⟨v, hself, VR.refl _ _ _ _⟩
    · rw [h1]; exact ⟨_, rfl, VR_asgV2 hc ht he (fun _ _ => trivial) trivial⟩
    · rw [h1]
      exact ⟨_, rfl, VR.trans _ _ _ _ _ _ (VR_asgV2 hc ht he (fun _ _ => trivial) trivial) (VR_asgV3 _ _ _ g _)⟩

/-- whatever the children are, a client write replaces the addressed property by one of the same shape -/
theorem applyChildren_shape (gi vi : Nat) (ps : List Part) :
    ∀ (d : Device) (g : Group) (v : Vec), getVec d gi vi = some (g, v) →
      ∃ v', (applyChildren gi vi d ps).dev = setVec d gi vi v' ∧ VR AnyF gi vi v v' := by
  induction ps with
  | nil =>
    intro d g v hv
    exact ⟨v, (setVec_self d gi vi g v hv).symm, VR.refl _ _ _ _⟩
  | cons p ps ih =>
    intro d g v hv
    unfold applyChildren
    simp only [hv]
    split
    · exact ih d g v hv
    · rename_i ei hei
      split
      · exact ih d g v hv
      · rename_i val hval
        obtain ⟨e, he, _⟩ : ∃ e, v.elems[ei]? = some e ∧ True := by
          cases hnm : (alookup (s "name") p.fields).getD none with
          | none => simp [hnm] at hei
          | some n =>
            simp only [hnm, Option.bind_some] at hei
            obtain ⟨e0, k1, _⟩ := findElemByName_some hei
            exact ⟨e0, k1, trivial⟩
        obtain ⟨v1, h1, r1⟩ := setValue_shape d gi vi ei val g v e hv he
        have hv1 := getVec_setVec_same (v' := v1) hv
        have hfin : ∃ v', (applyChildren gi vi (setValue d ⟨gi, vi, ei⟩ val).dev ps).dev = setVec d gi vi v' ∧
            VR AnyF gi vi v v' := by
          rw [h1]
          obtain ⟨v2, h2, r2⟩ := ih _ _ _ hv1
          exact ⟨v2, by rw [h2, setVec_setVec], VR.trans _ _ _ _ _ _ r1 r2⟩
        split
        · split
          · rw [mergeRes_dev]; exact hfin
          · exact ⟨v1, h1, r1⟩
        · rw [mergeRes_dev]; exact hfin

/-! ### the classes of the registry that a client write uses -/

def clsOneText : ClassSpec :=
  ⟨s "oneText", true, false, false, [s "name", s "value"],
   [⟨s "name", some (s "name"), .any⟩, ⟨s "value", some (s "value"), .any⟩]⟩
def clsOneNumber : ClassSpec :=
  ⟨s "oneNumber", true, false, false, [s "name", s "value"],
   [⟨s "name", some (s "name"), .any⟩, ⟨s "value", some (s "value"), .number⟩]⟩
def clsOneSwitch : ClassSpec :=
  ⟨s "oneSwitch", true, false, false, [s "name", s "value"],
   [⟨s "name", some (s "name"), .any⟩, ⟨s "value", some (s "value"), .oneOf [some (s "On"), some (s "Off")]⟩]⟩

theorem findClass_oneText : findClass (s "oneText") Generated.registry.parts = some clsOneText := by decide +kernel
theorem findClass_oneNumber : findClass (s "oneNumber") Generated.registry.parts = some clsOneNumber := by decide +kernel
theorem findClass_oneSwitch : findClass (s "oneSwitch") Generated.registry.parts = some clsOneSwitch := by decide +kernel

def clsNew (kind : String) (child : String) : ClassSpec :=
  ⟨s ("new" ++ kind ++ "Vector"), true, true, false, [s "device", s "name"],
   [⟨s "device", some (s "device"), .any⟩, ⟨s "name", some (s "name"), .any⟩,
    ⟨s "timestamp", some (s "timestamp"), .any⟩, ⟨s "children", some (s "children"), .children [s child]⟩]⟩

theorem findClass_newText : findClass (s "newTextVector") Generated.registry.messages = some (clsNew "Text" "oneText") := by
  decide +kernel
theorem findClass_newNumber : findClass (s "newNumberVector") Generated.registry.messages = some (clsNew "Number" "oneNumber") := by
  decide +kernel
theorem findClass_newSwitch : findClass (s "newSwitchVector") Generated.registry.messages = some (clsNew "Switch" "oneSwitch") := by
  decide +kernel
theorem findClass_newBLOB : findClass (s "newBLOBVector") Generated.registry.messages = some (clsNew "BLOB" "oneBLOB") := by
  decide +kernel

/-- the four kinds of part a client submits -/
def textPart (tag : String) (name : Option Str) (t : Str) : Part :=
  { tag := s tag, fields := [(s "name", name), (s "value", some t)] }

theorem validPart_text (n t : Str) : validPart Generated.registry (textPart "oneText" (some n) t) = true := by
  unfold validPart textPart
  rw [findClass_oneText]
  simp [fieldsOk, scalarSpecs, fieldOk, guardOk, s, clsOneText]

theorem validPart_number (n t : Str) (h : numberOk t = true) :
    validPart Generated.registry (textPart "oneNumber" (some n) t) = true := by
  unfold validPart textPart
  rw [findClass_oneNumber]
  simp [fieldsOk, scalarSpecs, fieldOk, guardOk, s, clsOneNumber, h]

theorem validPart_switch (n t : Str) (h : t = s "On" ∨ t = s "Off") :
    validPart Generated.registry (textPart "oneSwitch" (some n) t) = true := by
  unfold validPart textPart
  rw [findClass_oneSwitch]
  rcases h with rfl | rfl <;> simp [fieldsOk, scalarSpecs, fieldOk, guardOk, s, clsOneSwitch]

theorem accepted_text (name : Option Str) (t : Str) : partAccepted Generated.registry (textPart "oneText" name t) = true := by
  unfold partAccepted textPart
  rw [findClass_oneText]
  cases name <;> simp [clsOneText, checkGuard, alookup, s]

theorem accepted_number (name : Option Str) (t : Str) (h : numberOk t = true) :
    partAccepted Generated.registry (textPart "oneNumber" name t) = true := by
  unfold partAccepted textPart
  rw [findClass_oneNumber]
  cases name <;> simp [clsOneNumber, checkGuard, alookup, s, h]

theorem accepted_switch (name : Option Str) (t : Str) (h : t = s "On" ∨ t = s "Off") :
    partAccepted Generated.registry (textPart "oneSwitch" name t) = true := by
  unfold partAccepted textPart
  rw [findClass_oneSwitch]
  rcases h with rfl | rfl <;> cases name <;> simp [clsOneSwitch, checkGuard, alookup, s]

theorem accepted_blob (name : Option Str) (bs : List Nat) (f : Option Str) :
    partAccepted Generated.registry (blobPart name bs f) = true := by
  unfold partAccepted blobPart
  rw [findClass_oneBLOB]
  cases name <;> cases f <;> simp [clsOneBLOB, checkGuard, alookup, s]


/-- the message a client submits -/
def newMsg (tag dev prop : Str) (ps : List Part) : Msg :=
  { tag := tag, fields := [(s "device", some dev), (s "name", some prop), (s "timestamp", some stamp)],
    children := some ps }

theorem childTags_new (kind child : String) : childTagsOf (clsNew kind child) = some [s child] := by
  simp [childTagsOf, clsNew, s]

theorem valid_new_aux (tag : Str) (kind child : String)
    (hc : findClass tag Generated.registry.messages = some (clsNew kind child))
    (dev prop : Str) (ps : List Part) (hps : ∀ p ∈ ps, p.tag = s child ∧ validPart Generated.registry p = true) :
    valid Generated.registry (newMsg tag dev prop ps) = true := by
  unfold valid newMsg
  simp only [hc, childTags_new]
  simp only [Bool.and_eq_true, List.all_eq_true]
  refine ⟨⟨rfl, ?_⟩, ?_⟩
  · simp [fieldsOk, scalarSpecs, fieldOk, guardOk, s, clsNew]
  · intro p hp
    obtain ⟨h1, h2⟩ := hps p hp
    simp [h1, h2]

theorem canon_newMsg (tag dev prop : Str) (ps : List Part) :
    C03.canon (newMsg tag dev prop ps) = newMsg tag dev prop (ps.map C03.canonPart) := by
  simp [C03.canon, C03.canonFields, C03.cv, newMsg, s]

/-! ### number text -/

open Indi.C03Num Indi.DevB in
/-- a text accepted by `checks.number` is, after `strip()`, a text of the grammar proper -/
theorem numberCore_strip (t : Str) (h : numberOk t = true) : t ≠ [] ∧ numberCore (pyStrip t) = true := by
  unfold numberOk at h
  rcases Bool.or_eq_true_iff.1 h with h | h
  · have he := core_spec h
    rw [strip_of_edges he]
    exact ⟨he.1, h⟩
  · unfold dropLastNewline at h
    split at h
    · rename_i r hr
      have ht : t = r.reverse ++ ['\n'] := by
        have := congrArg List.reverse hr
        simpa using this
      have he := core_spec h
      have hst : pyStrip t = r.reverse := by
        have h2 : hdOk t = true := by
          obtain ⟨hne, hh, _⟩ := he
          rw [ht]
          cases hrr : r.reverse with
          | nil => exact absurd hrr hne
          | cons a as => rw [hrr] at hh; exact hh
        have h3 : hdOk r = true := by
          obtain ⟨_, _, pre, s, e, hne, hs⟩ := he
          have := hdOk_rev pre s hne hs
          rwa [← e, List.reverse_reverse] at this
        unfold pyStrip
        rw [dropSpaces_of_hdOk _ h2, hr]
        simp only [dropSpaces, nl_space, if_true]
        rw [dropSpaces_of_hdOk _ h3]
      rw [hst]
      refine ⟨?_, h⟩
      rw [ht]; simp
    · have he := core_spec h
      rw [strip_of_edges he]
      exact ⟨he.1, h⟩

theorem strToNum_strip (A : Num.Arith) (t : Str) : Num.strToNum A (pyStrip t) = Num.strToNum A t := by
  unfold Num.strToNum
  rw [DevB.pyStrip_idem]


/-- the number text parses to a value that `check_value` accepts -/
def numOk06 (t : Str) : Bool :=
  numberOk t &&
  match Num.strToNum Num.exactIEEE t with
  | .ok (.int v) => !tooBig v
  | .ok (.float v) => !tooBig v
  | _ => false

/-- the driver value a number text becomes -/
def numVal (t : Str) : Value :=
  match Num.strToNum Num.exactIEEE t with
  | .ok (.int v) => .num v true
  | .ok (.float v) => .num v false
  | _ => .none

theorem number_written (t : Str) (h : numOk06 t = true) :
    ∃ x isInt, numVal t = .num x isInt ∧ tooBig x = false ∧ writtenOk .number (.text t) (numVal t) = true := by
  simp only [numOk06, Bool.and_eq_true] at h
  obtain ⟨hno, hbig⟩ := h
  obtain ⟨_, hcore⟩ := numberCore_strip t hno
  obtain ⟨nv, hnv, hden⟩ := Num.C10_parse_denotes Num.exactIEEE (pyStrip t) hcore
  have hst : Num.strToNum Num.exactIEEE t = .ok nv := hnv
  rw [hst] at hbig
  unfold numVal writtenOk
  rw [hst]
  cases nv with
  | int v =>
    simp only at hden hbig ⊢
    refine ⟨v, true, rfl, by simpa using hbig, ?_⟩
    rw [hden]
    simp
  | float v =>
    simp only at hden hbig ⊢
    obtain ⟨q, hq, hv⟩ := hden
    refine ⟨v, false, rfl, by simpa using hbig, ?_⟩
    rw [hq]
    simp only [Bool.false_eq_true, if_false, decide_eq_true_eq]
    rw [hv]
    exact Num.flIEEE_accurate q

/-! ### the submitted values -/

/-- a text value travels unchanged: an in-process peer hands the object over as it is (so the text must already
be in the form the wire would give it: trimmed, not empty); over the network only blank text is a problem
(`" "` is read back as `""`, not as absent) -/
def textOk06 (inproc : Bool) (t : Str) : Bool :=
  if inproc then pyStrip t == t && !t.isEmpty else t.isEmpty || !(pyStrip t).isEmpty

/-- the value is in the domain of a property of kind `k` -/
def valOk06 (inproc : Bool) (k : Kind) (cv : CVal) : Bool :=
  match k, cv with
  | .text, .text t => textOk06 inproc t
  | .number, .text t => numOk06 t
  | .switch, .text t => t == s "On" || t == s "Off"
  | .blob, .blob bs f => bs.all (· < 256) && (inproc || f.isSome)
  | _, _ => false

/-- what the driver reads: the part itself (in-process) or what `from_xml ∘ to_xml` makes of it -/
def wirePart (inproc : Bool) (p : Part) : Part := if inproc then p else C03.canonPart p

/-- the driver value the submitted value becomes -/
def drvVal (k : Kind) (cv : CVal) : Value :=
  match k, cv with
  | .text, .text t => (match normVal (some t) with | some u => .text u | none => .none)
  | .number, .text t => numVal t
  | .blob, .blob bs f => .blob bs f
  | _, _ => .none

def oneTagOf : Kind → Str
  | .text => s "oneText" | .number => s "oneNumber" | .switch => s "oneSwitch" | .blob => s "oneBLOB"
  | .light => s "oneLight"

structure PartSpec (inproc : Bool) (k : Kind) (name : Str) (cv : CVal) (p : Part) : Prop where
  tag : p.tag = oneTagOf k
  wname : childName (wirePart inproc p) = some name
  accepted : partAccepted Generated.registry p = true
  valid : inproc = false → validPart Generated.registry p = true
  value : k ≠ .switch → valueFromPart k (wirePart inproc p) = .ok (drvVal k cv)
  type : k ≠ .switch → typeOk k (drvVal k cv) = true
  check : k ≠ .switch → ∀ (v : Vec) (ei : Nat), v.kind = k → checkValue v ei (drvVal k cv) = .ok (v, drvVal k cv)
  written : writtenOk k (asValue cv) (drvVal k cv) = true

theorem childName_textPart (tag : String) (name : Option Str) (t : Str) : childName (textPart tag name t) = name := by
  simp [childName, textPart, alookup, s]

theorem canonPart_textPart (tag : String) (name : Option Str) (t : Str) :
    C03.canonPart (textPart tag name t) =
      { tag := s tag, fields := [(s "name", name), (s "value", C03.canonVal (some t))] } := by
  simp [C03.canonPart, C03.canonFields, C03.cv, textPart, s]

theorem pyStrip_nil : pyStrip [] = [] := by decide

theorem part_spec_text (inproc : Bool) (name t : Str) (h : textOk06 inproc t = true) :
    PartSpec inproc .text name (.text t) (textPart "oneText" (some name) t) := by
  have hval : valueFromPart .text (wirePart inproc (textPart "oneText" (some name) t)) = .ok (drvVal .text (.text t)) := by
    unfold wirePart textOk06 at *
    cases inproc with
    | true =>
      simp only [if_true, Bool.and_eq_true, beq_iff_eq, Bool.not_eq_true', List.isEmpty_eq_false_iff] at h ⊢
      obtain ⟨h1, h2⟩ := h
      have : normVal (some t) = some t := by
        simp only [normVal, h1]
        cases t with
        | nil => exact absurd rfl h2
        | cons a l => rfl
      simp [valueFromPart, textPart, valueOf, alookup, s, drvVal, this]
    | false =>
      simp only [Bool.false_eq_true, if_false, Bool.or_eq_true, Bool.not_eq_true'] at h ⊢
      rw [canonPart_textPart]
      cases t with
      | nil => simp [valueFromPart, valueOf, alookup, s, drvVal, C03.canonVal, normVal, pyStrip_nil]
      | cons a l =>
        have h' : (pyStrip (a :: l)).isEmpty = false := by
          rcases h with h | h
          · cases h
          · exact h
        simp [valueFromPart, valueOf, alookup, s, drvVal, C03.canonVal, normVal, h']
  refine ⟨rfl, ?_, accepted_text _ _, fun _ => validPart_text _ _, fun _ => hval, ?_, ?_, ?_⟩
  · unfold wirePart
    split
    · exact childName_textPart _ _ _
    · rw [canonPart_textPart]; simp [childName, alookup, s]
  · intro _
    unfold drvVal
    simp only
    split <;> rfl
  · intro _ v ei hk
    unfold checkValue
    rw [hk]
  · unfold drvVal writtenOk asValue
    simp only
    cases normVal (some t) <;> simp


theorem part_spec_number (inproc : Bool) (name t : Str) (h : numOk06 t = true) :
    PartSpec inproc .number name (.text t) (textPart "oneNumber" (some name) t) := by
  have hno : numberOk t = true := by
    simp only [numOk06, Bool.and_eq_true] at h; exact h.1
  obtain ⟨hne, _⟩ := numberCore_strip t hno
  obtain ⟨x, isInt, hx, hbig, hw⟩ := number_written t h
  have hparse : ∃ nv, Num.strToNum Num.exactIEEE t = .ok nv := by
    unfold numVal at hx
    cases hs : Num.strToNum Num.exactIEEE t with
    | ok nv => exact ⟨nv, rfl⟩
    | valueError => rw [hs] at hx; cases hx
    | assertionError => rw [hs] at hx; cases hx
    | unsupported => rw [hs] at hx; cases hx
  obtain ⟨nv, hs⟩ := hparse
  have hval : valueFromPart .number (wirePart inproc (textPart "oneNumber" (some name) t)) = .ok (drvVal .number (.text t)) := by
    unfold wirePart
    cases inproc with
    | true =>
      simp only [if_true]
      cases nv <;> simp [valueFromPart, textPart, valueOf, alookup, s, drvVal, numVal, hs]
    | false =>
      simp only [Bool.false_eq_true, if_false]
      rw [canonPart_textPart]
      have hc : C03.canonVal (some t) = some (pyStrip t) := by
        cases t with
        | nil => exact absurd rfl hne
        | cons a l => rfl
      have hs' := (strToNum_strip Num.exactIEEE t).trans hs
      cases nv <;> simp [valueFromPart, valueOf, alookup, s, drvVal, numVal, hc, hs, hs']
  refine ⟨rfl, ?_, accepted_number _ _ hno, fun _ => validPart_number _ _ hno, fun _ => hval, ?_, ?_, ?_⟩
  · unfold wirePart
    split
    · exact childName_textPart _ _ _
    · rw [canonPart_textPart]; simp [childName, alookup, s]
  · intro _
    show typeOk .number (numVal t) = true
    rw [hx]; rfl
  · intro _ v ei hk
    show checkValue v ei (numVal t) = .ok (v, numVal t)
    rw [hx]
    unfold checkValue
    rw [hk]
    simp [hbig]
  · exact hw

theorem part_spec_blob (inproc : Bool) (name : Str) (bs : List Nat) (f : Option Str)
    (h : (bs.all (· < 256) && (inproc || f.isSome)) = true) :
    PartSpec inproc .blob name (.blob bs f) (blobPart (some name) bs f) := by
  simp only [Bool.and_eq_true, List.all_eq_true, decide_eq_true_eq, Bool.or_eq_true] at h
  obtain ⟨hb, hf⟩ := h
  have e0 : blobPart (some name) bs f = blobPart' (some name) (some (B64.encode bs)) bs.length f := rfl
  have hval : valueFromPart .blob (wirePart inproc (blobPart (some name) bs f)) = .ok (drvVal .blob (.blob bs f)) := by
    unfold wirePart
    split
    · rw [e0]; exact valueFromPart_read _ _ bs f hb rfl
    · rw [canonPart_blobPart]; exact valueFromPart_read _ _ bs f hb (canonVal_encode bs)
  refine ⟨rfl, ?_, accepted_blob _ _ _, ?_, fun _ => hval, fun _ => rfl, ?_, ?_⟩
  · unfold wirePart
    split
    · simp [childName, blobPart, alookup, s]
    · rw [canonPart_blobPart]; simp [childName, blobPart', alookup, s]
  · intro hin
    rcases hf with hf | hf
    · rw [hin] at hf; cases hf
    · obtain ⟨f', rfl⟩ := Option.isSome_iff_exists.1 hf
      exact validPart_blob name _ _ f'
  · intro _ v ei hk
    unfold checkValue
    rw [hk]
  · simp [writtenOk, asValue, drvVal]

theorem part_spec_switch (inproc : Bool) (name t : Str) (h : (t == s "On" || t == s "Off") = true) :
    PartSpec inproc .switch name (.text t) (textPart "oneSwitch" (some name) t) := by
  have h' : t = s "On" ∨ t = s "Off" := by simpa using h
  refine ⟨rfl, ?_, accepted_switch _ _ h', fun _ => validPart_switch _ _ h', fun hk => absurd rfl hk,
    fun hk => absurd rfl hk, fun hk => absurd rfl hk, rfl⟩
  unfold wirePart
  split
  · exact childName_textPart _ _ _
  · rw [canonPart_textPart]; simp [childName, alookup, s]

/-- **one submitted value**: the part the client builds for it, and what the driver makes of that part -/
theorem part_spec (inproc : Bool) (k : Kind) (name : Str) (cv : CVal) (h : valOk06 inproc k cv = true) :
    ∃ p, newPart (vkind k) (some name) cv = some p ∧ PartSpec inproc k name cv p := by
  cases k <;> cases cv <;> simp only [valOk06] at h <;> try (exact absurd h (by decide))
  · exact ⟨_, rfl, part_spec_text inproc name _ h⟩
  · exact ⟨_, rfl, part_spec_number inproc name _ h⟩
  · exact ⟨_, rfl, part_spec_switch inproc name _ h⟩
  · exact ⟨_, rfl, part_spec_blob inproc name _ _ h⟩

/-! ### the side conditions of C06 -/

/-- one assignment `(name, value)` of the client is in order for the property `v` -/
def writeOk06 (inproc : Bool) (v : Vec) (w : Str × CVal) : Bool :=
  -- exactly one element of the property has the name (a second one - even a disabled one - would capture the write:
  -- `vector._elements_by_name` keeps the last element of a name, the client addresses the enabled one it knows) ...
  match v.elems.filter (fun e => e.d.name == w.1) with
  | [e] =>
    -- ... it is enabled (a disabled element is not in the client's mirror: assigning to it raises KeyError),
    e.enabled &&
    -- none of its plain Write handlers vetoes (`prevent_default`: by design the element keeps its value),
    noVeto e.d &&
    -- and the value is in the property's domain
    valOk06 inproc v.kind w.2
  | _ => false

/-- the submitted values are in the addressed property's domain; `inproc`: the submitting peer is in-process -/
def writesOkFor (inproc : Bool) (d : Device) (prop : Str) (writes : List (Str × CVal)) : Bool :=
  match findVecByName d prop with
  | none => false                      -- the device has no such property (the client cannot address it)
  | some (gi, vi) =>
    match getVec d gi vi with
    | none => false
    | some (g, v) =>
      -- the property is enabled (a disabled property is not in the client's mirror) and can be written
      vecEnabled g v && v.kind != .light &&
      -- no enabled element of the property has a refreshing Read handler: publishing the update reads every
      -- enabled element, and a Read handler's `reset_value` overrides what was written / changes a sibling
      (v.elems.all fun e => !e.enabled || e.d.refresh.isNone) &&
      writes.all (writeOk06 inproc v)

/-- side condition of C06 on the drivers: property names are distinct within each driver (part of `Spec.Dev.WF`;
`driver._vectors` is keyed by name, so of two properties with one name only the last can be written, while the
client's mirror shows one entry for both) -/
def worldOk06 (devs : List Device) : Bool := devs.all namesDistinct

theorem filter_singleton {α : Type} (p : α → Bool) (l : List α) (e : α) (h : l.filter p = [e]) :
    e ∈ l ∧ p e = true ∧ ∀ (i j : Nat) x y, l[i]? = some x → l[j]? = some y → p x = true → p y = true → i = j := by
  have hm : e ∈ l.filter p := by rw [h]; simp
  obtain ⟨h1, h2⟩ := List.mem_filter.1 hm
  refine ⟨h1, h2, ?_⟩
  intro i j x y hx hy px py
  exact idx_of_nodup_filter p (fun _ => ()) l (by rw [h]; simp) i j x y hx hy px py rfl

structure WriteSpec (inproc : Bool) (v : Vec) (n : Str) (cv : CVal) : Prop where
  ex : ∃ e ∈ v.elems, e.d.name = n ∧ e.enabled = true ∧ noVeto e.d = true
  uniq : UniqueName (v.elems.map (·.d)) n
  val : valOk06 inproc v.kind cv = true

theorem writeOk06_spec {inproc : Bool} {v : Vec} {w : Str × CVal} (h : writeOk06 inproc v w = true) :
    WriteSpec inproc v w.1 w.2 := by
  unfold writeOk06 at h
  split at h
  · rename_i e hf
    simp only [Bool.and_eq_true] at h
    obtain ⟨he, hp, hu⟩ := filter_singleton _ _ _ hf
    refine ⟨⟨e, he, by simpa using hp, h.1.1, h.1.2⟩, ?_, h.2⟩
    intro i j a b ha hb hna hnb
    rw [List.getElem?_map] at ha hb
    cases hx : v.elems[i]? with
    | none => rw [hx] at ha; cases ha
    | some x =>
      cases hy : v.elems[j]? with
      | none => rw [hy] at hb; cases hb
      | some y =>
        rw [hx] at ha; rw [hy] at hb
        simp only [Option.map_some, Option.some.injEq] at ha hb
        subst ha; subst hb
        exact hu i j x y hx hy (by simpa using hna) (by simpa using hnb)
  · cases h

structure WritesSpec (inproc : Bool) (d : Device) (prop : Str) (writes : List (Str × CVal))
    (gi vi : Nat) (g : Group) (v : Vec) : Prop where
  find : findVecByName d prop = some (gi, vi)
  get : getVec d gi vi = some (g, v)
  name : v.name = prop
  enabled : vecEnabled g v = true
  notLight : v.kind ≠ .light
  norefresh : ∀ e ∈ v.elems, e.enabled = true → e.d.refresh = none
  each : ∀ w ∈ writes, WriteSpec inproc v w.1 w.2

theorem writesOkFor_spec {inproc : Bool} {d : Device} {prop : Str} {writes : List (Str × CVal)}
    (h : writesOkFor inproc d prop writes = true) : ∃ gi vi g v, WritesSpec inproc d prop writes gi vi g v := by
  unfold writesOkFor at h
  split at h
  · cases h
  · rename_i gi vi hf
    split at h
    · cases h
    · rename_i g v hg
      simp only [Bool.and_eq_true, List.all_eq_true, bne_iff_ne, ne_eq, Bool.or_eq_true, Bool.not_eq_true'] at h
      obtain ⟨⟨⟨h1, h2⟩, h3⟩, h4⟩ := h
      obtain ⟨g', v', k1, k2⟩ := findVecByName_some hf
      rw [hg] at k1; cases k1
      refine ⟨gi, vi, g, v, hf, hg, k2, h1, h2, ?_, fun w hw => writeOk06_spec (h4 w hw)⟩
      intro e he hen
      rcases h3 e he with h | h
      · rw [h] at hen; cases hen
      · cases hr : e.d.refresh with
        | none => rfl
        | some x => rw [hr] at h; cases h

/-! ### the message a synchronised client submits -/

/-- the children of the submitted message, in terms of the driver's enabled elements -/
def partsOf (k : Kind) (writes : List (Str × CVal)) (en : List Dev.Elem) : List Part :=
  en.filterMap fun e => (pendingOf writes (some e.d.name)).bind (newPart (vkind k) (some e.d.name))

theorem filterMap_congr_fun {α β : Type} (F G : α → Option β) (l : List α) (h : ∀ x, F x = G x) :
    l.filterMap F = l.filterMap G := by
  have : F = G := funext h
  rw [this]

theorem filterMap_eq_of_index {α β γ : Type} (f : α → Option γ) (g : β → Option γ) :
    ∀ (l1 : List α) (l2 : List β), l1.length = l2.length →
      (∀ (i : Nat) a b, l1[i]? = some a → l2[i]? = some b → f a = g b) → l1.filterMap f = l2.filterMap g
  | [], [], _, _ => rfl
  | [], _ :: _, h, _ => by simp at h
  | _ :: _, [], h, _ => by simp at h
  | a :: l1, b :: l2, hl, h => by
    have h0 : f a = g b := h 0 a b rfl rfl
    have ih := filterMap_eq_of_index f g l1 l2 (by simpa using hl)
      (fun i x y hx hy => h (i + 1) x y (by simpa using hx) (by simpa using hy))
    simp only [List.filterMap_cons, h0, ih]

theorem pendingOf_mem {writes : List (Str × CVal)} {n : Str} {cv : CVal} (h : pendingOf writes (some n) = some cv) :
    (n, cv) ∈ writes := by
  unfold pendingOf at h
  simp only [Option.map_eq_some_iff] at h
  obtain ⟨w, hw, rfl⟩ := h
  have h1 := List.find?_some hw
  have h2 := List.mem_of_find?_eq_some hw
  have : w.1 = n := by simpa using h1
  rw [← this]
  exact List.mem_reverse.1 h2

theorem newTag_vkind (k : Kind) : newTagOf (vkind k) = newTag k := by cases k <;> rfl

/-- what every child of the submitted message is -/
structure ChildSpec (inproc : Bool) (k : Kind) (writes : List (Str × CVal)) (en : List Dev.Elem) (p : Part) : Prop where
  ex : ∃ e ∈ en, ∃ cv, pendingOf writes (some e.d.name) = some cv ∧ PartSpec inproc k e.d.name cv p

theorem partsOf_spec {inproc : Bool} {v : Vec} {writes : List (Str × CVal)}
    (hw : ∀ w ∈ writes, WriteSpec inproc v w.1 w.2) (en : List Dev.Elem) :
    ∀ p ∈ partsOf v.kind writes en, ChildSpec inproc v.kind writes en p := by
  intro p hp
  unfold partsOf at hp
  obtain ⟨e, he, hpe⟩ := List.mem_filterMap.1 hp
  cases hcv : pendingOf writes (some e.d.name) with
  | none => rw [hcv] at hpe; cases hpe
  | some cv =>
    rw [hcv] at hpe
    have hws := hw _ (pendingOf_mem hcv)
    obtain ⟨p', hp', hspec⟩ := part_spec inproc v.kind e.d.name cv hws.val
    simp only [Option.bind_some] at hpe
    rw [hp'] at hpe; cases hpe
    exact ⟨e, he, cv, hcv, hspec⟩

theorem partsOf_mem {inproc : Bool} {v : Vec} {writes : List (Str × CVal)}
    (hw : ∀ w ∈ writes, WriteSpec inproc v w.1 w.2) (en : List Dev.Elem) (e : Dev.Elem) (he : e ∈ en) (cv : CVal)
    (hcv : pendingOf writes (some e.d.name) = some cv) :
    ∃ p ∈ partsOf v.kind writes en, PartSpec inproc v.kind e.d.name cv p := by
  have hws := hw _ (pendingOf_mem hcv)
  obtain ⟨p', hp', hspec⟩ := part_spec inproc v.kind e.d.name cv hws.val
  refine ⟨p', ?_, hspec⟩
  unfold partsOf
  apply List.mem_filterMap.2
  exact ⟨e, he, by rw [hcv]; exact hp'⟩

/-- **what a synchronised client submits** -/
theorem submit_spec {blobs inproc : Bool} {d : Device} {σ : Mirror} (hs : synced blobs d σ = true)
    {prop : Str} {writes : List (Str × CVal)} {gi vi : Nat} {g : Group} {v : Vec}
    (hw : WritesSpec inproc d prop writes gi vi g v) :
    ∃ tag, newTag v.kind = some tag ∧
      submitMsg Generated.registry σ d.name prop writes =
        some (newMsg tag d.name prop (partsOf v.kind writes (enabledElems v))) := by
  obtain ⟨cd, c, h1, h2, h3⟩ := synced_vec hs (mem_allVecs hw.get) hw.enabled
  obtain ⟨k1, k2, k3, k4⟩ := vecShown_spec h3
  have htag : ∃ tag, newTag v.kind = some tag := by
    have := hw.notLight
    cases hk : v.kind <;> simp_all [newTag]
  obtain ⟨tag, htag⟩ := htag
  refine ⟨tag, htag, ?_⟩
  have hparts : (c.elems.filterMap fun ne => (pendingOf writes ne.1).bind (newPart (vkind v.kind) ne.2.name)) =
      partsOf v.kind writes (enabledElems v) := by
    unfold partsOf
    apply filterMap_eq_of_index _ _ _ _ k3
    intro i ce e hce he
    obtain ⟨q1, q2⟩ := k4 i e ce he hce
    rw [q1, q2]
  have hall : (writes.all fun w => (olook (some w.1) c.elems).isSome) = true := by
    rw [List.all_eq_true]
    intro w hwm
    obtain ⟨e, he, hn, hen, _⟩ := (hw.each w hwm).ex
    have hmem : e ∈ enabledElems v := List.mem_filter.2 ⟨he, hen⟩
    obtain ⟨i, hi⟩ := List.mem_iff_getElem?.1 hmem
    obtain ⟨ce, hce⟩ := getElem?_some_of_length_eq k3 hi
    have := olook_isSome_of_key c.elems i ce hce
    rw [(k4 i e ce hi hce).1, hn] at this
    exact this
  have hacc : ((partsOf v.kind writes (enabledElems v)).all (partAccepted Generated.registry)) = true := by
    rw [List.all_eq_true]
    intro p hp
    obtain ⟨e, _, cv, _, hspec⟩ := (partsOf_spec hw.each _ p hp).ex
    exact hspec.accepted
  have hname := hw.name
  subst hname
  unfold submitMsg
  simp only [h1, h2, hall, Bool.not_true, Bool.false_eq_true, if_false, k1, newTag_vkind, htag]
  rw [filterMap_congr_fun _ (fun ne => (pendingOf writes ne.1).bind (newPart (vkind v.kind) ne.2.name)) c.elems
    (fun ne => by cases pendingOf writes ne.1 <;> rfl)]
  simp only [hparts, hacc, Bool.not_true, Bool.false_eq_true, if_false, k2]
  rfl

/-! ### the message on the wire and in the driver -/

theorem newTag_cases {k : Kind} {tag : Str} (h : newTag k = some tag) :
    (k = .text ∧ tag = s "newTextVector") ∨ (k = .number ∧ tag = s "newNumberVector") ∨
    (k = .switch ∧ tag = s "newSwitchVector") ∨ (k = .blob ∧ tag = s "newBLOBVector") := by
  cases k <;> simp [newTag] at h <;> simp [h]

/-- a network peer's message is read by the router exactly as `C03.canon` says -/
theorem wire_newMsg {k : Kind} {tag : Str} (htag : newTag k = some tag) (dev prop : Str) (ps : List Part)
    (hps : ∀ p ∈ ps, p.tag = oneTagOf k ∧ validPart Generated.registry p = true) :
    wire Generated.registry (newMsg tag dev prop ps) = some (newMsg tag dev prop (ps.map C03.canonPart)) := by
  have hv : valid Generated.registry (newMsg tag dev prop ps) = true := by
    rcases newTag_cases htag with ⟨rfl, rfl⟩ | ⟨rfl, rfl⟩ | ⟨rfl, rfl⟩ | ⟨rfl, rfl⟩
    · exact valid_new_aux _ "Text" "oneText" findClass_newText dev prop ps hps
    · exact valid_new_aux _ "Number" "oneNumber" findClass_newNumber dev prop ps hps
    · exact valid_new_aux _ "Switch" "oneSwitch" findClass_newSwitch dev prop ps hps
    · exact valid_new_aux _ "BLOB" "oneBLOB" findClass_newBLOB dev prop ps hps
  unfold wire
  rw [C03.msg_canon C03.regW_generated hv, canon_newMsg]

/-- the driver hands the children of a `new*Vector` for one of its properties to that property -/
theorem fromClient_newMsg {d : Device} {gi vi : Nat} {g : Group} {v : Vec} {tag : Str} (dev : Str)
    (hf : findVecByName d v.name = some (gi, vi)) (hg : getVec d gi vi = some (g, v))
    (htag : newTag v.kind = some tag) (ps : List Part) :
    fromClient d (newMsg tag dev v.name ps) = applyChildren gi vi d ps := by
  have h1 : tag ≠ s "getProperties" ∧ tag.take 3 = s "new" := by
    rcases newTag_cases htag with ⟨_, rfl⟩ | ⟨_, rfl⟩ | ⟨_, rfl⟩ | ⟨_, rfl⟩ <;> decide
  unfold fromClient
  have hn : (alookup (s "name") (newMsg tag dev v.name ps).fields).getD none = some v.name := by
    simp [newMsg, alookup, s]
  simp only [hn, hf, hg]
  simp [newMsg, h1.1, h1.2, htag]

theorem accepts_newMsg (d : Device) (tag dev prop : Str) (ps : List Part) :
    accepts d (newMsg tag dev prop ps) = (dev == d.name) := by
  simp [accepts, newMsg, attr, alookup, s]

/-! ### the elements after the write -/

theorem updAll_none (k : Kind) (ps : List Part) : ∀ (e : Dev.Elem), (∀ p ∈ ps, childName p ≠ some e.d.name) →
    updAll k ps e = e := by
  induction ps with
  | nil => intro e _; rfl
  | cons p ps ih =>
    intro e h
    have h1 : upd1 k p e = e := by
      unfold upd1
      rw [if_neg (h p (List.mem_cons_self ..))]
    show updAll k ps (upd1 k p e) = e
    rw [h1]
    exact ih e (fun q hq => h q (List.mem_cons_of_mem _ hq))

theorem updAll_const (k : Kind) (n : Str) (x : Value) (ps : List Part)
    (hall : ∀ p ∈ ps, childName p = some n → valueFromPart k p = .ok x) :
    ∀ (e : Dev.Elem), e.d.name = n → ((∃ p ∈ ps, childName p = some n) ∨ e.value = x) → (updAll k ps e).value = x := by
  induction ps with
  | nil =>
    intro e _ h
    rcases h with ⟨p, hp, _⟩ | h
    · cases hp
    · exact h
  | cons p ps ih =>
    intro e hn h
    have ih' := ih (fun q hq => hall q (List.mem_cons_of_mem _ hq))
    show (updAll k ps (upd1 k p e)).value = x
    have hd := (upd1_d k p e).1
    by_cases hp : childName p = some n
    · have h1 : (upd1 k p e).value = x := by
        unfold upd1
        rw [hn, if_pos hp, hall p (List.mem_cons_self ..) hp]
      exact ih' _ (by rw [hd]; exact hn) (Or.inr h1)
    · have h1 : upd1 k p e = e := by
        unfold upd1
        rw [hn, if_neg hp]
      rw [h1]
      apply ih' e hn
      rcases h with ⟨q, hq, hqn⟩ | h
      · rcases List.mem_cons.1 hq with rfl | hq
        · exact absurd hqn hp
        · exact Or.inl ⟨q, hq, hqn⟩
      · exact Or.inr h

theorem find_written (writes : List (Str × CVal)) (n : Str) :
    (writes.map fun nv => (nv.1, asValue nv.2)).reverse.find? (fun nv => nv.1 == n) =
      (writes.reverse.find? fun w => w.1 == n).map fun nv => (nv.1, asValue nv.2) := by
  rw [← List.map_reverse, List.find?_map]
  rfl

theorem pendingOf_eq (writes : List (Str × CVal)) (n : Str) :
    pendingOf writes (some n) = (writes.reverse.find? fun w => w.1 == n).map (·.2) := rfl


/-! ### C06 for the addressed device -/

theorem wireParts_spec {inproc : Bool} {v : Vec} {writes : List (Str × CVal)}
    (hw : ∀ w ∈ writes, WriteSpec inproc v w.1 w.2) :
    ∀ q ∈ (partsOf v.kind writes (enabledElems v)).map (wirePart inproc),
      ∃ e ∈ enabledElems v, ∃ cv p, pendingOf writes (some e.d.name) = some cv ∧ q = wirePart inproc p ∧
        PartSpec inproc v.kind e.d.name cv p := by
  intro q hq
  obtain ⟨p, hp, rfl⟩ := List.mem_map.1 hq
  obtain ⟨e, he, cv, hcv, hspec⟩ := (partsOf_spec hw _ p hp).ex
  exact ⟨e, he, cv, p, hcv, rfl, hspec⟩

theorem c06_device {d : Device} (hn : namesDistinct d = true) {inproc : Bool} {prop : Str}
    {writes : List (Str × CVal)} {gi vi : Nat} {g : Group} {v : Vec}
    (hw : WritesSpec inproc d prop writes gi vi g v) :
    c06Holds d d.name prop (writes.map fun nv => (nv.1, asValue nv.2))
      (applyChildren gi vi d ((partsOf v.kind writes (enabledElems v)).map (wirePart inproc))).dev = true := by
  have hname := hw.name
  subst hname
  have hparts := wireParts_spec hw.each
  generalize hps : (partsOf v.kind writes (enabledElems v)).map (wirePart inproc) = ps at hparts
  by_cases hk : v.kind = .switch
  · -- switches: only the shape matters (the values are subject to the rule, C09)
    obtain ⟨v', h1, r⟩ := applyChildren_shape gi vi ps d g v hw.get
    rw [h1]
    apply c06_setVec hn hw.get
    refine ⟨r.state, r.enabled, r.len, ?_⟩
    intro i e e' he he'
    refine ⟨(r.el i e e' he he').2.1, ?_⟩
    simp only [beq_self_eq_true, if_true, find_written]
    cases hf : (writes.reverse.find? fun w => w.1 == e.d.name) with
    | none => simp [hk]
    | some w =>
      have hwm : w ∈ writes := List.mem_reverse.1 (List.mem_of_find?_eq_some hf)
      have hv := (hw.each w hwm).val
      rw [hk] at hv
      simp only [Option.map_some, hk]
      cases hw2 : w.2 <;> simp [valOk06, hw2] at hv
      simp [asValue, writtenOk]
  · -- other kinds: the exact effect
    have hPartOk : ∀ q ∈ ps, PartOk v.kind (v.elems.map (·.d)) q := by
      intro q hq
      obtain ⟨e, he, cv, p, hcv, rfl, hspec⟩ := hparts q hq
      have hws := hw.each _ (pendingOf_mem hcv)
      obtain ⟨e1, he1, hn1, _, hveto⟩ := hws.ex
      exact ⟨e.d.name, drvVal v.kind cv, hspec.wname, ⟨e1.d, List.mem_map.2 ⟨e1, he1, rfl⟩, hn1, hveto⟩, hws.uniq,
        hspec.value hk, hspec.type hk, hspec.check hk⟩
    rw [applyChildren_exact gi vi v.kind (v.elems.map (·.d)) ps d g v hw.get ⟨rfl, rfl, hw.norefresh⟩ hPartOk]
    apply c06_setVec hn hw.get
    refine ⟨rfl, rfl, by simp, ?_⟩
    intro i e e' he he'
    simp only [List.getElem?_map, he, Option.map_some, Option.some.injEq] at he'
    subst he'
    refine ⟨(updAll_d v.kind ps e).2, ?_⟩
    simp only [beq_self_eq_true, if_true, find_written]
    cases hf : (writes.reverse.find? fun w => w.1 == e.d.name) with
    | none =>
      have hpend : pendingOf writes (some e.d.name) = none := by rw [pendingOf_eq, hf]; rfl
      have : updAll v.kind ps e = e := by
        apply updAll_none
        intro q hq hqn
        obtain ⟨e2, _, cv, p, hcv, rfl, hspec⟩ := hparts q hq
        rw [hspec.wname] at hqn
        rw [Option.some.inj hqn, hpend] at hcv
        cases hcv
      simp [this]
    | some w =>
      have hpend : pendingOf writes (some e.d.name) = some w.2 := by rw [pendingOf_eq, hf]; rfl
      have hws := hw.each _ (pendingOf_mem hpend)
      -- the element named is `e` itself, so it is enabled and its part is among the children
      obtain ⟨e1, he1, hn1, hen1, _⟩ := hws.ex
      have hee : e1 = e := by
        obtain ⟨i1, hi1⟩ := List.mem_iff_getElem?.1 he1
        have hD : ∀ (j : Nat) x, v.elems[j]? = some x → (v.elems.map (·.d))[j]? = some x.d := by
          intro j x hj; rw [List.getElem?_map, hj]; rfl
        have := hws.uniq i1 i _ _ (hD _ _ hi1) (hD _ _ he) hn1 rfl
        subst this
        rw [he] at hi1; exact (Option.some.inj hi1).symm
      subst hee
      have hmem : e1 ∈ enabledElems v := List.mem_filter.2 ⟨he1, hen1⟩
      obtain ⟨p0, hp0, hspec0⟩ := partsOf_mem hw.each (enabledElems v) e1 hmem w.2 hpend
      have hval : (updAll v.kind ps e1).value = drvVal v.kind w.2 := by
        apply updAll_const v.kind e1.d.name (drvVal v.kind w.2) ps _ e1 rfl
        · left
          refine ⟨wirePart inproc p0, ?_, hspec0.wname⟩
          rw [← hps]
          exact List.mem_map.2 ⟨p0, hp0, rfl⟩
        · intro q hq hqn
          obtain ⟨e2, _, cv, p, hcv, rfl, hspec⟩ := hparts q hq
          rw [hspec.wname] at hqn
          have h2 : e2.d.name = e1.d.name := Option.some.inj hqn
          rw [h2, hpend] at hcv
          cases hcv
          exact hspec.value hk
      simp only [Option.map_some, hval]
      exact hspec0.written

/-! ### the deployment -/

theorem toDevices_spec (m : Msg) : ∀ (ds : List Device),
    (toDevices ds m).1.length = ds.length ∧
    ∀ (i : Nat) d, ds[i]? = some d →
      (toDevices ds m).1[i]? = some (if accepts d m then (fromClient d m).dev else d)
  | [] => ⟨rfl, fun i d h => by simp at h⟩
  | d0 :: ds => by
    obtain ⟨ih1, ih2⟩ := toDevices_spec m ds
    have hcons : (toDevices (d0 :: ds) m).1 =
        (if accepts d0 m then (fromClient d0 m).dev else d0) :: (toDevices ds m).1 := by
      simp only [toDevices]
      split <;> rfl
    rw [hcons]
    refine ⟨by simp [ih1], ?_⟩
    intro i d hi
    cases i with
    | zero =>
      simp only [List.getElem?_cons_zero, Option.some.injEq] at hi
      subst hi; rfl
    | succ i =>
      simp only [List.getElem?_cons_succ] at hi ⊢
      exact ih2 i d hi

theorem c06_other (d : Device) (dev prop : Str) (written : List (Str × Value)) (h : d.name ≠ dev) :
    c06Holds d dev prop written d = true := by
  unfold c06Holds
  have : (d.name != dev) = true := by simpa using h
  simp [this]

theorem submitMsg_some_dev {σ : Mirror} {dev prop : Str} {writes : List (Str × CVal)} {m : Msg}
    (h : submitMsg Generated.registry σ dev prop writes = some m) : ∃ cd, olook (some dev) σ = some cd := by
  unfold submitMsg at h
  cases hl : olook (some dev) σ with
  | none => rw [hl] at h; cases h
  | some cd => exact ⟨cd, rfl⟩

theorem newMsg_inj {t1 t2 d1 d2 p1 p2 : Str} {ps1 ps2 : List Part} (h : newMsg t1 d1 p1 ps1 = newMsg t2 d2 p2 ps2) :
    t1 = t2 ∧ ps1 = ps2 := by
  unfold newMsg at h
  simp only [Msg.mk.injEq, Option.some.injEq] at h
  exact ⟨h.1, h.2.2⟩

theorem map_wirePart_false (ps : List Part) : ps.map (wirePart false) = ps.map C03.canonPart := by
  apply List.map_congr_left
  intro p _
  simp [wirePart]

theorem map_wirePart_true (ps : List Part) : ps.map (wirePart true) = ps := by
  conv => rhs; rw [← List.map_id ps]
  apply List.map_congr_left
  intro p _
  simp [wirePart]

/-- **C06**, for the peer's kind -/
theorem write_core (w : World) (ci : Nat) (dev prop : Str) (writes : List (Str × CVal))
    (hok : worldOk06 w.devs = true) (hs : allSynced w = true) (p : Peer) (hp : w.peers[ci]? = some p)
    (hw : ∀ d ∈ w.devs, d.name = dev → writesOkFor p.inproc d prop writes = true) :
    (react Generated.registry w (.write ci dev prop writes)).1.length = w.devs.length ∧
    ∀ pr ∈ w.devs.zip (react Generated.registry w (.write ci dev prop writes)).1,
      c06Holds pr.1 dev prop (writes.map fun nv => (nv.1, asValue nv.2)) pr.2 = true := by
  have hpm : p ∈ w.peers := List.mem_of_getElem? hp
  simp only [allSynced, List.all_eq_true, peerSynced, Bool.and_eq_true] at hs
  obtain ⟨hsync, hmir⟩ := hs p hpm
  simp only [worldOk06, List.all_eq_true] at hok
  -- what every device named `dev` tells about the submitted message
  have hdev : ∀ d ∈ w.devs, d.name = dev → ∃ gi vi g v tag, WritesSpec p.inproc d prop writes gi vi g v ∧
      newTag v.kind = some tag ∧
      submitMsg Generated.registry p.mirror dev prop writes =
        some (newMsg tag dev prop (partsOf v.kind writes (enabledElems v))) := by
    intro d hd hn
    obtain ⟨gi, vi, g, v, hspec⟩ := writesOkFor_spec (hw d hd hn)
    obtain ⟨tag, htag, hsub⟩ := submit_spec (hsync d hd) hspec
    rw [hn] at hsub
    exact ⟨gi, vi, g, v, tag, hspec, htag, hsub⟩
  simp only [react, hp]
  cases hsub : submitMsg Generated.registry p.mirror dev prop writes with
  | none =>
    refine ⟨rfl, ?_⟩
    rintro ⟨d, d'⟩ hpr
    obtain ⟨i, hi⟩ := List.mem_iff_getElem?.1 hpr
    rw [List.getElem?_zip_eq_some] at hi
    obtain ⟨h1, h2⟩ := hi
    simp only at h1 h2
    rw [h1] at h2; cases h2
    by_cases hn : d.name = dev
    · obtain ⟨_, _, _, _, _, _, _, hsome⟩ := hdev d (List.mem_of_getElem? h1) hn
      rw [hsub] at hsome; cases hsome
    · exact c06_other d dev prop _ hn
  | some m =>
    -- some device is named `dev`: the mirror knows it
    obtain ⟨cd, hcd⟩ := submitMsg_some_dev hsub
    have := hmir _ (olook_mem _ _ _ hcd)
    simp only [List.any_eq_true, beq_iff_eq, Option.some.injEq] at this
    obtain ⟨d0, hd0, hn0⟩ := this
    obtain ⟨gi0, vi0, g0, v0, tag0, hspec0, htag0, hsub0⟩ := hdev d0 hd0 hn0
    rw [hsub] at hsub0
    have hm : m = newMsg tag0 dev prop (partsOf v0.kind writes (enabledElems v0)) := Option.some.inj hsub0
    -- what the router hands to the drivers
    have hwire : (if p.inproc then some m else wire Generated.registry m) =
        some (newMsg tag0 dev prop ((partsOf v0.kind writes (enabledElems v0)).map (wirePart p.inproc))) := by
      cases hin : p.inproc with
      | true => rw [map_wirePart_true, hm]; rfl
      | false =>
        simp only [Bool.false_eq_true, if_false]
        rw [map_wirePart_false, hm]
        apply wire_newMsg htag0
        intro q hq
        obtain ⟨e, _, cv, _, hps⟩ := (partsOf_spec hspec0.each _ q hq).ex
        exact ⟨hps.tag, hps.valid hin⟩
    simp only [fromPeer, hwire]
    obtain ⟨hlen, hget⟩ := toDevices_spec
      (newMsg tag0 dev prop ((partsOf v0.kind writes (enabledElems v0)).map (wirePart p.inproc))) w.devs
    refine ⟨hlen, ?_⟩
    rintro ⟨d, d'⟩ hpr
    obtain ⟨i, hi⟩ := List.mem_iff_getElem?.1 hpr
    rw [List.getElem?_zip_eq_some] at hi
    obtain ⟨h1, h2⟩ := hi
    simp only at h1 h2
    rw [hget i d h1, Option.some.injEq, accepts_newMsg] at h2
    subst h2
    by_cases hn : d.name = dev
    · obtain ⟨gi, vi, g, v, tag, hspec, htag, hsubd⟩ := hdev d (List.mem_of_getElem? h1) hn
      rw [hsub, hm, Option.some.injEq] at hsubd
      obtain ⟨rfl, hps⟩ := newMsg_inj hsubd
      have hacc : (dev == d.name) = true := by simp [hn]
      simp only [hacc, if_true]
      rw [hps]
      have hvn := hspec.name
      subst hvn
      rw [fromClient_newMsg dev hspec.find hspec.get htag]
      rw [← hn]
      exact c06_device (hok d (List.mem_of_getElem? h1)) hspec
    · have hacc : (dev == d.name) = false := by
        simp only [beq_eq_false_iff_ne, ne_eq]
        exact fun h => hn h.symm
      simp only [hacc, Bool.false_eq_true, if_false]
      exact c06_other d dev prop _ hn

end Indi.Sys
