/-
  Helper lemmas for C11b: resynchronisation after a corrupt prefix.
  (The lemmas for junk gaps of any length — `StreamOk2`, `Inv2`, `session_stream2` —
  are in Indi/Proofs/Buf.lean, because C02 is now derived from them.)
-/
import Indi.Spec.Buf2
import Indi.Proofs.Buf

namespace Indi.Buf

variable {M : Type}

/-! ### resynchronisation after a corrupt prefix -/

/-- cleaning up `P.drop i` either stops at a position before `n`, or is the clean-up of `P.drop n` -/
theorem cleanup_drop_cases (tags : List Str) (P : Str) :
    ∀ (d i n : Nat), n = i + d → n ≤ P.length →
      (∃ k, i ≤ k ∧ k < n ∧ cleanup tags (P.drop i) = P.drop k) ∨
        cleanup tags (P.drop i) = cleanup tags (P.drop n) := by
  intro d
  induction d with
  | zero => intro i n hn _; right; simp at hn; rw [hn]
  | succ d ih =>
    intro i n hn hle
    have hi : i < P.length := by omega
    have hd : P.drop i = P[i] :: P.drop (i + 1) := List.drop_eq_getElem_cons hi
    rw [hd, cleanup_cons]
    split
    · exact Or.inl ⟨i, Nat.le_refl _, by omega, hd.symm⟩
    · split
      · exact Or.inl ⟨i, Nat.le_refl _, by omega, hd.symm⟩
      · rcases ih (i + 1) n (by omega) hle with ⟨k, h1, h2, h3⟩ | h
        · exact Or.inl ⟨k, by omega, h2, h3⟩
        · exact Or.inr h

/-- nothing is found in data that starts inside the corrupt prefix -/
theorem findMessage_corrupt (parse : Str → ParseRes M) (c S : Str) (hc : Corrupt parse c)
    (P : Str) (hP : P <+: c ++ S) (i : Nat) (hi : i < c.length) :
    findMessage parse (P.drop i) = .nothing := by
  apply findMessage_nothing_of_prefixes
  intro k
  apply hc i hi
  have h1 : (P.drop i).take k <+: c.drop i ++ S := by
    have h2 : P.drop i <+: (c ++ S).drop i := by
      obtain ⟨u, hu⟩ := hP
      rw [← hu, List.drop_append]
      exact List.prefix_append _ _
    rw [List.drop_append_of_le_length (by omega)] at h2
    exact (List.take_prefix _ _).trans h2
  exact List.prefix_or_prefix_of_prefix h1 (List.prefix_append _ _)

/-- `processLoop` on data starting inside the corrupt prefix: either nothing is delivered and the
retained data still starts inside it, or the loop gets past it and continues on the clean-up of
the valid part -/
theorem processLoop_corrupt (parse : Str → ParseRes M) (tags : List Str) (t : Nat)
    (c S : Str) (hc : Corrupt parse c) (P : Str) (hP : P <+: c ++ S) (data : Str) :
    ∀ i, i < c.length → i ≤ P.length → data = P.drop i →
      (∃ j, j < c.length ∧ j ≤ P.length ∧
          processLoop parse tags (some t) data = ([], P.drop j)) ∨
        (c.length ≤ P.length ∧
          processLoop parse tags (some t) data =
            processLoop parse tags (some t) (cleanup tags (P.drop c.length))) := by
  induction data using processLoop.induct parse tags (some t) with
  | case1 =>
    intro i hi hiP hd
    exact Or.inl ⟨i, hi, hiP, by rw [processLoop_nil, ← hd]⟩
  | case2 data hne m rest hf ih =>
    intro i hi hiP hd
    rw [hd, findMessage_corrupt parse c S hc P hP i hi] at hf
    cases hf
  | case3 data hne rest hf ih =>
    intro i hi hiP hd
    rw [hd, findMessage_corrupt parse c S hc P hP i hi] at hf
    cases hf
  | case4 data hne hf t' ht hgt ih =>
    cases ht
    intro i hi hiP hd
    rw [processLoop_drop _ _ _ _ hf hgt]
    have hiP' : i < P.length := by
      rcases Nat.lt_or_ge i P.length with h | h
      · exact h
      · exfalso; apply hne; rw [hd]; exact List.drop_eq_nil_of_le h
    have htail : data.tail = P.drop (i + 1) := by
      rw [hd, List.tail_drop]
    by_cases hcp : c.length ≤ P.length
    · rcases cleanup_drop_cases tags P (c.length - (i + 1)) (i + 1) c.length (by omega) hcp with
        ⟨k, h1, h2, h3⟩ | h
      · exact ih k h2 (by omega) (by rw [htail, h3])
      · right
        exact ⟨hcp, by rw [htail, h]⟩
    · rcases cleanup_drop_cases tags P (P.length - (i + 1)) (i + 1) P.length (by omega)
        (Nat.le_refl _) with ⟨k, h1, h2, h3⟩ | h
      · exact ih k (by omega) (by omega) (by rw [htail, h3])
      · left
        refine ⟨P.length, by omega, Nat.le_refl _, ?_⟩
        rw [htail, h]
        simp [cleanup_nil, processLoop_nil]
  | case5 data hne hf t' ht hle =>
    cases ht
    intro i hi hiP hd
    refine Or.inl ⟨i, hi, hiP, ?_⟩
    rw [processLoop_keep _ _ _ _ hf (by simp only [fits]; omega), hd]
  | case6 data hne hf ht => cases ht

/-- one `feed` while the buffer starts inside the corrupt prefix -/
theorem feed_corrupt (parse : Str → ParseRes M) (tags : List Str) (t : Nat)
    (c S : Str) (hc : Corrupt parse c) (P q : Str) (hP : P ++ q <+: c ++ S)
    (i : Nat) (hi : i < c.length) (hiP : i ≤ P.length) :
    (∃ j, j < c.length ∧ j ≤ (P ++ q).length ∧
        feed parse tags (some t) (P.drop i) q = ([], (P ++ q).drop j)) ∨
      (c.length ≤ (P ++ q).length ∧
        feed parse tags (some t) (P.drop i) q =
          processLoop parse tags (some t) (cleanup tags ((P ++ q).drop c.length))) := by
  have hBq : P.drop i ++ q = (P ++ q).drop i := by
    rw [List.drop_append_of_le_length hiP]
  have hiP' : i ≤ (P ++ q).length := by simp; omega
  unfold feed process
  rw [hBq]
  by_cases hcp : c.length ≤ (P ++ q).length
  · rcases cleanup_drop_cases tags (P ++ q) (c.length - i) i c.length (by omega) hcp with
      ⟨k, h1, h2, h3⟩ | h
    · rw [h3]
      exact processLoop_corrupt parse tags t c S hc (P ++ q) hP _ k h2 (by omega) rfl
    · right
      exact ⟨hcp, by rw [h]⟩
  · rcases cleanup_drop_cases tags (P ++ q) ((P ++ q).length - i) i (P ++ q).length (by omega)
      (Nat.le_refl _) with ⟨k, h1, h2, h3⟩ | h
    · rw [h3]
      exact processLoop_corrupt parse tags t c S hc (P ++ q) hP _ k (by omega) (by omega) rfl
    · left
      refine ⟨(P ++ q).length, by omega, Nat.le_refl _, ?_⟩
      rw [h]
      simp [cleanup_nil, processLoop_nil]

theorem feed_bounded (parse : Str → ParseRes M) (tags : List Str) (t : Nat) (B q : Str) :
    (feed parse tags (some t) B q).2.length ≤ t :=
  processLoop_bounded parse tags t _

/-- the session from a buffer that starts inside the corrupt prefix, up to the end of the stream -/
theorem session_corrupt (parse : Str → ParseRes M) (tags : List Str) (t : Nat)
    (hA1 : ParserNeedsOpener parse tags) (hA2 : TagsOk tags)
    (c : Str) (hc : Corrupt parse c)
    (segs : List (Seg M)) (final : Str) (hok : StreamOk2 parse tags (some t) segs final)
    (hlong : t < (encode segs final).length) :
    ∀ (pieces : List Str) (P : Str) (i : Nat), i < c.length → i ≤ P.length →
      (P.drop i).length ≤ t → P ++ pieces.flatten = c ++ encode segs final →
      (session parse tags (some t) (P.drop i) pieces).1.flatten = segs.map (·.msg) := by
  intro pieces
  induction pieces with
  | nil =>
    intro P i hi hiP hB hP
    exfalso
    simp only [List.flatten_nil, List.append_nil] at hP
    rw [hP, List.length_drop, List.length_append] at hB
    omega
  | cons q ps ih =>
    intro P i hi hiP hB hP
    simp only [List.flatten_cons] at hP
    have hP' : (P ++ q) ++ ps.flatten = c ++ encode segs final := by
      rw [List.append_assoc]; exact hP
    have hPq : P ++ q <+: c ++ encode segs final := ⟨ps.flatten, hP'⟩
    simp only [session, List.flatten_cons]
    rcases feed_corrupt parse tags t c (encode segs final) hc P q hPq i hi hiP with
      ⟨j, hj, hjP, hfeed⟩ | ⟨hcp, hfeed⟩
    · have hb := feed_bounded parse tags t (P.drop i) q
      rw [hfeed] at hb ⊢
      simp only [List.nil_append]
      exact ih (P ++ q) j hj hjP hb hP'
    · -- past the corrupt prefix: `x` is the valid part received so far
      have hx : (P ++ q).drop c.length ++ ps.flatten = encode segs final := by
        have := congrArg (List.drop c.length) hP'
        rw [List.drop_append_of_le_length hcp, List.drop_left] at this
        exact this
      generalize (P ++ q).drop c.length = x at hx hfeed
      have hxp : x <+: encode segs final := ⟨ps.flatten, hx⟩
      obtain ⟨R, hR, hinv⟩ :=
        processLoop_stream2 parse tags (some t) hA1 hA2 final segs hok x hxp
      have hole := off_le segs x.length
      have hpre' : x.drop (off segs x.length) ++ ps.flatten <+:
          encode (segs.drop (countDone segs x.length)) final := by
        rw [← encode_drop, ← hx, List.drop_append_of_le_length hole]
        exact List.prefix_refl _
      have h0' : countDone (segs.drop (countDone segs x.length))
          (x.drop (off segs x.length)).length = 0 := by
        rw [List.length_drop]
        exact countDone_rem segs _
      have := session_stream2 parse tags (some t) hA1 hA2 final ps
        (segs.drop (countDone segs x.length))
        (StreamOk2_drop parse tags (some t) segs final _ hok) R _ hinv hpre' h0'
      rw [hfeed, hR]
      simp only
      rw [this, ← List.map_append, ← List.take_add]
      congr 1
      have hall := countDone_all final segs
      rw [countDone_split segs x.length (encode segs final).length hxp.length_le] at hall
      have e : (x.drop (off segs x.length)).length + ps.flatten.length
          = (encode segs final).length - off segs x.length := by
        rw [← hx, List.length_drop, List.length_append]
        omega
      rw [e, hall, List.take_length]

end Indi.Buf
