/-
  C01, part 10: `synced` in terms of `look`; the batch of a whole deployment; one peer after the
  delivery of such a batch.
-/
import Indi.Proofs.Sys9

namespace Indi.SysP
open Indi Indi.Dev Indi.Cli Indi.Sys Indi.Spec.Sys Indi.Spec.Dev

/-! ### `synced`, by property -/

/-- the view a peer must hold of one vector -/
def VS (b : Bool) (g : Group) (v : Vec) (oc : Option CVec) : Prop :=
  if vecEnabled g v = true then GoodV b g v oc else oc = none

theorem synced_iff (b : Bool) (d : Device) (σ : Mirror) (hwf : VWf σ) :
    synced b d σ = true ↔
      (∀ gv ∈ allVecs d, VS b gv.1 gv.2 (look σ (some d.name) (some gv.2.name))) ∧
      (∀ vn c, look σ (some d.name) vn = some c →
        ∃ gv ∈ allVecs d, some gv.2.name = vn ∧ vecEnabled gv.1 gv.2 = true) := by
  unfold synced look VS GoodV
  cases hdev : olook (some d.name) σ with
  | none =>
    simp only [List.all_eq_true, Bool.not_eq_true', reduceCtorEq, false_and, exists_false, IsEmpty.forall_iff,
      implies_true, and_true]
    constructor
    · intro h gv hgv; simp [h gv hgv]
    · intro h gv hgv
      have := h gv hgv
      by_cases he : vecEnabled gv.1 gv.2 = true
      · simp [he] at this
      · simpa using he
  | some cd =>
    have hnd := (VWf_look hwf hdev)
    simp only [Bool.and_eq_true, List.all_eq_true, List.any_eq_true, beq_iff_eq]
    constructor
    · rintro ⟨h1, h2⟩
      refine ⟨?_, ?_⟩
      · intro gv hgv
        have := h1 gv hgv
        by_cases he : vecEnabled gv.1 gv.2 = true
        · simp only [he, if_true] at this ⊢
          cases hl : olook (some gv.2.name) cd.vecs with
          | none => rw [hl] at this; cases this
          | some c => rw [hl] at this; exact ⟨c, rfl, this⟩
        · simp only [he, Bool.false_eq_true, if_false] at this ⊢
          simpa using this
      · intro vn c hl
        obtain ⟨gv, hgv, h3, h4⟩ := h2 (vn, c) (olook_mem _ _ _ hl)
        exact ⟨gv, hgv, h3, h4⟩
    · rintro ⟨h1, h2⟩
      refine ⟨?_, ?_⟩
      · intro gv hgv
        have := h1 gv hgv
        by_cases he : vecEnabled gv.1 gv.2 = true
        · simp only [he, if_true] at this ⊢
          obtain ⟨c, hc, hs⟩ := this
          rw [hc]; exact hs
        · simp only [he, Bool.false_eq_true, if_false] at this ⊢
          rw [this]; rfl
      · intro nv hnv
        obtain ⟨gv, hgv, h3, h4⟩ := h2 nv.1 nv.2 (mem_olook _ _ _ hnd hnv)
        exact ⟨gv, hgv, h3, h4⟩

/-! ### the batch of a deployment -/

/-- each driver publishes its batch; the router hands out the batches one after the other -/
def WB (devs : List Device) (ms : List Msg) (devs' : List Device) : Prop :=
  ∃ bds : List (List Msg × Device),
    List.Forall₂ (fun d bd => DevBatch d bd.1 bd.2) devs bds ∧ ms = (bds.map (·.1)).flatten ∧ devs' = bds.map (·.2)

theorem forall₂_mem_right {α β : Type} {R : α → β → Prop} : ∀ {l : List α} {l' : List β}, List.Forall₂ R l l' →
    ∀ b ∈ l', ∃ a, (a, b) ∈ l.zip l'
  | _, _, .nil, b, hb => by cases hb
  | _, _, .cons (a := a) h t, b, hb => by
    rcases List.mem_cons.1 hb with rfl | hb
    · exact ⟨a, by simp⟩
    · obtain ⟨a', ha'⟩ := forall₂_mem_right t b hb
      exact ⟨a', by simp [ha']⟩

theorem forall₂_mem_left {α β : Type} {R : α → β → Prop} : ∀ {l : List α} {l' : List β}, List.Forall₂ R l l' →
    ∀ a ∈ l, ∃ b, (a, b) ∈ l.zip l'
  | _, _, .nil, a, ha => by cases ha
  | _, _, .cons (b := b) h t, a, ha => by
    rcases List.mem_cons.1 ha with rfl | ha
    · exact ⟨b, by simp⟩
    · obtain ⟨b', hb'⟩ := forall₂_mem_left t a ha
      exact ⟨b', by simp [hb']⟩

/-- the messages of a deployment's batch that carry a driver's name are that driver's batch -/
theorem batch_of_device : ∀ {devs : List Device} {bds : List (List Msg × Device)},
    List.Forall₂ (fun d bd => DevBatch d bd.1 bd.2) devs bds → (devs.map (·.name)).Nodup →
    ∀ d bd, (d, bd) ∈ devs.zip bds →
      ((bds.map (·.1)).flatten).filter (fun m => decide ((key m).1 = some d.name)) = bd.1
  | _, _, .nil, _, d, bd, h => by cases h
  | _, _, .cons (a := d0) (b := bd0) (l₁ := ds) (l₂ := bs) h t, hnd, d, bd, hmem => by
    rw [List.map_cons, List.nodup_cons] at hnd
    have hall : ∀ (d1 : Device) (bd1 : List Msg × Device), DevBatch d1 bd1.1 bd1.2 → ∀ m ∈ bd1.1, (key m).1 = some d1.name := by
      intro d1 bd1 hb m hm
      obtain ⟨_, _, _, _, _, _, hk⟩ := hb.emitted m hm
      rw [hk]
    have hrest : ∀ m ∈ (bs.map (·.1)).flatten, ∃ d2 ∈ ds, (key m).1 = some d2.name := by
      intro m hm
      rw [List.mem_flatten] at hm
      obtain ⟨l, hl, hml⟩ := hm
      rw [List.mem_map] at hl
      obtain ⟨bd2, hbd2, rfl⟩ := hl
      obtain ⟨d2, hz⟩ := forall₂_mem_right t bd2 hbd2
      exact ⟨d2, (List.of_mem_zip hz).1, hall d2 bd2 ((List.forall₂_iff_zip.1 t).2 hz) m hml⟩
    simp only [List.map_cons, List.flatten_cons, List.filter_append]
    rw [List.zip_cons_cons, List.mem_cons] at hmem
    rcases hmem with heq | hmem
    · simp only [Prod.mk.injEq] at heq
      obtain ⟨rfl, rfl⟩ := heq
      have h1 : bd.1.filter (fun m => decide ((key m).1 = some d.name)) = bd.1 := by
        rw [List.filter_eq_self]
        intro m hm
        simp [hall d bd h m hm]
      have h2 : ((bs.map (·.1)).flatten).filter (fun m => decide ((key m).1 = some d.name)) = [] := by
        rw [List.filter_eq_nil_iff]
        intro m hm hk
        simp only [decide_eq_true_eq] at hk
        obtain ⟨d2, hd2, hk2⟩ := hrest m hm
        rw [hk2] at hk
        simp only [Option.some.injEq] at hk
        exact hnd.1 (List.mem_map.2 ⟨d2, hd2, hk⟩)
      rw [h1, h2, List.append_nil]
    · have hd : d ∈ ds := (List.of_mem_zip hmem).1
      have h1 : bd0.1.filter (fun m => decide ((key m).1 = some d.name)) = [] := by
        rw [List.filter_eq_nil_iff]
        intro m hm hk
        simp only [decide_eq_true_eq] at hk
        rw [hall d0 bd0 h m hm] at hk
        simp only [Option.some.injEq] at hk
        exact hnd.1 (List.mem_map.2 ⟨d, hd, hk.symm⟩)
      rw [h1, List.nil_append]
      exact batch_of_device t hnd.2 d bd hmem

theorem atKey_filter_dev (dn vn : Str) (ms : List Msg) :
    atKey dn vn (ms.filter fun m => decide ((key m).1 = some dn)) = atKey dn vn ms := by
  unfold atKey
  rw [List.filter_filter]
  congr 1
  funext m
  by_cases h : key m = (some dn, some vn)
  · simp [h]
  · simp [h]

/-- what a deployment's batch means for one driver of the new deployment -/
theorem WB.device {devs devs' : List Device} {ms : List Msg} (h : WB devs ms devs') (hnd : (devs.map (·.name)).Nodup) :
    ∀ d' ∈ devs', ∃ d ∈ devs, ∃ b, DevBatch d b d' ∧ (∀ vn, atKey d.name vn ms = atKey d.name vn b) ∧
      (∀ m ∈ ms, (key m).1 = some d.name → m ∈ b) := by
  obtain ⟨bds, hF, rfl, rfl⟩ := h
  intro d' hd'
  rw [List.mem_map] at hd'
  obtain ⟨bd, hbd, rfl⟩ := hd'
  obtain ⟨d, hz⟩ := forall₂_mem_right hF bd hbd
  have hb := batch_of_device hF hnd d bd hz
  refine ⟨d, (List.of_mem_zip hz).1, bd.1, (List.forall₂_iff_zip.1 hF).2 hz, ?_, ?_⟩
  · intro vn
    rw [← atKey_filter_dev, hb]
  · intro m hm hk
    rw [← hb, List.mem_filter]
    exact ⟨hm, by simp [hk]⟩

theorem WB.names {devs devs' : List Device} {ms : List Msg} (h : WB devs ms devs') :
    devs'.map (·.name) = devs.map (·.name) := by
  obtain ⟨bds, hF, _, rfl⟩ := h
  rw [List.map_map]
  symm
  exact forall₂_map_eq hF (fun d bd hb => hb.name.symm)

theorem WB.msgs {devs devs' : List Device} {ms : List Msg} (h : WB devs ms devs') :
    ∀ m ∈ ms, Emitted m ∧ ∃ d ∈ devs, (key m).1 = some d.name := by
  obtain ⟨bds, hF, rfl, rfl⟩ := h
  intro m hm
  rw [List.mem_flatten] at hm
  obtain ⟨l, hl, hml⟩ := hm
  rw [List.mem_map] at hl
  obtain ⟨bd, hbd, rfl⟩ := hl
  obtain ⟨d, hz⟩ := forall₂_mem_right hF bd hbd
  have hb : DevBatch d bd.1 bd.2 := (List.forall₂_iff_zip.1 hF).2 hz
  obtain ⟨he, _, _, _, _, _, hk⟩ := hb.emitted m hml
  exact ⟨he, d, (List.of_mem_zip hz).1, by rw [hk]⟩

theorem WB.ok {devs devs' : List Device} {ms : List Msg} (h : WB devs ms devs') : ∀ d' ∈ devs', DevOK d' := by
  obtain ⟨bds, hF, _, rfl⟩ := h
  intro d' hd'
  rw [List.mem_map] at hd'
  obtain ⟨bd, hbd, rfl⟩ := hd'
  obtain ⟨d, hz⟩ := forall₂_mem_right hF bd hbd
  exact ((List.forall₂_iff_zip.1 hF).2 hz).ok

/-! ### one peer -/

/-- a peer that saw a driver as it was sees it as it is once the driver's batch has arrived -/
theorem synced_deliver {d d' : Device} {b ms : List Msg} (hb : DevBatch d b d')
    (hkey : ∀ vn, atKey d.name vn ms = atKey d.name vn b) (hsub : ∀ m ∈ ms, (key m).1 = some d.name → m ∈ b)
    (hE : ∀ m ∈ ms, Emitted m) (p : Peer) (hwf : VWf p.mirror) (hs : synced p.blobs d p.mirror = true)
    (L : List Msg) (hL : Arrival p ms L) : synced p.blobs d' (deliver reg p L).mirror = true := by
  have hEL : ∀ m ∈ L, Emitted m := fun m hm => hE m (arrival_sub hL m hm)
  have hwf' := deliver_wf L p hwf
  obtain ⟨hs1, hs2⟩ := (synced_iff _ _ _ hwf).1 hs
  -- the messages of the batch about a property, as they arrive
  have hA : ∀ vn : Str, ∀ m ∈ L.filter (fun m => decide (key m = (some d.name, some vn))), m ∈ atKey d.name vn b := by
    intro vn m hm
    rw [List.mem_filter] at hm
    rw [← hkey]
    exact List.mem_filter.2 ⟨arrival_sub hL m hm.1, hm.2⟩
  have hA2 : ∀ vn : Str, ∀ m ∈ atKey d.name vn b, isSetBlob m = false →
      m ∈ L.filter (fun m => decide (key m = (some d.name, some vn))) := by
    intro vn m hm hsb
    rw [← hkey] at hm
    unfold atKey at hm
    rw [List.mem_filter] at hm ⊢
    exact ⟨arrival_sup hL m hm.1 hsb, hm.2⟩
  -- each vector of the new state is seen as it is
  have hvs : ∀ gi vi g' v', getVec d' gi vi = some (g', v') →
      VS p.blobs g' v' (look (deliver reg p L).mirror (some d'.name) (some v'.name)) := by
    intro gi vi g' v' hg'
    cases hg0 : getVec d gi vi with
    | none => rw [hb.none gi vi hg0] at hg'; cases hg'
    | some gv0 =>
      obtain ⟨g0, v0⟩ := gv0
      obtain ⟨g'', v'', hg'', hname, hcase⟩ := hb.cases gi vi g0 v0 hg0
      rw [hg'] at hg''
      simp only [Option.some.injEq, Prod.mk.injEq] at hg''
      obtain ⟨rfl, rfl⟩ := hg''
      have h0 : VS p.blobs g0 v0 (look p.mirror (some d.name) (some v0.name)) :=
        hs1 (g0, v0) (mem_allVecs.2 ⟨gi, vi, hg0⟩)
      rw [look_deliver L _ _ p hEL hwf, hb.name, hname]
      have hAv := hA v0.name
      have hA2v := hA2 v0.name
      generalize hAdef : L.filter (fun m => decide (key m = (some d.name, some v0.name))) = A at hAv hA2v ⊢
      unfold KeyCase at hcase
      rw [hname] at hcase
      rcases hcase with ⟨hE0, hen, hview⟩ | ⟨hen, hne, hdel⟩ | ⟨hen, hall, hex⟩ | ⟨hen, hen0, hshape, hall, hlast⟩
      · -- nothing published about it
        have : A = [] := by
          apply List.eq_nil_iff_forall_not_mem.2
          intro m hm
          have := hAv m hm
          rw [hE0] at this; cases this
        subst this
        simp only [List.foldl_nil]
        unfold VS at h0 ⊢
        rw [hen]
        by_cases he0 : vecEnabled g0 v0 = true
        · simp only [he0, if_true] at h0 ⊢
          obtain ⟨c, hc, hsh⟩ := h0
          exact ⟨c, hc, by rw [vecShown_congr (hview he0)]; exact hsh⟩
        · simp only [he0, Bool.false_eq_true, if_false] at h0 ⊢
          exact h0
      · -- deleted
        unfold VS
        simp only [hen, Bool.false_eq_true, if_false]
        obtain ⟨m0, hm0⟩ := List.exists_mem_of_ne_nil _ hne
        have hm0A : m0 ∈ A := hA2v m0 hm0 (by rw [hdel m0 hm0]; exact isSetBlob_delMsg _ _)
        exact fold_del d.name v0.name _ _ A _ (fun m hm => hdel m (hAv m hm))
          (List.ne_nil_of_mem hm0A)
      · -- announced
        unfold VS
        simp only [hen, if_true]
        obtain ⟨m0, hm0, hd0⟩ := hex
        have hm0A : m0 ∈ A := by
          apply hA2v m0 hm0
          obtain ⟨g, v, h1, _⟩ := hd0
          exact isSetBlob_of_def h1
        exact fold_ann d.name g' v' _ _ A _ (fun m hm => hall m (hAv m hm)) ⟨m0, hm0A, hd0⟩
      · -- updated
        unfold VS at h0 ⊢
        simp only [hen, if_true]
        simp only [hen0, if_true] at h0
        have hsh0 : Shaped g' v' (look p.mirror (some d.name) (some v0.name)) := by
          obtain ⟨c, hc, hs⟩ := h0.shaped
          exact ⟨c, hc, (vecShape_congr hshape c).2 hs⟩
        obtain ⟨last, hl, hlv⟩ := hlast
        have hβ : ∀ m ∈ ms.filter (fun m => decide (key m = (some d.name, some v0.name))),
            isSetBlob m = decide (v'.kind = .blob) := by
          intro m hm
          have : m ∈ atKey d.name v0.name b := by rw [← hkey]; exact hm
          obtain ⟨g, v, h1, _, h3⟩ := hall m this
          rw [isSetBlob_of_set h1, h3.2.2.2.1]
        have hne : ms.filter (fun m => decide (key m = (some d.name, some v0.name))) ≠ [] := by
          have : atKey d.name v0.name ms ≠ [] := by
            rw [hkey]
            intro h; rw [h] at hl; cases hl
          exact this
        obtain ⟨hlast', _⟩ := arrival_last hL (fun m => decide (key m = (some d.name, some v0.name))) _ hβ hne
        have hl' : A.getLast? = some last := by
          rw [← hAdef, hlast']
          have : atKey d.name v0.name ms = atKey d.name v0.name b := hkey _
          unfold atKey at this
          rw [this]; exact hl
        exact fold_wr d.name g' v' _ _ _ _
          (fun m hm => hall m (hAv m hm)) last hl' hlv hsh0
  rw [synced_iff _ _ _ hwf']
  refine ⟨?_, ?_⟩
  · intro gv hgv
    obtain ⟨gi, vi, hg⟩ := mem_allVecs.1 hgv
    exact hvs gi vi gv.1 gv.2 hg
  · intro vn c hl
    by_cases hex : ∃ gi vi g' v', getVec d' gi vi = some (g', v') ∧ some v'.name = vn
    · obtain ⟨gi, vi, g', v', hg', rfl⟩ := hex
      refine ⟨(g', v'), mem_allVecs.2 ⟨gi, vi, hg'⟩, rfl, ?_⟩
      have := hvs gi vi g' v' hg'
      unfold VS at this
      by_cases he : vecEnabled g' v' = true
      · exact he
      · simp only [he, Bool.false_eq_true, if_false] at this
        rw [this] at hl; cases hl
    · -- no message addresses a property the driver does not have
      exfalso
      rw [look_deliver L _ _ p hEL hwf] at hl
      have : L.filter (fun m => decide (key m = (some d'.name, vn))) = [] := by
        rw [List.filter_eq_nil_iff]
        intro m hm hk
        simp only [decide_eq_true_eq] at hk
        have hmb := hsub m (arrival_sub hL m hm) (by rw [hk, hb.name])
        obtain ⟨_, gi, vi, g', v', hg', hk'⟩ := hb.emitted m hmb
        rw [hk'] at hk
        simp only [Prod.mk.injEq] at hk
        exact hex ⟨gi, vi, g', v', hg', hk.2⟩
      rw [this, hb.name] at hl
      simp only [List.foldl_nil] at hl
      obtain ⟨gv, hgv, hn, _⟩ := hs2 vn c hl
      obtain ⟨gi, vi, hg⟩ := mem_allVecs.1 hgv
      obtain ⟨g', v', hg', hname, _⟩ := hb.cases gi vi gv.1 gv.2 hg
      exact hex ⟨gi, vi, g', v', hg', by rw [hname]; exact hn⟩

end Indi.SysP
