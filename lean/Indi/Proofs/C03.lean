/-
  C03 — helper lemmas: serialise-then-parse on *all* registered message kinds.

  The proofs are generic in the class: `classW` is a decidable well-formedness condition on a
  class specification which every class of `Generated.registry` satisfies (`decide +kernel`);
  `construct_canon` computes `construct c kw` for the keywords the parser derives from a
  serialised valid wire view, `construct_valid` shows that whatever `construct` accepts from a
  parser is valid.  `canon` is the exact form in which a valid message is read back.
-/
import Indi.Proofs.DevB
import Indi.Proofs.C03Num
import Indi.Spec.MsgValid

namespace Indi.C03
open Indi Indi.Spec.MsgValid Indi.Spec.Dev
open Indi.DevB (alookup_sortByKey alookup_attrKw alookup_aset' pyStrip_idem)

open Indi.C03Num (numberOk_strip)

/-! ### the form in which a message is read back -/

/-- the text value the parser delivers for the serialised value `v` -/
def canonVal : Option Str → Option Str
  | none => none
  | some t => if t.isEmpty then none else some (pyStrip t)

def cv (k : Str) (v : Option Str) : Option Str := if k = s "value" then canonVal v else v

def canonFields (fs : List (Str × Option Str)) : List (Str × Option Str) :=
  fs.map fun kv => (kv.1, cv kv.1 kv.2)

def canonPart (p : Part) : Part := { p with fields := canonFields p.fields }

def canon (m : Msg) : Msg :=
  { m with fields := canonFields m.fields, children := m.children.map fun ps => ps.map canonPart }

def toPy : Option Str → PyVal
  | none => .none
  | some t => .str t

/-! ### well-formed class specifications -/

/-- an allowed text value survives the parser's `strip` and is not dropped as empty text -/
def valOk : Option Str → Bool
  | some t => !t.isEmpty && pyStrip t == t
  | none => false

def fieldW (isPart : Bool) (f : FieldSpec) : Bool :=
  (f.source == some f.name || f.source == none) &&
  f.name != s "self" &&
  (match f.guard with
   | .children _ => f.name == s "children" && !isPart && f.source == some (s "children")
   | _ => f.name != s "children") &&
  (f.name != s "value" ||
     match f.guard with
     | .oneOf vals => vals.all valOk
     | .children _ => false
     | _ => isPart)

def classW (isPart : Bool) (c : ClassSpec) : Bool :=
  decide (c.fields.map (·.name)).Nodup && c.fields.all (fieldW isPart) &&
  c.required.all (fun r => r != s "children" && c.fields.any (fun f => f.source == some r))

theorem registry_W :
    Generated.registry.messages.all (classW false) = true ∧
    Generated.registry.parts.all (classW true) = true := by
  decide +kernel

/-! ### association lists -/

theorem alookup_of_mem {α : Type} : ∀ {l : List (Str × α)} {k : Str} {v : α},
    (l.map Prod.fst).Nodup → (k, v) ∈ l → alookup k l = some v
  | [], _, _, _, h => by cases h
  | (a, b) :: xs, k, v, hn, h => by
    rw [List.map_cons, List.nodup_cons] at hn
    simp only [alookup]
    rcases List.mem_cons.1 h with h | h
    · cases h; simp
    · have : a ≠ k := fun e => hn.1 (e ▸ List.mem_map.2 ⟨(k, v), h, rfl⟩)
      rw [if_neg this]
      exact alookup_of_mem hn.2 h

theorem alookup_none_of_not_mem {α : Type} : ∀ {l : List (Str × α)} {k : Str},
    k ∉ l.map Prod.fst → alookup k l = none
  | [], _, _ => rfl
  | (a, b) :: xs, k, h => by
    simp only [List.map_cons, List.mem_cons, not_or] at h
    simp only [alookup]
    rw [if_neg (fun e => h.1 e.symm)]
    exact alookup_none_of_not_mem h.2

theorem mem_of_alookup {α : Type} : ∀ {l : List (Str × α)} {k : Str} {v : α},
    alookup k l = some v → (k, v) ∈ l
  | [], _, _, h => by cases h
  | (a, b) :: xs, k, v, h => by
    simp only [alookup] at h
    split at h
    · rename_i e; cases h; subst e; simp
    · exact List.mem_cons_of_mem _ (mem_of_alookup h)

theorem valueOf_eq (fs : List (Str × Option Str)) : valueOf fs = (alookup (s "value") fs).getD none := by
  unfold valueOf
  split <;> rename_i h
  · simp [h]
  · cases h' : alookup (s "value") fs with
    | none => rfl
    | some o =>
      cases o with
      | none => rfl
      | some v => exact absurd h' (h v)

theorem presentAttrs_keys (fs : List (Str × Option Str)) :
    ((presentAttrs fs).map Prod.fst).Sublist (fs.map Prod.fst) := by
  induction fs with
  | nil => exact List.Sublist.slnil
  | cons x xs ih =>
    obtain ⟨k, v⟩ := x
    simp only [presentAttrs, List.filterMap_cons] at ih ⊢
    split
    · exact List.Sublist.cons _ ih
    · rename_i y hy
      have : y.1 = k := by
        split at hy
        · cases hy
        · cases v with
          | none => cases hy
          | some x => simp at hy; rw [← hy]
      simp only [List.map_cons, this]
      exact List.Sublist.cons_cons _ ih

theorem presentAttrs_special (fs : List (Str × Option Str)) (k : Str)
    (hk : k = s "value" ∨ k = s "children") : alookup k (presentAttrs fs) = none := by
  apply alookup_none_of_not_mem
  intro h
  obtain ⟨⟨a, b⟩, hm, rfl⟩ := List.mem_map.1 h
  simp only [presentAttrs, List.mem_filterMap] at hm
  obtain ⟨⟨k', v'⟩, _, h2⟩ := hm
  split at h2
  · cases h2
  · rename_i hne
    cases v' with
    | none => cases h2
    | some x =>
      simp at h2
      obtain ⟨rfl, rfl⟩ := h2
      simp at hne
      rcases hk with h | h
      · exact hne.1 h
      · exact hne.2 h

theorem alookup_presentAttrs (fs : List (Str × Option Str)) (hn : (fs.map Prod.fst).Nodup) (k : Str)
    (h1 : k ≠ s "value") (h2 : k ≠ s "children") :
    alookup k (presentAttrs fs) = (alookup k fs).getD none := by
  induction fs with
  | nil => rfl
  | cons x xs ih =>
    obtain ⟨a, b⟩ := x
    rw [List.map_cons, List.nodup_cons] at hn
    simp only [alookup]
    by_cases e : a = k
    · subst e
      simp only [if_true, Option.getD_some]
      simp only [presentAttrs, List.filterMap_cons]
      have : (a = s "value" || a = s "children") = false := by simp [h1, h2]
      rw [this]
      cases b with
      | none =>
        simp only [Bool.false_eq_true, if_false, Option.map_none]
        apply alookup_none_of_not_mem
        intro hm
        exact hn.1 ((presentAttrs_keys xs).subset hm)
      | some v => simp [alookup]
    · rw [if_neg e, ← ih hn.2]
      simp only [presentAttrs, List.filterMap_cons]
      split
      · rfl
      · rename_i y hy
        have : y.1 = a := by
          split at hy
          · cases hy
          · cases b with
            | none => cases hy
            | some x => simp at hy; rw [← hy]
        obtain ⟨y1, y2⟩ := y
        simp only at this
        subst this
        simp [alookup, e]

/-! ### `construct` on the keywords of a serialised valid wire view -/

theorem buildFields_map (kw : List (Str × PyVal)) (G : FieldSpec → PyVal) :
    ∀ L : List FieldSpec, (∀ f ∈ L, checkGuard f.guard (kwGet kw f.source) = .ok (G f)) →
      buildFields kw L = .ok (L.map fun f => (f.name, G f))
  | [], _ => rfl
  | f :: fs, h => by
    have h1 := h f (List.mem_cons_self ..)
    have h2 := buildFields_map kw G fs (fun g hg => h g (List.mem_cons_of_mem _ hg))
    simp only [buildFields, h1, h2, List.map_cons]

theorem scalarView_map (G : FieldSpec → PyVal) (g : FieldSpec → Option Str) :
    ∀ L : List FieldSpec, (∀ f ∈ L, f.name ≠ s "children" → G f = toPy (g f)) →
      scalarView (L.map fun f => (f.name, G f)) =
        .ok ((L.filter fun f => f.name ≠ s "children").map fun f => (f.name, g f))
  | [], _ => rfl
  | f :: fs, h => by
    have ih := scalarView_map G g fs (fun x hx => h x (List.mem_cons_of_mem _ hx))
    simp only [List.map_cons, scalarView]
    by_cases hc : f.name = s "children"
    · rw [if_pos hc, ih, List.filter_cons_of_neg (by simpa using hc)]
    · rw [if_neg hc, ih, List.filter_cons_of_pos (by simpa using hc), h f (List.mem_cons_self ..) hc]
      cases hgf : g f <;> simp [toPy, hgf]

theorem alookup_map_spec (G : FieldSpec → PyVal) (k : Str) :
    ∀ L : List FieldSpec, alookup k (L.map fun f => (f.name, G f)) = (L.find? fun f => f.name = k).map G
  | [] => rfl
  | f :: fs => by
    simp only [List.map_cons, alookup, List.find?_cons]
    by_cases h : f.name = k
    · simp [h]
    · simp [h, alookup_map_spec G k fs]

/-- the scalar specs and the wire fields are aligned: look the field of a spec up by name -/
theorem zip_lookup (P : FieldSpec × (Str × Option Str) → Bool) :
    ∀ (L : List FieldSpec) (fields : List (Str × Option Str)),
      fields.map Prod.fst = L.map (·.name) → (L.map (·.name)).Nodup → (L.zip fields).all P = true →
      ∀ f ∈ L, ∃ v, alookup f.name fields = some v ∧ P (f, (f.name, v)) = true
  | [], _, _, _, _ => fun f hf => by cases hf
  | g :: L, [], hk, _, _ => by cases hk
  | g :: L, (k, v) :: fields, hk, hn, hall => by
    simp only [List.map_cons, List.cons.injEq] at hk
    rw [List.map_cons, List.nodup_cons] at hn
    simp only [List.zip_cons_cons, List.all_cons, Bool.and_eq_true] at hall
    obtain ⟨hk1, hk2⟩ := hk
    subst hk1
    intro f hf
    rcases List.mem_cons.1 hf with rfl | hf
    · exact ⟨v, by simp [alookup], hall.1⟩
    · obtain ⟨w, hw, hP⟩ := zip_lookup P L fields hk2 hn.2 hall.2 f hf
      refine ⟨w, ?_, hP⟩
      have : g.name ≠ f.name := fun e => hn.1 (e ▸ List.mem_map.2 ⟨f, hf, rfl⟩)
      simp only [alookup]
      rw [if_neg this]
      exact hw

theorem map_lookup (F : Str → Option Str → Option Str) :
    ∀ fields : List (Str × Option Str), (fields.map Prod.fst).Nodup →
      (fields.map Prod.fst).map (fun k => (k, F k ((alookup k fields).getD none))) =
        fields.map fun kv => (kv.1, F kv.1 kv.2) := by
  intro fields hn
  rw [List.map_map]
  apply List.map_congr_left
  intro kv hkv
  obtain ⟨k, v⟩ := kv
  simp [alookup_of_mem hn hkv]

theorem childTagsOf_mem {c : ClassSpec} (hn : (c.fields.map (·.name)).Nodup) {f : FieldSpec} (hf : f ∈ c.fields)
    (hname : f.name = s "children") :
    childTagsOf c = match f.guard with | .children tags => some tags | _ => none := by
  unfold childTagsOf
  have hsome : (c.fields.find? fun f => f.name = s "children").isSome = true :=
    List.find?_isSome.2 ⟨f, hf, by simpa using hname⟩
  cases hfind : c.fields.find? fun f => f.name = s "children" with
  | none => rw [hfind] at hsome; cases hsome
  | some f' =>
    have h1 : f'.name = s "children" := by simpa using List.find?_some hfind
    have h2 := List.mem_of_find?_eq_some hfind
    have : f' = f := Indi.DevBResp.inj_of_nodup_map (·.name) hn h2 hf (h1.trans hname.symm)
    subst this
    obtain ⟨n, so, g⟩ := f'
    cases g <;> rfl

theorem childTagsOf_none {c : ClassSpec} (h : ∀ f ∈ c.fields, f.name ≠ s "children") : childTagsOf c = none := by
  unfold childTagsOf
  have : (c.fields.find? fun f => f.name = s "children") = none :=
    List.find?_eq_none.2 (fun x hx => by simpa using h x hx)
  rw [this]

/-- what a keyword list derived from serialised wire fields must deliver -/
structure KwFor (isPart : Bool) (fields : List (Str × Option Str)) (ps : List Part) (kw : List (Str × PyVal)) : Prop where
  attr : ∀ k, k ≠ s "value" → k ≠ s "children" → alookup k kw = ((alookup k fields).getD none).map PyVal.str
  value : (alookup (s "value") kw).getD .none = toPy (canonVal (valueOf fields))
  hasValue : (isPart = true ∨ ∃ t, valueOf fields = some t ∧ t ≠ []) → ahas (s "value") kw = true
  children : (alookup (s "children") kw).getD .none = if ps.isEmpty then .none else .parts ps

theorem classW_unpack {isPart : Bool} {c : ClassSpec} (h : classW isPart c = true) :
    (c.fields.map (·.name)).Nodup ∧ (∀ f ∈ c.fields, fieldW isPart f = true) ∧
    (∀ r ∈ c.required, r ≠ s "children" ∧ ∃ f ∈ c.fields, f.source = some r) := by
  simp only [classW, Bool.and_eq_true, decide_eq_true_eq, List.all_eq_true] at h
  refine ⟨h.1.1, h.1.2, fun r hr => ?_⟩
  have := h.2 r hr
  simp only [bne_iff_ne, ne_eq, List.any_eq_true, beq_iff_eq] at this
  exact ⟨this.1, this.2⟩

theorem fieldW_unpack {isPart : Bool} {f : FieldSpec} (h : fieldW isPart f = true) :
    (f.source = some f.name ∨ f.source = none) ∧ f.name ≠ s "self" ∧
    (match f.guard with
     | .children _ => f.name = s "children" ∧ isPart = false ∧ f.source = some (s "children")
     | _ => f.name ≠ s "children") ∧
    (f.name = s "value" →
      match f.guard with
      | .oneOf vals => ∀ v ∈ vals, valOk v = true
      | .children _ => False
      | _ => isPart = true) := by
  simp only [fieldW, Bool.and_eq_true, Bool.or_eq_true, beq_iff_eq, bne_iff_ne, ne_eq] at h
  obtain ⟨⟨⟨h1, h2⟩, h3⟩, h4⟩ := h
  refine ⟨h1, h2, ?_, ?_⟩
  · cases hg : f.guard <;> simp only [hg] at h3 ⊢ <;> simp_all
  · intro hv
    rcases h4 with h4 | h4
    · exact absurd hv h4
    · cases hg : f.guard <;> simp only [hg] at h4 ⊢ <;> simp_all

theorem fieldsOk_unpack {isPart : Bool} {c : ClassSpec} {fields : List (Str × Option Str)}
    (h : fieldsOk isPart c fields = true) :
    fields.map Prod.fst = (scalarSpecs c).map (·.name) ∧
    ((scalarSpecs c).zip fields).all (fun x => fieldOk isPart c x.1 x.2.2) = true := by
  simp only [fieldsOk, Bool.and_eq_true, beq_iff_eq] at h
  exact h

theorem scalarSpecs_nodup {c : ClassSpec} (hn : (c.fields.map (·.name)).Nodup) :
    ((scalarSpecs c).map (·.name)).Nodup :=
  List.Nodup.sublist (List.Sublist.map _ List.filter_sublist) hn

theorem construct_canon {isPart : Bool} {c : ClassSpec} (hW : classW isPart c = true) (hs : c.supported = true)
    {fields : List (Str × Option Str)} (hf : fieldsOk isPart c fields = true) {ps : List Part}
    (hps : ∀ tags, childTagsOf c = some tags → ps.all (fun p => tags.contains p.tag) = true)
    {kw : List (Str × PyVal)} (hkw : KwFor isPart fields ps kw) :
    construct c kw =
      .ok { tag := c.tag, fields := canonFields fields, children := (childTagsOf c).map fun _ => ps } := by
  obtain ⟨hnd, hfw, hreq⟩ := classW_unpack hW
  obtain ⟨hkeys, hzip⟩ := fieldsOk_unpack hf
  have hsn := scalarSpecs_nodup hnd
  have hfn : (fields.map Prod.fst).Nodup := hkeys ▸ hsn
  have hlook := zip_lookup (fun x => fieldOk isPart c x.1 x.2.2) _ _ hkeys hsn hzip
  -- the value stored for each field
  let g : FieldSpec → Option Str := fun f => cv f.name ((alookup f.name fields).getD none)
  let G : FieldSpec → PyVal := fun f => if f.name = s "children" then .parts ps else toPy (g f)
  have hpoint : ∀ f ∈ c.fields, checkGuard f.guard (kwGet kw f.source) = .ok (G f) := by
    intro f hfm
    obtain ⟨hsrc, _, hgd, hval⟩ := fieldW_unpack (hfw f hfm)
    by_cases hch : f.name = s "children"
    · -- the children field
      have hG : G f = .parts ps := by simp [G, hch]
      rw [hG]
      cases hg : f.guard with
      | children tags =>
        simp only [hg] at hgd
        have htags : childTagsOf c = some tags := by rw [childTagsOf_mem hnd hfm hch, hg]
        rw [hgd.2.2]
        simp only [kwGet, hkw.children]
        by_cases he : ps = []
        · subst he; rfl
        · have : ps.isEmpty = false := by cases ps <;> simp_all
          simp only [this, Bool.false_eq_true, if_false, checkGuard, hps tags htags, if_true]
      | any => simp only [hg] at hgd; exact absurd hch hgd
      | oneOf vals => simp only [hg] at hgd; exact absurd hch hgd
      | number => simp only [hg] at hgd; exact absurd hch hgd
    · have hmem : f ∈ scalarSpecs c := List.mem_filter.2 ⟨hfm, by simpa using hch⟩
      obtain ⟨v, hv, hok⟩ := hlook f hmem
      simp only [fieldOk, Bool.and_eq_true] at hok
      obtain ⟨hgo, hso⟩ := hok
      have hG : G f = toPy (cv f.name v) := by simp [G, g, hch, hv]
      rw [hG]
      rcases hsrc with hsrc | hsrc
      · -- stored from the keyword of the same name
        by_cases hvl : f.name = s "value"
        · have hkv : kwGet kw f.source = toPy (canonVal v) := by
            have hv' : alookup (s "value") fields = some v := hvl ▸ hv
            rw [hsrc, hvl]
            simp only [kwGet, hkw.value, valueOf_eq, hv', Option.getD_some]
          rw [hkv]
          have hcv : cv f.name v = canonVal v := by simp [cv, hvl]
          rw [hcv]
          have hval := hval hvl
          cases hg : f.guard with
          | any => rfl
          | children tags => simp only [hg] at hval
          | oneOf vals =>
            simp only [hg] at hval hgo
            simp only [guardOk, List.contains_iff_mem] at hgo
            have := hval v hgo
            cases v with
            | none => cases this
            | some t =>
              simp only [valOk, Bool.and_eq_true, Bool.not_eq_true', beq_iff_eq] at this
              have hc : canonVal (some t) = some t := by simp [canonVal, this.1, this.2]
              rw [hc]
              simp only [toPy, checkGuard, List.contains_iff_mem.2 hgo, if_true]
          | number =>
            cases v with
            | none => rfl
            | some t =>
              simp only [hg, guardOk] at hgo
              obtain ⟨h1, _, h3⟩ := numberOk_strip t hgo
              have : t.isEmpty = false := by cases t <;> simp_all
              simp only [canonVal, this, Bool.false_eq_true, if_false, toPy, checkGuard, h3, if_true]
        · have hkv : kwGet kw f.source = toPy v := by
            rw [hsrc]
            simp only [kwGet, hkw.attr f.name hvl hch, hv, Option.getD_some]
            cases v <;> rfl
          have hcv : cv f.name v = v := by simp [cv, hvl]
          rw [hkv, hcv]
          cases hg : f.guard with
          | any => rfl
          | children tags => simp only [hg] at hgd; exact absurd hgd.1 hch
          | oneOf vals =>
            simp only [hg, guardOk] at hgo
            cases v <;> simp only [toPy, checkGuard, hgo, if_true]
          | number =>
            simp only [hg] at hgo
            cases v with
            | none => rfl
            | some t =>
              simp only [guardOk] at hgo
              simp only [toPy, checkGuard, hgo, if_true]
      · -- never stored
        simp only [hsrc, Option.isNone_iff_eq_none] at hso
        subst hso
        have hcv : cv f.name none = none := by unfold cv; split <;> rfl
        rw [hsrc, hcv]
        cases hg : f.guard with
        | any => rfl
        | children tags => simp only [hg] at hgd; exact absurd hgd.1 hch
        | oneOf vals =>
          simp only [hg, guardOk] at hgo
          simp only [kwGet, toPy, checkGuard, hgo, if_true]
        | number => rfl
  have hbuild := buildFields_map kw G c.fields hpoint
  have hscalar := scalarView_map G g c.fields (fun f _ hc => by simp [G, hc])
  -- the keyword `self` is not passed
  have hself : ahas (s "self") kw = false := by
    have h1 : s "self" ≠ s "value" := by decide
    have h2 : s "self" ≠ s "children" := by decide
    have h3 : alookup (s "self") fields = none := by
      apply alookup_none_of_not_mem
      rw [hkeys]
      intro hm
      obtain ⟨f, hfm, hname⟩ := List.mem_map.1 hm
      exact (fieldW_unpack (hfw f (List.mem_filter.1 hfm).1)).2.1 hname
    simp [ahas, hkw.attr _ h1 h2, h3]
  -- required keywords are passed
  have hrequired : (c.required.all fun r => ahas r kw) = true := by
    rw [List.all_eq_true]
    intro r hr
    obtain ⟨hrc, f, hfm, hsrc⟩ := hreq r hr
    obtain ⟨hsrc', _, hgd, hval⟩ := fieldW_unpack (hfw f hfm)
    have hname : f.name = r := by
      rcases hsrc' with h | h <;> rw [h] at hsrc
      · exact Option.some.inj hsrc
      · cases hsrc
    subst hname
    have hch : f.name ≠ s "children" := hrc
    have hmem : f ∈ scalarSpecs c := List.mem_filter.2 ⟨hfm, by simpa using hch⟩
    obtain ⟨v, hv, hok⟩ := hlook f hmem
    simp only [fieldOk, Bool.and_eq_true] at hok
    obtain ⟨hgo, hso⟩ := hok
    simp only [hsrc, List.contains_iff_mem.2 hr, Bool.not_true, Bool.false_or, Bool.or_eq_true,
      Bool.and_eq_true, decide_eq_true_eq] at hso
    by_cases hvl : f.name = s "value"
    · rw [hvl]
      apply hkw.hasValue
      rcases hso with hso | hso
      · obtain ⟨t, rfl⟩ := Option.isSome_iff_exists.1 hso
        have hval := hval hvl
        cases hg : f.guard with
        | any => simp only [hg] at hval; exact Or.inl hval
        | number => simp only [hg] at hval; exact Or.inl hval
        | children tags => simp only [hg] at hval
        | oneOf vals =>
          simp only [hg] at hval hgo
          simp only [guardOk, List.contains_iff_mem] at hgo
          have := hval _ hgo
          simp only [valOk, Bool.and_eq_true, Bool.not_eq_true', beq_iff_eq] at this
          refine Or.inr ⟨t, ?_, ?_⟩
          · rw [valueOf_eq, ← hvl, hv]; rfl
          · intro e; subst e; simp at this
      · exact Or.inl hso.1
    · rcases hso with hso | hso
      · obtain ⟨t, rfl⟩ := Option.isSome_iff_exists.1 hso
        simp [ahas, hkw.attr f.name hvl hrc, hv]
      · exact absurd hso.2 hvl
  have hchildren : childrenView (c.fields.map fun f => (f.name, G f)) = .ok ((childTagsOf c).map fun _ => ps) := by
    unfold childrenView
    rw [alookup_map_spec]
    cases hfind : c.fields.find? fun f => f.name = s "children" with
    | none =>
      have : childTagsOf c = none :=
        childTagsOf_none (fun x hx => by simpa using List.find?_eq_none.1 hfind x hx)
      rw [this]; rfl
    | some f =>
      have h1 : f.name = s "children" := by simpa using List.find?_some hfind
      have h2 := List.mem_of_find?_eq_some hfind
      have hgd := (fieldW_unpack (hfw f h2)).2.2.1
      have hct := childTagsOf_mem hnd h2 h1
      cases hg : f.guard with
      | children tags =>
        rw [hg] at hct
        simp [hct, G, h1]
      | any => simp only [hg] at hgd; exact absurd h1 hgd
      | oneOf vals => simp only [hg] at hgd; exact absurd h1 hgd
      | number => simp only [hg] at hgd; exact absurd h1 hgd
  have hfields : ((c.fields.filter fun f => f.name ≠ s "children").map fun f => (f.name, g f)) = canonFields fields := by
    have := map_lookup cv fields hfn
    rw [hkeys, List.map_map] at this
    exact this
  unfold construct
  simp only [hs, hself, hrequired, hbuild, hscalar, hchildren, hfields, Bool.not_true, Bool.false_eq_true, if_false]

/-! ### serialise, then parse: parts and messages -/

theorem findClass_spec {t : Str} {c : ClassSpec} : ∀ {cs : List ClassSpec},
    findClass t cs = some c → c ∈ cs ∧ c.tag = t := by
  have aux : ∀ (cs : List ClassSpec) (acc : Option ClassSpec),
      cs.foldl (fun acc c => if c.tag = t then some c else acc) acc = some c →
        (c ∈ cs ∧ c.tag = t) ∨ acc = some c := by
    intro cs
    induction cs with
    | nil => intro acc h; exact Or.inr h
    | cons x xs ih =>
      intro acc h
      simp only [List.foldl_cons] at h
      rcases ih _ h with h1 | h1
      · exact Or.inl ⟨List.mem_cons_of_mem _ h1.1, h1.2⟩
      · split at h1
        · rename_i ht; cases h1; exact Or.inl ⟨List.mem_cons_self .., ht⟩
        · exact Or.inr h1
  intro cs h
  rcases aux cs none h with h1 | h1
  · exact h1
  · cases h1

/-- every class of the registry is well formed -/
def regW (reg : Registry) : Bool := reg.messages.all (classW false) && reg.parts.all (classW true)

theorem regW_generated : regW Generated.registry = true := by
  simp only [regW, registry_W.1, registry_W.2, Bool.and_self]

theorem regW_msg {reg : Registry} (h : regW reg = true) {t : Str} {c : ClassSpec}
    (hc : findClass t reg.messages = some c) : classW false c = true := by
  simp only [regW, Bool.and_eq_true, List.all_eq_true] at h
  exact h.1 c (findClass_spec hc).1

theorem regW_part {reg : Registry} (h : regW reg = true) {t : Str} {c : ClassSpec}
    (hc : findClass t reg.parts = some c) : classW true c = true := by
  simp only [regW, Bool.and_eq_true, List.all_eq_true] at h
  exact h.2 c (findClass_spec hc).1

theorem part_no_children {c : ClassSpec} (hW : classW true c = true) : childTagsOf c = none := by
  obtain ⟨_, hfw, _⟩ := classW_unpack hW
  apply childTagsOf_none
  intro f hf
  have := (fieldW_unpack (hfw f hf)).2.2.1
  cases hg : f.guard <;> simp only [hg] at this
  · exact this
  · exact this
  · exact this
  · exact absurd this.2.1 (by decide)

theorem canonVal_text (fields : List (Str × Option Str)) :
    (if ((valueOf fields).getD []).isEmpty then PyVal.none else PyVal.str (pyStrip ((valueOf fields).getD []))) =
      toPy (canonVal (valueOf fields)) := by
  cases valueOf fields with
  | none => rfl
  | some t =>
    simp only [Option.getD_some, canonVal]
    split <;> rfl

theorem value_ne_children : s "value" ≠ s "children" := by decide

theorem partKw_eq (tag : Str) (fields : List (Str × Option Str)) :
    partKw (partToXml { tag := tag, fields := fields }) =
      aset (s "value") (toPy (canonVal (valueOf fields))) (attrKw (presentAttrs fields)) := by
  rw [← canonVal_text]; rfl

theorem kwFor_part (tag : Str) (fields : List (Str × Option Str)) (hn : (fields.map Prod.fst).Nodup) :
    KwFor true fields [] (partKw (partToXml { tag := tag, fields := fields })) := by
  rw [partKw_eq]
  refine ⟨?_, ?_, ?_, ?_⟩
  · intro k h1 h2
    rw [alookup_aset', if_neg (Ne.symm h1), alookup_attrKw, alookup_presentAttrs fields hn k h1 h2]
  · rw [alookup_aset', if_pos rfl]; rfl
  · intro _
    rw [ahas, alookup_aset', if_pos rfl]; rfl
  · rw [alookup_aset', if_neg value_ne_children, alookup_attrKw, presentAttrs_special fields _ (Or.inr rfl)]
    rfl

theorem fieldsOk_nodup {isPart : Bool} {c : ClassSpec} (hW : classW isPart c = true)
    {fields : List (Str × Option Str)} (hf : fieldsOk isPart c fields = true) : (fields.map Prod.fst).Nodup := by
  rw [(fieldsOk_unpack hf).1]
  exact scalarSpecs_nodup (classW_unpack hW).1

theorem part_canon {reg : Registry} (hreg : regW reg = true) {p : Part} (h : validPart reg p = true) :
    partFromXml reg (partToXml p) = .ok (canonPart p) := by
  unfold validPart at h
  split at h
  · cases h
  · rename_i c hc
    simp only [Bool.and_eq_true] at h
    have hW := regW_part hreg hc
    have hn := fieldsOk_nodup hW h.2
    have := construct_canon hW h.1 h.2 (ps := []) (fun _ _ => rfl) (kwFor_part p.tag p.fields hn)
    rw [part_no_children hW] at this
    show (match findClass p.tag reg.parts with
      | none => Except.error Err.invalidTag
      | some c => constructPart c (partKw (partToXml p))) = _
    rw [hc]
    simp only [constructPart, this, Option.map_none, Option.isSome_none, Bool.false_eq_true, if_false,
      (findClass_spec hc).2]
    rfl

theorem parts_canon {reg : Registry} (hreg : regW reg = true) : ∀ {ps : List Part},
    (∀ p ∈ ps, validPart reg p = true) → partsFromXml reg (ps.map partToXml) = .ok (ps.map canonPart)
  | [], _ => rfl
  | p :: ps, h => by
    have h1 := part_canon hreg (h p (List.mem_cons_self ..))
    have h2 := parts_canon hreg (ps := ps) (fun q hq => h q (List.mem_cons_of_mem _ hq))
    simp only [List.map_cons, partsFromXml, h1, h2]

def kw1 (fields : List (Str × Option Str)) (ps : List Part) : List (Str × PyVal) :=
  if ps.isEmpty then attrKw (sortByKey (presentAttrs fields))
  else aset (s "children") (PyVal.parts ps) (attrKw (sortByKey (presentAttrs fields)))

theorem msgKw_eq (tag : Str) (fields : List (Str × Option Str)) (ch : Option (List Part)) (ps : List Part) :
    msgKw (toXml { tag := tag, fields := fields, children := ch }) ps =
      if ((valueOf fields).getD []).isEmpty then kw1 fields ps
      else aset (s "value") (PyVal.str (pyStrip ((valueOf fields).getD []))) (kw1 fields ps) := rfl

theorem kwFor_msg (tag : Str) (fields : List (Str × Option Str)) (ch : Option (List Part))
    (hn : (fields.map Prod.fst).Nodup) (ps : List Part) :
    KwFor false fields ps (msgKw (toXml { tag := tag, fields := fields, children := ch }) ps) := by
  have hsn : ((presentAttrs fields).map Prod.fst).Nodup := List.Nodup.sublist (presentAttrs_keys fields) hn
  have hattr : ∀ k, alookup k (attrKw (sortByKey (presentAttrs fields))) =
      (alookup k (presentAttrs fields)).map PyVal.str := fun k => by
    rw [alookup_attrKw, alookup_sortByKey k _ hsn]
  have hkw1 : ∀ k, k ≠ s "children" →
      alookup k (kw1 fields ps) = (alookup k (presentAttrs fields)).map PyVal.str := fun k hk => by
    unfold kw1
    split
    · exact hattr k
    · rw [alookup_aset', if_neg (Ne.symm hk)]; exact hattr k
  have hch : alookup (s "children") (kw1 fields ps) = if ps.isEmpty then none else some (PyVal.parts ps) := by
    unfold kw1
    split
    · rw [hattr, presentAttrs_special fields _ (Or.inr rfl)]; rfl
    · rw [alookup_aset', if_pos rfl]
  rw [msgKw_eq]
  by_cases ht : ((valueOf fields).getD []).isEmpty = true
  · rw [if_pos ht]
    refine ⟨?_, ?_, ?_, ?_⟩
    · intro k h1 h2
      rw [hkw1 k h2, alookup_presentAttrs fields hn k h1 h2]
    · rw [← canonVal_text, if_pos ht, hkw1 _ value_ne_children, presentAttrs_special fields _ (Or.inl rfl)]; rfl
    · intro h
      rcases h with h | ⟨t, htv, hne⟩
      · cases h
      · rw [htv] at ht; cases t <;> simp_all
    · rw [hch]; split <;> rfl
  · rw [if_neg ht]
    refine ⟨?_, ?_, ?_, ?_⟩
    · intro k h1 h2
      rw [alookup_aset', if_neg (Ne.symm h1), hkw1 k h2, alookup_presentAttrs fields hn k h1 h2]
    · rw [← canonVal_text, if_neg ht, alookup_aset', if_pos rfl]; rfl
    · intro _
      rw [ahas, alookup_aset', if_pos rfl]; rfl
    · rw [alookup_aset', if_neg value_ne_children, hch]; split <;> rfl

theorem msg_canon {reg : Registry} (hreg : regW reg = true) {m : Msg} (h : valid reg m = true) :
    fromXml reg (toXml m) = .ok (canon m) := by
  unfold valid at h
  split at h
  · cases h
  · rename_i c hc
    simp only [Bool.and_eq_true] at h
    obtain ⟨⟨hs, hf⟩, hchild⟩ := h
    have hW := regW_msg hreg hc
    have hn := fieldsOk_nodup hW hf
    have htag := (findClass_spec hc).2
    show (match findClass m.tag reg.messages with
      | none => Except.error Err.invalidTag
      | some c => match partsFromXml reg (toXml m).children with
        | .error e => .error e
        | .ok ps => construct c (msgKw (toXml m) ps)) = _
    rw [hc]
    obtain ⟨tag, fields, ch⟩ := m
    simp only at hchild hn hf htag
    subst htag
    cases hct : childTagsOf c with
    | none =>
      rw [hct] at hchild
      cases ch with
      | some ps => cases hchild
      | none =>
        have := construct_canon hW hs hf (ps := []) (fun _ _ => rfl) (kwFor_msg c.tag fields none hn [])
        rw [hct] at this
        exact this
    | some tags =>
      rw [hct] at hchild
      cases ch with
      | none => cases hchild
      | some ps =>
        simp only [List.all_eq_true, Bool.and_eq_true] at hchild
        have hps : partsFromXml reg (toXml { tag := c.tag, fields := fields, children := some ps }).children =
            .ok (ps.map canonPart) := parts_canon hreg (ps := ps) (fun p hp => (hchild p hp).2)
        have := construct_canon hW hs hf (ps := ps.map canonPart) (fun tags' htags' => by
            rw [hct] at htags'; cases htags'
            rw [List.all_eq_true]
            intro q hq
            obtain ⟨p, hp, rfl⟩ := List.mem_map.1 hq
            exact (hchild p hp).1)
          (kwFor_msg c.tag fields (some ps) hn (ps.map canonPart))
        rw [hct] at this
        rw [hps]
        exact this

/-! ### normalisation -/

theorem normVal_canonVal (v : Option Str) : normVal (canonVal v) = normVal v := by
  cases v with
  | none => rfl
  | some t =>
    cases t with
    | nil => rfl
    | cons c cs => simp [canonVal, normVal, pyStrip_idem]

theorem normFields_canon (fs : List (Str × Option Str)) : normFields (canonFields fs) = normFields fs := by
  simp only [normFields, canonFields, List.map_map]
  apply List.map_congr_left
  intro kv _
  obtain ⟨k, v⟩ := kv
  simp only [Function.comp, cv]
  split <;> simp [normVal_canonVal, *]

theorem normPart_canon (p : Part) : normPart (canonPart p) = normPart p := by
  simp only [normPart, canonPart, normFields_canon]

theorem norm_canon (m : Msg) : norm (canon m) = norm m := by
  obtain ⟨tag, fields, ch⟩ := m
  simp only [norm, canon, normFields_canon, Option.map_map]
  congr 1
  cases ch with
  | none => rfl
  | some ps =>
    simp only [Option.map_some, Function.comp, List.map_map, Option.some.injEq]
    apply List.map_congr_left
    intro p _
    exact normPart_canon p

theorem readsBack_of_valid {reg : Registry} (hreg : regW reg = true) {m : Msg} (h : valid reg m = true) :
    readsBack reg m = true := by
  simp only [readsBack, msg_canon hreg h, norm_canon, beq_self_eq_true]

/-! ### whatever `construct` accepts from a parser is valid -/

/-- the value `construct` stores for a field -/
def gv (kw : List (Str × PyVal)) (f : FieldSpec) : PyVal :=
  match checkGuard f.guard (kwGet kw f.source) with
  | .ok v => v
  | .error _ => .none

def toOpt : PyVal → Option Str
  | .str t => some t
  | _ => none

theorem buildFields_spec (kw : List (Str × PyVal)) : ∀ (L : List FieldSpec) (fs : List (Str × PyVal)),
    buildFields kw L = .ok fs →
      fs = L.map (fun f => (f.name, gv kw f)) ∧
      ∀ f ∈ L, checkGuard f.guard (kwGet kw f.source) = .ok (gv kw f)
  | [], fs, h => by
    simp only [buildFields, Except.ok.injEq] at h
    subst h
    exact ⟨rfl, fun f hf => by cases hf⟩
  | f :: L, fs, h => by
    simp only [buildFields] at h
    cases hck : checkGuard f.guard (kwGet kw f.source) with
    | error e => rw [hck] at h; cases h
    | ok v =>
      rw [hck] at h
      cases hb : buildFields kw L with
      | error e => rw [hb] at h; cases h
      | ok rest =>
        rw [hb] at h
        simp only [Except.ok.injEq] at h
        obtain ⟨h1, h2⟩ := buildFields_spec kw L rest hb
        have hgv : gv kw f = v := by simp only [gv, hck]
        refine ⟨?_, ?_⟩
        · rw [← h, h1, List.map_cons, hgv]
        · intro g hg
          rcases List.mem_cons.1 hg with rfl | hg
          · rw [hck, hgv]
          · exact h2 g hg

theorem scalarView_noparts (G : FieldSpec → PyVal) : ∀ (L : List FieldSpec) (sv : List (Str × Option Str)),
    scalarView (L.map fun f => (f.name, G f)) = .ok sv →
      ∀ f ∈ L, f.name ≠ s "children" → G f = toPy (toOpt (G f))
  | [], _, _ => fun f hf => by cases hf
  | g :: L, sv, h => by
    simp only [List.map_cons, scalarView] at h
    by_cases hc : g.name = s "children"
    · rw [if_pos hc] at h
      intro f hf hne
      rcases List.mem_cons.1 hf with rfl | hf
      · exact absurd hc hne
      · exact scalarView_noparts G L sv h f hf hne
    · rw [if_neg hc] at h
      cases hr : scalarView (L.map fun f => (f.name, G f)) with
      | error e => rw [hr] at h; cases hG : G g <;> rw [hG] at h <;> cases h
      | ok r =>
        intro f hf hne
        rcases List.mem_cons.1 hf with rfl | hf
        · cases hG : G f with
          | none => rfl
          | str t => rfl
          | parts ps => rw [hr, hG] at h; cases h
        · exact scalarView_noparts G L r hr f hf hne

theorem zip_map_all {α β : Type} (h : α → β) (P : α × β → Bool) :
    ∀ L : List α, (L.zip (L.map h)).all P = L.all fun a => P (a, h a)
  | [] => rfl
  | a :: L => by simp only [List.map_cons, List.zip_cons_cons, List.all_cons, zip_map_all h P L]

theorem construct_valid {isPart : Bool} {c : ClassSpec} (hW : classW isPart c = true) {kw : List (Str × PyVal)}
    (hnone : ∀ k, alookup k kw = some .none → isPart = true ∧ k = s "value")
    (Q : List Part → Prop) (hparts : ∀ k ps, alookup k kw = some (.parts ps) → Q ps)
    {m : Msg} (h : construct c kw = .ok m) :
    c.supported = true ∧ m.tag = c.tag ∧ fieldsOk isPart c m.fields = true ∧
    (match childTagsOf c, m.children with
     | none, none => True
     | some tags, some ps => ps.all (fun p => tags.contains p.tag) = true ∧ (ps = [] ∨ Q ps)
     | _, _ => False) := by
  obtain ⟨hnd, hfw, hreq⟩ := classW_unpack hW
  unfold construct at h
  split at h
  · cases h
  rename_i hsup
  split at h
  · cases h
  split at h
  · cases h
  rename_i hrq
  have hsup : c.supported = true := by simpa using hsup
  have hrq : ∀ r ∈ c.required, ahas r kw = true := by simpa using hrq
  cases hb : buildFields kw c.fields with
  | error e => rw [hb] at h; cases h
  | ok fs =>
    rw [hb] at h
    obtain ⟨hfs, hck⟩ := buildFields_spec kw c.fields fs hb
    subst hfs
    dsimp only at h
    cases hsv : scalarView (c.fields.map fun f => (f.name, gv kw f)) with
    | error e => rw [hsv] at h; cases h
    | ok sv =>
      cases hcv : childrenView (c.fields.map fun f => (f.name, gv kw f)) with
      | error e => rw [hsv, hcv] at h; cases h
      | ok ch =>
        rw [hsv, hcv] at h
        dsimp only at h
        simp only [Except.ok.injEq] at h
        subst h
        have hnp := scalarView_noparts (gv kw) c.fields sv hsv
        have hsv' := scalarView_map (gv kw) (fun f => toOpt (gv kw f)) c.fields hnp
        rw [hsv] at hsv'
        simp only [Except.ok.injEq] at hsv'
        refine ⟨hsup, rfl, ?_, ?_⟩
        · -- the scalar attributes
          simp only [fieldsOk, Bool.and_eq_true, beq_iff_eq]
          subst hsv'
          refine ⟨by simp only [List.map_map, scalarSpecs]; rfl, ?_⟩
          show ((scalarSpecs c).zip ((scalarSpecs c).map fun f => (f.name, toOpt (gv kw f)))).all _ = true
          rw [zip_map_all, List.all_eq_true]
          intro f hf
          have hfm := (List.mem_filter.1 hf).1
          have hne : f.name ≠ s "children" := by simpa using (List.mem_filter.1 hf).2
          have hck := hck f hfm
          have hnp := hnp f hfm hne
          obtain ⟨hsrc, _, hgd, _⟩ := fieldW_unpack (hfw f hfm)
          simp only [fieldOk, Bool.and_eq_true]
          generalize gv kw f = w at hck hnp
          refine ⟨?_, ?_⟩
          · -- the guard holds on the stored value
            cases hg : f.guard with
            | any => rfl
            | children tags => rfl
            | oneOf vals =>
              rw [hg] at hck
              cases hx : kwGet kw f.source with
              | none =>
                rw [hx] at hck
                simp only [checkGuard] at hck
                split at hck
                · rename_i hcond; cases hck; exact hcond
                · cases hck
              | str t =>
                rw [hx] at hck
                simp only [checkGuard] at hck
                split at hck
                · rename_i hcond; cases hck; exact hcond
                · cases hck
              | parts ps => rw [hx] at hck; cases hck
            | number =>
              rw [hg] at hck
              cases hx : kwGet kw f.source with
              | none => rw [hx] at hck; cases hck; rfl
              | str t =>
                rw [hx] at hck
                simp only [checkGuard] at hck
                split at hck
                · rename_i hcond; cases hck; exact hcond
                · cases hck
              | parts ps => rw [hx] at hck; cases hck
          · -- required attributes are present
            -- a `.parts` or guard-converted value cannot be stored in a scalar attribute
            have hstr : ∀ x, kwGet kw f.source = x → (∀ t, x = .str t → (toOpt w).isSome = true) ∧
                (x = .none → toOpt w = none) ∧ (∀ ps, x ≠ .parts ps) := by
              intro x hx
              rw [hx] at hck
              cases hg : f.guard with
              | any =>
                rw [hg] at hck; simp only [checkGuard, Except.ok.injEq] at hck; subst hck
                refine ⟨?_, ?_, ?_⟩
                · rintro t rfl; rfl
                · rintro rfl; rfl
                · rintro ps rfl; simp [toOpt, toPy] at hnp
              | children tags => rw [hg] at hgd; exact absurd hgd.1 hne
              | oneOf vals =>
                rw [hg] at hck
                refine ⟨?_, ?_, ?_⟩
                · rintro t rfl
                  simp only [checkGuard] at hck
                  split at hck
                  · cases hck; rfl
                  · cases hck
                · rintro rfl
                  simp only [checkGuard] at hck
                  split at hck
                  · cases hck; rfl
                  · cases hck
                · rintro ps rfl; cases hck
              | number =>
                rw [hg] at hck
                refine ⟨?_, ?_, ?_⟩
                · rintro t rfl
                  simp only [checkGuard] at hck
                  split at hck
                  · cases hck; rfl
                  · cases hck
                · rintro rfl; cases hck; rfl
                · rintro ps rfl; cases hck
            rcases hsrc with hsrc | hsrc
            · rw [hsrc]
              simp only [Bool.or_eq_true, Bool.not_eq_true', Bool.and_eq_true, decide_eq_true_eq]
              by_cases hr : c.required.contains f.name = true
              · have hhas := hrq f.name (List.contains_iff_mem.1 hr)
                simp only [ahas] at hhas
                obtain ⟨x, hx⟩ := Option.isSome_iff_exists.1 hhas
                have hk : kwGet kw f.source = x := by rw [hsrc]; simp only [kwGet, hx, Option.getD_some]
                obtain ⟨h1, _, h3⟩ := hstr x hk
                cases x with
                | none => exact Or.inr (hnone _ hx)
                | str t => exact Or.inl (Or.inr (h1 t rfl))
                | parts ps => exact absurd rfl (h3 ps)
              · exact Or.inl (Or.inl (by simpa using hr))
            · rw [hsrc]
              have hk : kwGet kw f.source = .none := by rw [hsrc]; rfl
              simp only [Option.isNone_iff_eq_none]
              exact (hstr _ hk).2.1 rfl
        · -- the children
          unfold childrenView at hcv
          rw [alookup_map_spec] at hcv
          cases hfind : c.fields.find? fun f => f.name = s "children" with
          | none =>
            rw [hfind] at hcv
            simp only [Option.map_none, Except.ok.injEq] at hcv
            subst hcv
            rw [childTagsOf_none (fun x hx => by simpa using List.find?_eq_none.1 hfind x hx)]
            trivial
          | some f =>
            rw [hfind] at hcv
            have h1 : f.name = s "children" := by simpa using List.find?_some hfind
            have h2 := List.mem_of_find?_eq_some hfind
            have hgd := (fieldW_unpack (hfw f h2)).2.2.1
            have hct := childTagsOf_mem hnd h2 h1
            have hck := hck f h2
            cases hg : f.guard with
            | any => simp only [hg] at hgd; exact absurd h1 hgd
            | oneOf vals => simp only [hg] at hgd; exact absurd h1 hgd
            | number => simp only [hg] at hgd; exact absurd h1 hgd
            | children tags =>
              rw [hg] at hct hck
              simp only [hg] at hgd
              rw [hct]
              simp only [Option.map_some] at hcv
              generalize gv kw f = w at hck hcv
              rw [hgd.2.2] at hck
              cases hx : kwGet kw (some (s "children")) with
              | none =>
                rw [hx] at hck; cases hck
                simp only [Except.ok.injEq] at hcv; subst hcv
                exact ⟨rfl, Or.inl rfl⟩
              | str t =>
                rw [hx] at hck
                simp only [checkGuard] at hck
                split at hck
                · cases hck
                  simp only [Except.ok.injEq] at hcv; subst hcv
                  exact ⟨rfl, Or.inl rfl⟩
                · cases hck
              | parts ps =>
                rw [hx] at hck
                simp only [checkGuard] at hck
                split at hck
                · rename_i hall
                  cases hck
                  simp only [Except.ok.injEq] at hcv; subst hcv
                  refine ⟨hall, Or.inr ?_⟩
                  simp only [kwGet] at hx
                  cases hl : alookup (s "children") kw with
                  | none => rw [hl] at hx; cases hx
                  | some y =>
                    rw [hl] at hx
                    simp only [Option.getD_some] at hx
                    subst hx
                    exact hparts _ _ hl
                · cases hck

/-! ### what is parsed is valid -/

theorem partKw_lookup (x : Elem1) (k : Str) (v : PyVal) (h : alookup k (partKw x) = some v) :
    (∃ t, v = .str t) ∨ (v = .none ∧ k = s "value") := by
  unfold partKw at h
  rw [alookup_aset'] at h
  split at h
  · rename_i hk
    simp only [Option.some.injEq] at h
    subst h
    split
    · exact Or.inr ⟨rfl, hk.symm⟩
    · exact Or.inl ⟨_, rfl⟩
  · rw [alookup_attrKw] at h
    cases hl : alookup k x.attrs with
    | none => rw [hl] at h; cases h
    | some t => rw [hl] at h; cases h; exact Or.inl ⟨t, rfl⟩

theorem part_parsed_valid {reg : Registry} (hreg : regW reg = true) {x : Elem1} {p : Part}
    (h : partFromXml reg x = .ok p) : validPart reg p = true := by
  unfold partFromXml at h
  split at h
  · cases h
  · rename_i c hc
    have hW := regW_part hreg hc
    unfold constructPart at h
    split at h
    · cases h
    · rename_i m hcon
      split at h
      · cases h
      · simp only [Except.ok.injEq] at h
        subst h
        obtain ⟨hs, htag, hf, _⟩ := construct_valid hW
          (fun k hk => by
            rcases partKw_lookup x k _ hk with ⟨t, ht⟩ | ⟨_, hk'⟩
            · cases ht
            · exact ⟨rfl, hk'⟩)
          (fun _ => False)
          (fun k ps hk => by
            rcases partKw_lookup x k _ hk with ⟨t, ht⟩ | ⟨ht, _⟩ <;> cases ht)
          hcon
        unfold validPart
        simp only [htag, (findClass_spec hc).2, hc, hs, hf, Bool.and_self]

theorem parts_parsed_valid {reg : Registry} (hreg : regW reg = true) : ∀ {xs : List Elem1} {ps : List Part},
    partsFromXml reg xs = .ok ps → ∀ p ∈ ps, validPart reg p = true
  | [], ps, h => by
    simp only [partsFromXml, Except.ok.injEq] at h
    subst h
    intro p hp; cases hp
  | x :: xs, ps, h => by
    simp only [partsFromXml] at h
    cases hp : partFromXml reg x with
    | error e => rw [hp] at h; cases h
    | ok p =>
      rw [hp] at h
      dsimp only at h
      cases hps : partsFromXml reg xs with
      | error e => rw [hps] at h; cases h
      | ok ps' =>
        rw [hps] at h
        simp only [Except.ok.injEq] at h
        subst h
        intro q hq
        rcases List.mem_cons.1 hq with rfl | hq
        · exact part_parsed_valid hreg hp
        · exact parts_parsed_valid hreg hps q hq

theorem msgKw_lookup (x : Elem) (ps : List Part) (k : Str) (v : PyVal) (h : alookup k (msgKw x ps) = some v) :
    (∃ t, v = .str t) ∨ v = .parts ps := by
  have hattr : ∀ v, alookup k (attrKw x.attrs) = some v → ∃ t, v = .str t := by
    intro v hv
    rw [alookup_attrKw] at hv
    cases hl : alookup k x.attrs with
    | none => rw [hl] at hv; cases hv
    | some t => rw [hl] at hv; cases hv; exact ⟨t, rfl⟩
  have hkw1 : ∀ v, alookup k (if ps.isEmpty then attrKw x.attrs
      else aset (s "children") (PyVal.parts ps) (attrKw x.attrs)) = some v → (∃ t, v = .str t) ∨ v = .parts ps := by
    intro v hv
    split at hv
    · exact Or.inl (hattr v hv)
    · rw [alookup_aset'] at hv
      split at hv
      · cases hv; exact Or.inr rfl
      · exact Or.inl (hattr v hv)
  unfold msgKw at h
  dsimp only at h
  split at h
  · exact hkw1 v h
  · rw [alookup_aset'] at h
    split at h
    · cases h; exact Or.inl ⟨_, rfl⟩
    · exact hkw1 v h

theorem msg_parsed_valid {reg : Registry} (hreg : regW reg = true) {x : Elem} {m : Msg}
    (h : fromXml reg x = .ok m) : valid reg m = true := by
  unfold fromXml at h
  split at h
  · cases h
  · rename_i c hc
    have hW := regW_msg hreg hc
    split at h
    · cases h
    · rename_i ps hps
      have hpv := parts_parsed_valid hreg hps
      obtain ⟨hs, htag, hf, hch⟩ := construct_valid hW
        (fun k hk => by
          rcases msgKw_lookup x ps k _ hk with ⟨t, ht⟩ | ht <;> cases ht)
        (fun ps' => ∀ p ∈ ps', validPart reg p = true)
        (fun k ps' hk => by
          rcases msgKw_lookup x ps k _ hk with ⟨t, ht⟩ | ht
          · cases ht
          · cases ht; exact hpv)
        h
      unfold valid
      rw [htag, (findClass_spec hc).2, hc]
      simp only [hs, hf, Bool.and_self, Bool.true_and]
      cases hct : childTagsOf c with
      | none =>
        rw [hct] at hch
        cases hmc : m.children with
        | none => rfl
        | some ps' => rw [hmc] at hch; exact hch.elim
      | some tags =>
        rw [hct] at hch
        cases hmc : m.children with
        | none => rw [hmc] at hch; exact hch.elim
        | some ps' =>
          rw [hmc] at hch
          simp only [List.all_eq_true, Bool.and_eq_true]
          dsimp only at hch
          rw [List.all_eq_true] at hch
          intro p hp
          refine ⟨hch.1 p hp, ?_⟩
          rcases hch.2 with rfl | hq
          · cases hp
          · exact hq p hp

/-! ### the fixed point -/

theorem canonVal_idem (v : Option Str) (h : ∀ t, v = some t → t ≠ [] → pyStrip t ≠ []) :
    canonVal (canonVal v) = canonVal v := by
  cases v with
  | none => rfl
  | some t =>
    cases t with
    | nil => rfl
    | cons c cs =>
      have := h _ rfl (by simp)
      have he : (pyStrip (c :: cs)).isEmpty = false := by
        cases hp : pyStrip (c :: cs) with
        | nil => exact absurd hp this
        | cons _ _ => rfl
      simp [canonVal, he, pyStrip_idem]

theorem canonFields_idem (fs : List (Str × Option Str)) (hn : (fs.map Prod.fst).Nodup)
    (h : ∀ t, valueOf fs = some t → t ≠ [] → pyStrip t ≠ []) :
    canonFields (canonFields fs) = canonFields fs := by
  simp only [canonFields, List.map_map]
  apply List.map_congr_left
  intro kv hkv
  obtain ⟨k, v⟩ := kv
  simp only [Function.comp, cv]
  by_cases hk : k = s "value"
  · subst hk
    have hv : valueOf fs = v := by rw [valueOf_eq, alookup_of_mem hn hkv]; rfl
    simp only [if_true]
    rw [canonVal_idem v (fun t ht => h t (hv.trans ht))]
  · simp only [if_neg hk]

theorem valid_nodup {reg : Registry} (hreg : regW reg = true) {m : Msg} (h : valid reg m = true) :
    (m.fields.map Prod.fst).Nodup ∧
    ∀ ps, m.children = some ps → ∀ p ∈ ps, (p.fields.map Prod.fst).Nodup := by
  unfold valid at h
  split at h
  · cases h
  · rename_i c hc
    simp only [Bool.and_eq_true] at h
    refine ⟨fieldsOk_nodup (regW_msg hreg hc) h.1.2, ?_⟩
    intro ps hps p hp
    have h2 := h.2
    rw [hps] at h2
    split at h2
    · rename_i heq; cases heq
    · rename_i tags ps' _ heq
      cases heq
      simp only [List.all_eq_true, Bool.and_eq_true] at h2
      have := (h2 p hp).2
      unfold validPart at this
      split at this
      · cases this
      · rename_i c' hc'
        simp only [Bool.and_eq_true] at this
        exact fieldsOk_nodup (regW_part hreg hc') this.2
    · cases h2

theorem canon_idem {reg : Registry} (hreg : regW reg = true) {m : Msg} (hv : valid reg m = true)
    (hf : ∀ t, valueOf m.fields = some t → t ≠ [] → pyStrip t ≠ [])
    (hc : ∀ ps, m.children = some ps → ∀ p ∈ ps, ∀ t, valueOf p.fields = some t → t ≠ [] → pyStrip t ≠ []) :
    canon (canon m) = canon m := by
  obtain ⟨hn, hnc⟩ := valid_nodup hreg hv
  obtain ⟨tag, fields, ch⟩ := m
  simp only [canon, canonFields_idem fields hn hf, Option.map_map]
  congr 1
  cases ch with
  | none => rfl
  | some ps =>
    simp only [Option.map_some, Function.comp, List.map_map, Option.some.injEq]
    apply List.map_congr_left
    intro p hp
    show canonPart (canonPart p) = canonPart p
    have := canonFields_idem p.fields (hnc ps rfl p hp) (hc ps rfl p hp)
    simp only [canonPart, this]

/-- parse ∘ serialise is idempotent on messages without blank (non-empty, whitespace-only) text -/
theorem fixed_point {reg : Registry} (hreg : regW reg = true) {m m' : Msg} (hv : valid reg m = true)
    (hf : ∀ t, valueOf m.fields = some t → t ≠ [] → pyStrip t ≠ [])
    (hc : ∀ ps, m.children = some ps → ∀ p ∈ ps, ∀ t, valueOf p.fields = some t → t ≠ [] → pyStrip t ≠ [])
    (hp : fromXml reg (toXml m) = .ok m') : fromXml reg (toXml m') = .ok m' := by
  have hv' := msg_parsed_valid hreg hp
  rw [msg_canon hreg hv] at hp
  cases hp
  rw [msg_canon hreg hv', canon_idem hreg hv hf hc]

end Indi.C03
