/-
  C01, part 5: delivery of a batch to one peer, seen per (device, property): the final view is
  the fold of `updP` over the messages that address it, in their order of arrival; and what that
  fold yields for the kinds of batches drivers emit.
-/
import Indi.Proofs.Sys4
import Indi.Proofs.SysWire

namespace Indi.SysP
open Indi Indi.Dev Indi.Cli Indi.Sys Indi.Spec.Sys Indi.Spec.Dev

abbrev reg := Generated.registry

/-- a message as drivers emit them: the parser reads it back as `canon m`; a `delProperty` names a property -/
def Emitted (m : Msg) : Prop :=
  wire reg m = some (C03.canon m) ∧ (m.tag = s "delProperty" → (attr m.fields "name").isSome = true)

/-- what one arriving message does to the view it addresses, for a peer with these flags -/
def updP (blobs ip : Bool) (oc : Option CVec) (m : Msg) : Option CVec :=
  if isSetBlob m && !blobs then oc else upd oc (rdm ip m)

theorem recv_emitted (p : Peer) (m : Msg) (h : Emitted m) :
    recv reg p m = if isSetBlob m && !p.blobs then p
      else { p with mirror := (processMessage p.mirror (rdm p.inproc m)).mirror } := by
  unfold recv rdm
  split
  · rfl
  · cases hip : p.inproc
    · simp [h.1]
    · simp

theorem recv_flags (p : Peer) (m : Msg) :
    (recv reg p m).blobs = p.blobs ∧ (recv reg p m).inproc = p.inproc ∧ (recv reg p m).also = p.also := by
  unfold recv
  split
  · exact ⟨rfl, rfl, rfl⟩
  · split <;> exact ⟨rfl, rfl, rfl⟩

theorem recv_wf (p : Peer) (m : Msg) (hwf : VWf p.mirror) : VWf (recv reg p m).mirror := by
  unfold recv
  split
  · exact hwf
  · split
    · exact hwf
    · exact VWf_processMessage _ _ hwf

theorem deliver_flags (L : List Msg) : ∀ p : Peer,
    (deliver reg p L).blobs = p.blobs ∧ (deliver reg p L).inproc = p.inproc ∧ (deliver reg p L).also = p.also := by
  induction L with
  | nil => intro p; exact ⟨rfl, rfl, rfl⟩
  | cons m L ih =>
    intro p
    obtain ⟨h1, h2, h3⟩ := ih (recv reg p m)
    obtain ⟨k1, k2, k3⟩ := recv_flags p m
    exact ⟨h1.trans k1, h2.trans k2, h3.trans k3⟩

theorem deliver_wf (L : List Msg) : ∀ p : Peer, VWf p.mirror → VWf (deliver reg p L).mirror := by
  induction L with
  | nil => intro p h; exact h
  | cons m L ih => intro p h; exact ih _ (recv_wf p m h)

theorem look_recv (p : Peer) (m : Msg) (h : Emitted m) (hwf : VWf p.mirror) (dn vn : Option Str) :
    look (recv reg p m).mirror dn vn =
      if key m = (dn, vn) then updP p.blobs p.inproc (look p.mirror dn vn) m else look p.mirror dn vn := by
  rw [recv_emitted p m h]
  unfold updP
  by_cases hsk : (isSetBlob m && !p.blobs) = true
  · simp [hsk]
  · simp only [hsk, Bool.false_eq_true, if_false]
    rw [look_process _ _ hwf, rdm_key]
    intro ht
    rw [rdm_tag] at ht
    rw [rdm_attr _ _ "name" (by decide)]
    exact h.2 ht

/-- the view of a property after a batch has arrived: the fold over the messages that address it -/
theorem look_deliver (L : List Msg) (dn vn : Option Str) : ∀ p : Peer, (∀ m ∈ L, Emitted m) → VWf p.mirror →
    look (deliver reg p L).mirror dn vn =
      (L.filter fun m => decide (key m = (dn, vn))).foldl (updP p.blobs p.inproc) (look p.mirror dn vn) := by
  induction L with
  | nil => intro p _ _; rfl
  | cons m L ih =>
    intro p hE hwf
    have hm := hE m List.mem_cons_self
    have ih' := ih (recv reg p m) (fun x hx => hE x (List.mem_cons_of_mem _ hx)) (recv_wf p m hwf)
    obtain ⟨k1, k2, _⟩ := recv_flags p m
    show look (deliver reg (recv reg p m) L).mirror dn vn = _
    rw [ih', k1, k2, look_recv p m hm hwf]
    by_cases hk : key m = (dn, vn)
    · simp [hk]
    · simp [hk]

/-- the devices a mirror knows after a batch: those before and those a definition names -/
theorem devkeys_deliver (L : List Msg) : ∀ p : Peer, (∀ m ∈ L, Emitted m) →
    ∀ k ∈ (deliver reg p L).mirror.map Prod.fst,
      k ∈ p.mirror.map Prod.fst ∨ ∃ m ∈ L, k = attr m.fields "device" := by
  induction L with
  | nil => intro p _ k hk; exact Or.inl hk
  | cons m L ih =>
    intro p hE k hk
    have hm := hE m List.mem_cons_self
    rcases ih (recv reg p m) (fun x hx => hE x (List.mem_cons_of_mem _ hx)) k hk with h | ⟨m', hm', hk'⟩
    · rw [recv_emitted p m hm] at h
      split at h
      · exact Or.inl h
      · have hname : (rdm p.inproc m).tag = s "delProperty" → (attr (rdm p.inproc m).fields "name").isSome = true := by
          intro ht
          rw [rdm_tag] at ht
          rw [rdm_attr _ _ "name" (by decide)]
          exact hm.2 ht
        rcases devkeys_process _ _ hname k h with h' | ⟨_, h'⟩
        · exact Or.inl h'
        · right
          refine ⟨m, List.mem_cons_self, ?_⟩
          rw [h', rdm_attr _ _ "device" (by decide)]
    · exact Or.inr ⟨m', List.mem_cons_of_mem _ hm', hk'⟩

/-! ### messages about a vector -/

/-- a definition of a vector that looks like `(g', v')` -/
def IsDef (dn : Str) (g' : Group) (v' : Vec) (m : Msg) : Prop :=
  ∃ g v, defMsg dn g v = .ok m ∧ vecEnabled g v = true ∧ VG v ∧ ViewEq g v g' v'

/-- an update of a vector that looks like `(g', v')` -/
def IsSetV (dn : Str) (g' : Group) (v' : Vec) (m : Msg) : Prop :=
  ∃ g v, setMsg dn g v = .ok (some m) ∧ VG v ∧ ViewEq g v g' v'

/-- an update of a vector of the shape of `(g', v')` -/
def IsSetS (dn : Str) (g' : Group) (v' : Vec) (m : Msg) : Prop :=
  ∃ g v, setMsg dn g v = .ok (some m) ∧ VG v ∧ ShapeEq g v g' v'

theorem IsSetV.toS {dn g' v' m} (h : IsSetV dn g' v' m) : IsSetS dn g' v' m := by
  obtain ⟨g, v, h1, h2, h3⟩ := h
  exact ⟨g, v, h1, h2, h3.shape⟩

def Shaped (g' : Group) (v' : Vec) (oc : Option CVec) : Prop := ∃ c, oc = some c ∧ vecShape g' v' c

def GoodV (b : Bool) (g' : Group) (v' : Vec) (oc : Option CVec) : Prop := ∃ c, oc = some c ∧ vecShown b g' v' c = true

theorem GoodV.shaped {b g' v' oc} (h : GoodV b g' v' oc) : Shaped g' v' oc := by
  obtain ⟨c, h1, h2⟩ := h
  exact ⟨c, h1, vecShape_of_shown h2⟩

theorem GoodV.of_true {b g' v' oc} (h : GoodV true g' v' oc) : GoodV b g' v' oc := by
  cases b
  · obtain ⟨c, h1, h2⟩ := h
    exact ⟨c, h1, shown_false_of_true h2⟩
  · exact h

theorem isSetBlob_delMsg (dn vn : Str) : isSetBlob (delMsg dn vn) = false := by
  show decide (s "delProperty" = s "setBLOBVector") = false
  decide

theorem isSetBlob_of_def {dn g v m} (h : defMsg dn g v = .ok m) : isSetBlob m = false := by
  by_cases hen : vecEnabled g v = true
  · obtain ⟨_, _, htag, _⟩ := defMsg_enabled h hen
    exact isSetBlob_def _ _ htag
  · simp only [Bool.not_eq_true] at hen
    rw [defMsg_disabled h hen]
    exact isSetBlob_delMsg _ _

theorem isSetBlob_of_set {dn g v m} (h : setMsg dn g v = .ok (some m)) : isSetBlob m = decide (v.kind = .blob) := by
  obtain ⟨_, _, _, htag, _⟩ := setMsg_some h
  exact isSetBlob_set _ _ htag

theorem updP_def {dn g' v' m} (h : IsDef dn g' v' m) (b ip : Bool) (oc : Option CVec) :
    GoodV b g' v' (updP b ip oc m) := by
  obtain ⟨g, v, hm, hen, hg, hv⟩ := h
  unfold updP
  rw [isSetBlob_of_def hm]
  simp only [Bool.false_and, Bool.false_eq_true, if_false]
  obtain ⟨c, h1, h2⟩ := upd_def hm hen hg.nodup ip b oc
  exact ⟨c, h1, by rw [vecShown_congr hv]; exact h2⟩

theorem updP_setS {dn g' v' m} (h : IsSetS dn g' v' m) (b ip : Bool) {oc : Option CVec} (hs : Shaped g' v' oc) :
    Shaped g' v' (updP b ip oc m) := by
  obtain ⟨g, v, hm, hg, hv⟩ := h
  unfold updP
  split
  · exact hs
  · obtain ⟨c, rfl, hc⟩ := hs
    have hc' : vecShape g v c := (vecShape_congr hv c).1 hc
    obtain ⟨c', h1, h2⟩ := upd_set hm hg ip hc'
    exact ⟨c', h1, (vecShape_congr hv c').2 (vecShape_of_shown h2)⟩

theorem updP_setV {dn g' v' m} (h : IsSetV dn g' v' m) (b ip : Bool) {oc : Option CVec} (hs : GoodV b g' v' oc) :
    GoodV b g' v' (updP b ip oc m) := by
  obtain ⟨g, v, hm, hg, hv⟩ := h
  unfold updP
  split
  · exact hs
  · obtain ⟨c, rfl, hc⟩ := hs
    have hc' : vecShape g v c := (vecShape_congr hv.shape c).1 (vecShape_of_shown hc)
    obtain ⟨c', h1, h2⟩ := upd_set hm hg ip hc'
    exact GoodV.of_true ⟨c', h1, by rw [vecShown_congr hv]; exact h2⟩

/-- an update that describes the final view, arriving at a view of the right shape -/
theorem updP_setV_shaped {dn g' v' m} (h : IsSetV dn g' v' m) (b ip : Bool) {oc : Option CVec} (hs : Shaped g' v' oc) :
    GoodV b g' v' (updP b ip oc m) := by
  obtain ⟨g, v, hm, hg, hv⟩ := h
  unfold updP
  split
  · rename_i hsk
    -- skipped: a BLOB update for a peer without BLOBs, which sees the shape only
    rw [isSetBlob_of_set hm] at hsk
    simp only [Bool.and_eq_true, decide_eq_true_eq, Bool.not_eq_true'] at hsk
    obtain ⟨c, rfl, hc⟩ := hs
    refine ⟨c, rfl, ?_⟩
    rw [hsk.2]
    exact shown_false_of_shape (hv.2.2.2.1.trans hsk.1) hc
  · obtain ⟨c, rfl, hc⟩ := hs
    have hc' : vecShape g v c := (vecShape_congr hv.shape c).1 hc
    obtain ⟨c', h1, h2⟩ := upd_set hm hg ip hc'
    exact GoodV.of_true ⟨c', h1, by rw [vecShown_congr hv]; exact h2⟩

/-! ### folds -/

theorem fold_good (dn : Str) (g' : Group) (v' : Vec) (b ip : Bool) :
    ∀ (A : List Msg) (oc : Option CVec), (∀ m ∈ A, IsDef dn g' v' m ∨ IsSetV dn g' v' m) → GoodV b g' v' oc →
      GoodV b g' v' (A.foldl (updP b ip) oc)
  | [], _, _, h => h
  | m :: A, oc, hA, h => by
    refine fold_good dn g' v' b ip A _ (fun x hx => hA x (List.mem_cons_of_mem _ hx)) ?_
    rcases hA m List.mem_cons_self with hd | hs
    · exact updP_def hd b ip oc
    · exact updP_setV hs b ip h

/-- announcements: once a definition has arrived the view is good, whatever was there and in whatever order -/
theorem fold_ann (dn : Str) (g' : Group) (v' : Vec) (b ip : Bool) :
    ∀ (A : List Msg) (oc : Option CVec), (∀ m ∈ A, IsDef dn g' v' m ∨ IsSetV dn g' v' m) →
      (∃ m ∈ A, IsDef dn g' v' m) → GoodV b g' v' (A.foldl (updP b ip) oc)
  | [], _, _, h => by obtain ⟨m, hm, _⟩ := h; cases hm
  | m :: A, oc, hA, hex => by
    have hA' : ∀ x ∈ A, IsDef dn g' v' x ∨ IsSetV dn g' v' x := fun x hx => hA x (List.mem_cons_of_mem _ hx)
    by_cases hd : IsDef dn g' v' m
    · exact fold_good dn g' v' b ip A _ hA' (updP_def hd b ip oc)
    · -- an update arriving before the definition: whatever it does, the definition follows
      have hex' : ∃ x ∈ A, IsDef dn g' v' x := by
        obtain ⟨x, hx, hxd⟩ := hex
        rcases List.mem_cons.1 hx with rfl | hx
        · exact absurd hxd hd
        · exact ⟨x, hx, hxd⟩
      exact fold_ann dn g' v' b ip A _ hA' hex'

/-- writes: every update keeps the shape, the last one describes the final view -/
theorem fold_shaped (dn : Str) (g' : Group) (v' : Vec) (b ip : Bool) :
    ∀ (A : List Msg) (oc : Option CVec), (∀ m ∈ A, IsSetS dn g' v' m) → Shaped g' v' oc →
      Shaped g' v' (A.foldl (updP b ip) oc)
  | [], _, _, h => h
  | m :: A, _, hA, h =>
    fold_shaped dn g' v' b ip A _ (fun x hx => hA x (List.mem_cons_of_mem _ hx))
      (updP_setS (hA m List.mem_cons_self) b ip h)

theorem fold_wr (dn : Str) (g' : Group) (v' : Vec) (b ip : Bool) (A : List Msg) (oc : Option CVec)
    (hA : ∀ m ∈ A, IsSetS dn g' v' m) (last : Msg) (hl : A.getLast? = some last) (hlv : IsSetV dn g' v' last)
    (hoc : Shaped g' v' oc) : GoodV b g' v' (A.foldl (updP b ip) oc) := by
  obtain ⟨A', rfl⟩ : ∃ A', A = A' ++ [last] := by
    rw [List.getLast?_eq_some_iff] at hl
    exact hl
  rw [List.foldl_append]
  simp only [List.foldl_cons, List.foldl_nil]
  exact updP_setV_shaped hlv b ip
    (fold_shaped dn g' v' b ip A' oc (fun m hm => hA m (List.mem_append_left _ hm)) hoc)

theorem fold_del (dn vn : Str) (b ip : Bool) :
    ∀ (A : List Msg) (oc : Option CVec), (∀ m ∈ A, m = delMsg dn vn) → A ≠ [] → A.foldl (updP b ip) oc = none
  | [], _, _, h => absurd rfl h
  | m :: A, oc, hA, _ => by
    have hm := hA m List.mem_cons_self
    have h1 : updP b ip oc m = none := by
      subst hm
      unfold updP
      have : isSetBlob (delMsg dn vn) = false := isSetBlob_delMsg dn vn
      simp only [this, Bool.false_and, Bool.false_eq_true, if_false]
      exact upd_del dn vn ip oc
    simp only [List.foldl_cons, h1]
    by_cases hA' : A = []
    · subst hA'; rfl
    · exact fold_del dn vn b ip A none (fun x hx => hA x (List.mem_cons_of_mem _ hx)) hA'

/-! ### orders of arrival -/

/-- the ways a batch can arrive at a peer: as the model's `arrivals`, or in order of publication -/
def Arrival (p : Peer) (ms L : List Msg) : Prop := L ∈ arrivals p ms ∨ L = ms

theorem arrival_sub {p : Peer} {ms L : List Msg} (h : Arrival p ms L) : ∀ m ∈ L, m ∈ ms := by
  intro m hm
  rcases h with h | rfl
  · unfold arrivals at h
    split at h
    · rw [List.mem_singleton] at h; subst h; exact hm
    · split at h
      · rcases (mem_of_mem_merges _ _ _ h m).1 hm with h' | h'
        · exact h'
        · exact (List.mem_filter.1 h').1
      · rcases (mem_of_mem_merges _ _ _ h m).1 hm with h' | h'
        · exact (List.mem_filter.1 h').1
        · exact (List.mem_filter.1 h').1
  · exact hm

theorem arrival_sup {p : Peer} {ms L : List Msg} (h : Arrival p ms L) : ∀ m ∈ ms, isSetBlob m = false → m ∈ L := by
  intro m hm hsb
  rcases h with h | rfl
  · unfold arrivals at h
    split at h
    · rw [List.mem_singleton] at h; subst h; exact hm
    · split at h
      · exact (mem_of_mem_merges _ _ _ h m).2 (Or.inl hm)
      · exact (mem_of_mem_merges _ _ _ h m).2 (Or.inl (List.mem_filter.2 ⟨hm, by simp [hsb]⟩))
  · exact hm

/-- when all messages about a property travel on the same connection, they arrive in order (possibly twice) -/
theorem arrival_last {p : Peer} {ms L : List Msg} (h : Arrival p ms L) (q : Msg → Bool) (β : Bool)
    (hβ : ∀ m ∈ ms.filter q, isSetBlob m = β) (hne : ms.filter q ≠ []) :
    (L.filter q).getLast? = (ms.filter q).getLast? ∧ L.filter q ≠ [] := by
  have key : ∀ A : List Msg, A ∈ merges (ms.filter q) ((ms.filter q).filter isSetBlob) ∨
      A ∈ merges ((ms.filter q).filter fun m => !isSetBlob m) ((ms.filter q).filter isSetBlob) ∨ A = ms.filter q →
      A.getLast? = (ms.filter q).getLast? ∧ A ≠ [] := by
    intro A hA
    cases β with
    | false =>
      have e1 : (ms.filter q).filter isSetBlob = [] := by
        rw [List.filter_eq_nil_iff]; intro m hm; simp [hβ m hm]
      have e2 : ((ms.filter q).filter fun m => !isSetBlob m) = ms.filter q := by
        rw [List.filter_eq_self]; intro m hm; simp [hβ m hm]
      rw [e1, e2, merges_nil_right] at hA
      have : A = ms.filter q := by
        rcases hA with h | h | h
        · simpa using h
        · simpa using h
        · exact h
      rw [this]; exact ⟨rfl, hne⟩
    | true =>
      have e1 : (ms.filter q).filter isSetBlob = ms.filter q := by
        rw [List.filter_eq_self]; intro m hm; simp [hβ m hm]
      have e2 : ((ms.filter q).filter fun m => !isSetBlob m) = [] := by
        rw [List.filter_eq_nil_iff]; intro m hm; simp [hβ m hm]
      rw [e1, e2, merges_nil_left] at hA
      rcases hA with h | h | h
      · refine ⟨by rcases getLast?_merges _ _ _ h with h' | h' <;> exact h', ?_⟩
        intro hA0
        subst hA0
        obtain ⟨x, hx⟩ := List.exists_mem_of_ne_nil _ hne
        have := (mem_of_mem_merges _ _ _ h x).2 (Or.inl hx)
        simp at this
      · have : A = ms.filter q := by simpa using h
        rw [this]; exact ⟨rfl, hne⟩
      · rw [h]; exact ⟨rfl, hne⟩
  apply key
  rcases h with h | rfl
  · unfold arrivals at h
    split at h
    · rw [List.mem_singleton] at h; subst h; exact Or.inr (Or.inr rfl)
    · split at h
      · left
        have := filter_mem_merges q _ _ _ h
        rwa [List.filter_filter, show (fun a => q a && isSetBlob a) = (fun a => isSetBlob a && q a) from
          funext fun a => Bool.and_comm _ _, ← List.filter_filter] at this
      · right; left
        have := filter_mem_merges q _ _ _ h
        rw [List.filter_filter, List.filter_filter] at this
        rw [List.filter_filter, List.filter_filter]
        have c1 : (fun a => q a && !isSetBlob a) = (fun a => (!isSetBlob a) && q a) :=
          funext fun a => Bool.and_comm _ _
        have c2 : (fun a => q a && isSetBlob a) = (fun a => isSetBlob a && q a) :=
          funext fun a => Bool.and_comm _ _
        rw [c1, c2] at this
        exact this
  · exact Or.inr (Or.inr rfl)

end Indi.SysP
