/-
  Helper lemmas for Properties/DevA.lean (C12, C14, WF preservation of the driver model).
-/
import Indi.Spec.Dev

namespace Indi.Dev
open Indi Indi.Spec.Dev

/-! ### generic list facts -/

theorem zip_all_of_forall {α β : Type} (l : List α) (l' : List β) (p : α × β → Bool)
    (h : ∀ (i : Nat) x y, l[i]? = some x → l'[i]? = some y → p (x, y) = true) : (l.zip l').all p = true := by
  rw [List.all_eq_true]
  intro z hz
  obtain ⟨i, hi⟩ := List.mem_iff_getElem?.1 hz
  rw [List.getElem?_zip_eq_some] at hi
  exact h i z.1 z.2 hi.1 hi.2

theorem zipIdx_all_of_forall {α : Type} (l : List α) (p : α × Nat → Bool)
    (h : ∀ (i : Nat) x, l[i]? = some x → p (x, i) = true) : l.zipIdx.all p = true := by
  rw [List.all_eq_true]
  intro z hz
  rw [List.mem_zipIdx_iff_getElem?] at hz
  exact h z.2 z.1 hz

theorem all_set {α : Type} (l : List α) (p : α → Bool) (i : Nat) (x : α)
    (h : l.all p = true) (hx : p x = true) : (l.set i x).all p = true := by
  rw [List.all_eq_true] at *
  intro y hy
  rcases List.mem_or_eq_of_mem_set hy with h1 | h1
  · exact h y h1
  · exact h1 ▸ hx

theorem getElem?_some_of_length_eq {α β : Type} {l : List α} {l' : List β} (hl : l'.length = l.length)
    {i : Nat} {x : α} (h : l[i]? = some x) : ∃ y, l'[i]? = some y := by
  have : i < l.length := by
    rcases List.getElem?_eq_some_iff.1 h with ⟨h1, _⟩; exact h1
  exact ⟨l'[i]'(by omega), List.getElem?_eq_getElem (by omega)⟩

/-! ### relations between devices -/

/-- `d'` has the same shape as `d` (groups, group flags, number of vectors); corresponding vectors are related by `R` -/
structure DevRel (R : Nat → Nat → Vec → Vec → Prop) (d d' : Device) : Prop where
  glen : d'.groups.length = d.groups.length
  grp : ∀ gi g g', d.groups[gi]? = some g → d'.groups[gi]? = some g' →
    g'.enabled = g.enabled ∧ g'.vecs.length = g.vecs.length ∧
    ∀ vi v v', g.vecs[vi]? = some v → g'.vecs[vi]? = some v' → R gi vi v v'

theorem DevRel.refl {R} (hr : ∀ gi vi w, R gi vi w w) (d : Device) : DevRel R d d := by
  refine ⟨rfl, ?_⟩
  intro gi g g' h1 h2
  rw [h1] at h2; cases h2
  refine ⟨rfl, rfl, ?_⟩
  intro vi v v' h3 h4
  rw [h3] at h4; cases h4
  exact hr _ _ _

theorem DevRel.trans {R} (ht : ∀ gi vi a b c, R gi vi a b → R gi vi b c → R gi vi a c) {d1 d2 d3 : Device}
    (h12 : DevRel R d1 d2) (h23 : DevRel R d2 d3) : DevRel R d1 d3 := by
  refine ⟨h23.glen.trans h12.glen, ?_⟩
  intro gi g g'' h1 h3
  obtain ⟨g', h2⟩ := getElem?_some_of_length_eq h12.glen h1
  obtain ⟨e1, l1, r1⟩ := h12.grp gi g g' h1 h2
  obtain ⟨e2, l2, r2⟩ := h23.grp gi g' g'' h2 h3
  refine ⟨e2.trans e1, l2.trans l1, ?_⟩
  intro vi v v'' k1 k3
  obtain ⟨v', k2⟩ := getElem?_some_of_length_eq l1 k1
  exact ht _ _ _ _ _ (r1 vi v v' k1 k2) (r2 vi v' v'' k2 k3)

theorem DevRel.mono {R R' : Nat → Nat → Vec → Vec → Prop} (h : ∀ gi vi a b, R gi vi a b → R' gi vi a b) {d d' : Device}
    (hd : DevRel R d d') : DevRel R' d d' := by
  refine ⟨hd.glen, ?_⟩
  intro gi g g' h1 h2
  obtain ⟨e, l, r⟩ := hd.grp gi g g' h1 h2
  exact ⟨e, l, fun vi v v' k1 k2 => h _ _ _ _ (r vi v v' k1 k2)⟩

theorem getVec_eq_some {d : Device} {gi vi : Nat} {g : Group} {v : Vec} :
    getVec d gi vi = some (g, v) ↔ d.groups[gi]? = some g ∧ g.vecs[vi]? = some v := by
  unfold getVec
  cases h : d.groups[gi]? with
  | none => simp
  | some g0 =>
    simp only [Option.map_eq_some_iff, Option.some.injEq, Prod.mk.injEq]
    constructor
    · rintro ⟨a, h1, rfl, rfl⟩; exact ⟨rfl, h1⟩
    · rintro ⟨rfl, h1⟩; exact ⟨v, h1, rfl, rfl⟩

theorem DevRel.of_setVec {R} (hr : ∀ gi vi w, R gi vi w w) {d : Device} {gi vi : Nat} {g : Group} {v v' : Vec}
    (h : getVec d gi vi = some (g, v)) (hv : R gi vi v v') : DevRel R d (setVec d gi vi v') := by
  rw [getVec_eq_some] at h
  refine ⟨by simp [setVec], ?_⟩
  intro gj g1 g2 h1 h2
  simp only [setVec, List.getElem?_modify, h1, Option.map_eq_map, Option.map_some] at h2
  cases h2
  by_cases hg : gi = gj
  · subst hg
    rw [h.1] at h1; cases h1
    refine ⟨by simp, by simp, ?_⟩
    intro vj w w' k1 k2
    simp only [if_true, List.getElem?_set] at k2
    by_cases hvi : vi = vj
    · subst hvi
      rw [h.2] at k1; cases k1
      have : vi < g.vecs.length := by
        rcases List.getElem?_eq_some_iff.1 h.2 with ⟨h1, _⟩; exact h1
      simp [this] at k2
      subst k2; exact hv
    · simp [hvi] at k2
      rw [k1] at k2; cases k2; exact hr _ _ _
  · refine ⟨by simp [hg], by simp [hg], ?_⟩
    intro vj w w' k1 k2
    simp only [hg, if_false] at k2
    rw [k1] at k2; cases k2; exact hr _ _ _

theorem getVec_setVec_same {d : Device} {gi vi : Nat} {g : Group} {v v' : Vec}
    (h : getVec d gi vi = some (g, v)) : getVec (setVec d gi vi v') gi vi = some ({ g with vecs := g.vecs.set vi v' }, v') := by
  rw [getVec_eq_some] at h
  rw [getVec_eq_some]
  have : vi < g.vecs.length := by
    rcases List.getElem?_eq_some_iff.1 h.2 with ⟨h1, _⟩; exact h1
  simp [setVec, h.1, this]

/-! ### well-formedness -/

def vnames (d : Device) : List (List Str) := d.groups.map fun g => g.vecs.map (·.name)

theorem WF_iff (d : Device) : WF d = true ↔
    (∀ gi vi g v, getVec d gi vi = some (g, v) → vecOk v = true) ∧ (vnames d).flatten.Nodup := by
  have hn : (allVecs d).map (fun gv => gv.2.name) = (vnames d).flatten := by
    simp [allVecs, vnames, List.map_flatten, List.map_map, Function.comp_def]
  simp only [WF, namesDistinct, hn, Bool.and_eq_true, decide_eq_true_eq, List.all_eq_true]
  constructor
  · rintro ⟨h1, h2⟩
    refine ⟨?_, h2⟩
    intro gi vi g v hv
    rw [getVec_eq_some] at hv
    exact h1 g (List.mem_iff_getElem?.2 ⟨gi, hv.1⟩) v (List.mem_iff_getElem?.2 ⟨vi, hv.2⟩)
  · rintro ⟨h1, h2⟩
    refine ⟨?_, h2⟩
    intro g hg v hv
    obtain ⟨gi, hgi⟩ := List.mem_iff_getElem?.1 hg
    obtain ⟨vi, hvi⟩ := List.mem_iff_getElem?.1 hv
    exact h1 gi vi g v (getVec_eq_some.2 ⟨hgi, hvi⟩)

/-- the relation WF preservation needs -/
def Rwf (_ _ : Nat) (v v' : Vec) : Prop := v'.name = v.name ∧ (vecOk v = true → vecOk v' = true)

theorem Rwf.refl (gi vi : Nat) (w : Vec) : Rwf gi vi w w := ⟨rfl, id⟩
theorem Rwf.trans (gi vi : Nat) (a b c : Vec) (h1 : Rwf gi vi a b) (h2 : Rwf gi vi b c) : Rwf gi vi a c :=
  ⟨h2.1.trans h1.1, fun h => h2.2 (h1.2 h)⟩

theorem DevRel.vnames {d d' : Device} (h : DevRel Rwf d d') : vnames d' = vnames d := by
  apply List.ext_getElem?
  intro gi
  simp only [Indi.Dev.vnames, List.getElem?_map]
  cases h1 : d.groups[gi]? with
  | none =>
    have : d'.groups[gi]? = none := by
      rw [List.getElem?_eq_none_iff] at *; rw [h.glen]; exact h1
    simp [this]
  | some g =>
    obtain ⟨g', h2⟩ := getElem?_some_of_length_eq h.glen h1
    obtain ⟨_, l, r⟩ := h.grp gi g g' h1 h2
    simp only [h2, Option.map_some, Option.some.injEq]
    apply List.ext_getElem?
    intro vi
    simp only [List.getElem?_map]
    cases k1 : g.vecs[vi]? with
    | none =>
      have : g'.vecs[vi]? = none := by
        rw [List.getElem?_eq_none_iff] at *; rw [l]; exact k1
      simp [this]
    | some v =>
      obtain ⟨v', k2⟩ := getElem?_some_of_length_eq l k1
      simp [k2, (r vi v v' k1 k2).1]

theorem DevRel.wf {d d' : Device} (h : DevRel Rwf d d') (hwf : WF d = true) : WF d' = true := by
  rw [WF_iff] at *
  refine ⟨?_, by rw [h.vnames]; exact hwf.2⟩
  intro gi vi g' v' hv'
  rw [getVec_eq_some] at hv'
  obtain ⟨g, h1⟩ := getElem?_some_of_length_eq h.glen.symm hv'.1
  obtain ⟨_, l, r⟩ := h.grp gi g g' h1 hv'.1
  obtain ⟨v, k1⟩ := getElem?_some_of_length_eq l.symm hv'.2
  exact (r vi v v' k1 hv'.2).2 (hwf.1 gi vi g v (getVec_eq_some.2 ⟨h1, k1⟩))

/-! ### the frame relation on vectors -/

/-- `v'` is `v` up to element values; a value may differ only for refreshing elements and where `F` allows -/
structure VR (F : Nat → Nat → Kind → Str → Prop) (gi vi : Nat) (v v' : Vec) : Prop where
  name : v'.name = v.name
  kind : v'.kind = v.kind
  state : v'.state = v.state
  enabled : v'.enabled = v.enabled
  ok : vecOk v = true → vecOk v' = true
  len : v'.elems.length = v.elems.length
  el : ∀ (i : Nat) e e', v.elems[i]? = some e → v'.elems[i]? = some e' →
        e'.d = e.d ∧ e'.enabled = e.enabled ∧ (e'.value = e.value ∨ hasRefresh e = true ∨ F gi vi v.kind e.d.name)

theorem VR.refl (F) (gi vi : Nat) (w : Vec) : VR F gi vi w w := by
  refine ⟨rfl, rfl, rfl, rfl, id, rfl, ?_⟩
  intro i e e' h1 h2
  rw [h1] at h2; cases h2
  exact ⟨rfl, rfl, Or.inl rfl⟩

theorem VR.trans (F) (gi vi : Nat) (a b c : Vec) (h1 : VR F gi vi a b) (h2 : VR F gi vi b c) : VR F gi vi a c := by
  refine ⟨h2.name.trans h1.name, h2.kind.trans h1.kind, h2.state.trans h1.state, h2.enabled.trans h1.enabled,
    fun h => h2.ok (h1.ok h), h2.len.trans h1.len, ?_⟩
  intro i e e'' k1 k3
  obtain ⟨e', k2⟩ := getElem?_some_of_length_eq h1.len k1
  obtain ⟨a1, a2, a3⟩ := h1.el i e e' k1 k2
  obtain ⟨b1, b2, b3⟩ := h2.el i e' e'' k2 k3
  refine ⟨b1.trans a1, b2.trans a2, ?_⟩
  rcases a3 with a3 | a3 | a3
  · rcases b3 with b3 | b3 | b3
    · exact Or.inl (b3.trans a3)
    · right; left; simpa [hasRefresh, a1] using b3
    · right; right; simpa [h1.kind, a1] using b3
  · exact Or.inr (Or.inl a3)
  · exact Or.inr (Or.inr a3)

theorem VR.mono {F F' : Nat → Nat → Kind → Str → Prop} (h : ∀ gi vi k n, F gi vi k n → F' gi vi k n)
    (gi vi : Nat) (a b : Vec) (hv : VR F gi vi a b) : VR F' gi vi a b := by
  refine ⟨hv.name, hv.kind, hv.state, hv.enabled, hv.ok, hv.len, ?_⟩
  intro i e e' k1 k2
  obtain ⟨a1, a2, a3⟩ := hv.el i e e' k1 k2
  refine ⟨a1, a2, ?_⟩
  rcases a3 with a3 | a3 | a3
  · exact Or.inl a3
  · exact Or.inr (Or.inl a3)
  · exact Or.inr (Or.inr (h _ _ _ _ a3))

theorem VR.toWf (F) (gi vi : Nat) (a b : Vec) (hv : VR F gi vi a b) : Rwf gi vi a b := ⟨hv.name, hv.ok⟩

theorem DevRel.wf' {F} {d d' : Device} (h : DevRel (VR F) d d') (hwf : WF d = true) : WF d' = true :=
  (h.mono (VR.toWf F)).wf hwf

/-! ### refreshVec -/

theorem elemOk_afterRead (k : Kind) (e : Elem) (h : elemOk k e = true) : elemOk k (afterRead e) = true := by
  unfold elemOk afterRead readValue at *
  cases hr : e.d.refresh with
  | none => simpa [hr] using h
  | some v =>
    simp only [hr, Bool.and_eq_true] at *
    exact ⟨⟨h.1.2.1, h.1.2⟩, h.2⟩

theorem elemOk_setValue (k : Kind) (e : Elem) (x : Value) (h : elemOk k e = true) (hx : valueOk k x = true) :
    elemOk k { e with value := x } = true := by
  unfold elemOk at *
  simp only [Bool.and_eq_true] at *
  exact ⟨⟨hx, h.1.2⟩, h.2⟩

theorem VR_refreshVec (F) (gi vi : Nat) (v : Vec) : VR F gi vi v (refreshVec v) := by
  refine ⟨rfl, rfl, rfl, rfl, ?_, by simp [refreshVec], ?_⟩
  · intro h
    simp only [vecOk, refreshVec, Bool.and_eq_true, List.all_eq_true, List.mem_map] at *
    refine ⟨h.1, ?_⟩
    rintro x ⟨e, he, rfl⟩
    split
    · exact elemOk_afterRead _ _ (h.2 e he)
    · exact h.2 e he
  · intro i e e' k1 k2
    simp only [refreshVec, List.getElem?_map, k1, Option.map_some, Option.some.injEq] at k2
    subst k2
    split
    · refine ⟨rfl, rfl, ?_⟩
      simp only [afterRead, readValue, hasRefresh]
      cases e.d.refresh <;> simp
    · exact ⟨rfl, rfl, Or.inl rfl⟩

/-! ### refreshDef: the reads made while building a definition -/

theorem refreshDef_blob {v : Vec} (h : v.kind = .blob) : refreshDef v = v := by
  unfold refreshDef; rw [if_pos h]

theorem refreshDef_nonblob {v : Vec} (h : v.kind ≠ .blob) : refreshDef v = refreshVec v := by
  unfold refreshDef; rw [if_neg h]

theorem refreshDef_cases (v : Vec) : refreshDef v = v ∨ refreshDef v = refreshVec v := by
  unfold refreshDef; split
  · exact Or.inl rfl
  · exact Or.inr rfl

@[simp] theorem refreshVec_name (v : Vec) : (refreshVec v).name = v.name := rfl
@[simp] theorem refreshVec_label (v : Vec) : (refreshVec v).label = v.label := rfl
@[simp] theorem refreshVec_kind (v : Vec) : (refreshVec v).kind = v.kind := rfl
@[simp] theorem refreshVec_perm (v : Vec) : (refreshVec v).perm = v.perm := rfl
@[simp] theorem refreshVec_timeout (v : Vec) : (refreshVec v).timeout = v.timeout := rfl
@[simp] theorem refreshVec_rule (v : Vec) : (refreshVec v).rule = v.rule := rfl
@[simp] theorem refreshVec_state (v : Vec) : (refreshVec v).state = v.state := rfl
@[simp] theorem refreshDef_name (v : Vec) : (refreshDef v).name = v.name := by unfold refreshDef; split <;> rfl
@[simp] theorem refreshDef_label (v : Vec) : (refreshDef v).label = v.label := by unfold refreshDef; split <;> rfl
@[simp] theorem refreshDef_kind (v : Vec) : (refreshDef v).kind = v.kind := by unfold refreshDef; split <;> rfl
@[simp] theorem refreshDef_perm (v : Vec) : (refreshDef v).perm = v.perm := by unfold refreshDef; split <;> rfl
@[simp] theorem refreshDef_timeout (v : Vec) : (refreshDef v).timeout = v.timeout := by unfold refreshDef; split <;> rfl
@[simp] theorem refreshDef_rule (v : Vec) : (refreshDef v).rule = v.rule := by unfold refreshDef; split <;> rfl
@[simp] theorem refreshDef_state (v : Vec) : (refreshDef v).state = v.state := by unfold refreshDef; split <;> rfl
@[simp] theorem refreshDef_enabled (v : Vec) : (refreshDef v).enabled = v.enabled := by unfold refreshDef; split <;> rfl
@[simp] theorem refreshDef_elems_length (v : Vec) : (refreshDef v).elems.length = v.elems.length := by
  unfold refreshDef; split
  · rfl
  · simp [refreshVec]

theorem vecEnabled_refreshVec (g : Group) (v : Vec) : vecEnabled g (refreshVec v) = vecEnabled g v := rfl
theorem vecEnabled_refreshDef (g : Group) (v : Vec) : vecEnabled g (refreshDef v) = vecEnabled g v := by
  simp [vecEnabled]

theorem afterRead_idem (e : Elem) : afterRead (afterRead e) = afterRead e := by
  unfold afterRead readValue
  cases h : e.d.refresh <;> simp

/-- reading twice is reading once -/
theorem refreshVec_idem (v : Vec) : refreshVec (refreshVec v) = refreshVec v := by
  unfold refreshVec
  simp only [List.map_map]
  congr 1
  apply List.map_congr_left
  intro e _
  simp only [Function.comp]
  by_cases he : e.enabled = true
  · have : (afterRead e).enabled = true := he
    simp [he, this, afterRead_idem]
  · simp [he]

/-- the set message after a definition completes the reads the definition did not make -/
theorem refreshVec_refreshDef (v : Vec) : refreshVec (refreshDef v) = refreshVec v := by
  rcases refreshDef_cases v with h | h <;> rw [h]
  exact refreshVec_idem v

theorem VR_refreshDef (F) (gi vi : Nat) (v : Vec) : VR F gi vi v (refreshDef v) := by
  rcases refreshDef_cases v with h | h <;> rw [h]
  · exact VR.refl F gi vi v
  · exact VR_refreshVec F gi vi v

theorem assignAt_length (rule : Switch.Rule) (vals : List Bool) (i : Nat) (b : Bool) :
    (Switch.assignAt rule vals i b).length = vals.length := by
  unfold Switch.assignAt
  repeat' split
  all_goals simp

theorem valueOk_onOff (b : Bool) : valueOk .switch (.text (onOff b)) = true := by cases b <;> decide

def CVSpec (v : Vec) (val : Value) (v1 : Vec) (stored : Value) : Prop :=
    v1.name = v.name ∧ v1.kind = v.kind ∧ v1.state = v.state ∧ v1.enabled = v.enabled ∧
    (vecOk v = true → vecOk v1 = true) ∧ valueOk v.kind stored = true ∧ v1.elems.length = v.elems.length ∧
    (∀ (i : Nat) e e', v.elems[i]? = some e → v1.elems[i]? = some e' →
       e'.d = e.d ∧ e'.enabled = e.enabled ∧ (e'.value = e.value ∨ v.kind = .switch)) ∧
    (v.kind ≠ .switch → v1 = v ∧ stored = val)

theorem CVSpec_same (v : Vec) (val : Value) (h : valueOk v.kind val = true) : CVSpec v val v val := by
  refine ⟨rfl, rfl, rfl, rfl, id, h, rfl, ?_, fun _ => ⟨rfl, rfl⟩⟩
  intro i e e' h1 h2
  rw [h1] at h2; cases h2
  exact ⟨rfl, rfl, Or.inl rfl⟩

theorem putBools_spec (v : Vec) (bs : List Bool) (hl : bs.length = v.elems.length) (hk : v.kind = .switch) :
    (vecOk v = true → vecOk (putBools v bs) = true) ∧ (putBools v bs).elems.length = v.elems.length ∧
    (∀ (i : Nat) e e', v.elems[i]? = some e → (putBools v bs).elems[i]? = some e' →
       e'.d = e.d ∧ e'.enabled = e.enabled) := by
  refine ⟨?_, by simp [putBools, hl], ?_⟩
  · intro h
    simp only [vecOk, putBools, Bool.and_eq_true, List.all_eq_true, List.mem_map] at *
    refine ⟨h.1, ?_⟩
    rintro x ⟨⟨e, b⟩, he, rfl⟩
    have he' := (List.of_mem_zip he).1
    simp only
    split
    · exact h.2 e he'
    · apply elemOk_setValue _ _ _ (h.2 e he')
      rw [hk]; exact valueOk_onOff b
  · intro i e e' k1 k2
    simp only [putBools, List.getElem?_map, Option.map_eq_some_iff] at k2
    obtain ⟨⟨e0, b⟩, k3, rfl⟩ := k2
    rw [List.getElem?_zip_eq_some] at k3
    rw [k1] at k3
    cases k3.1
    simp only
    split <;> exact ⟨rfl, rfl⟩

theorem checkValue_spec {v : Vec} {ei : Nat} {val : Value} {v1 : Vec} {stored : Value}
    (h : checkValue v ei val = .ok (v1, stored)) (ht : typeOk v.kind val = true) :
    CVSpec v val v1 stored := by
  unfold checkValue at h
  cases hk : v.kind <;> simp only [hk] at h ht
  · cases h
    apply CVSpec_same; rw [hk]
    cases val <;> simp_all [typeOk, valueOk]
  · split at h
    · split at h
      · split at h <;> cases h
      · cases h
        apply CVSpec_same; rw [hk]
        simp_all [valueOk]
    · cases h
      apply CVSpec_same; rw [hk]
      cases val <;> simp_all [typeOk, valueOk]
  · split at h
    · split at h
      · cases h
        rename_i t ht2
        have hl : ((Switch.assignAt (v.rule.getD .oneOfMany) (bools v) ei (t = s "On")).set ei
            (switchOn ((v.elems[ei]?.map (·.value)).getD .none))).length = v.elems.length := by
          simp [assignAt_length, bools]
        obtain ⟨p1, p2, p3⟩ := putBools_spec v _ hl hk
        refine ⟨rfl, rfl, rfl, rfl, p1, by rw [hk]; exact valueOk_onOff _, p2, ?_, fun h => absurd hk h⟩
        intro i e e' k1 k2
        obtain ⟨q1, q2⟩ := p3 i e e' k1 k2
        exact ⟨q1, q2, Or.inr hk⟩
      · cases h
    · cases h
  · split at h
    · split at h
      · cases h
        apply CVSpec_same; rw [hk]
        simp_all [valueOk]
      · cases h
    · cases h
  · cases h
    apply CVSpec_same; rw [hk]
    cases val <;> simp_all [typeOk, valueOk]

def asgV2 (v1 : Vec) (ei : Nat) (e : Elem) (stored : Value) : Vec :=
  { v1 with elems := v1.elems.set ei { (v1.elems[ei]?.getD e) with value := stored } }

def asgV3 (g : Group) (v2 : Vec) : Vec := if vecEnabled g v2 then refreshVec v2 else v2

def asgNow (v3 : Vec) (ei : Nat) (stored : Value) : Value := (v3.elems[ei]?.map (·.value)).getD stored

theorem assign_cases (d : Device) (a : Addr) (val : Value) (g : Group) (v : Vec) (e : Elem)
    (hv : getVec d a.g a.v = some (g, v)) (he : v.elems[a.e]? = some e) :
    (typeOk v.kind val = false ∧ assign d a val = { dev := d, exc := some .assertionError }) ∨
    (typeOk v.kind val = true ∧ ∃ x, checkValue v a.e val = .error x ∧ assign d a val = { dev := d, exc := some x }) ∨
    (typeOk v.kind val = true ∧ ∃ v1 stored, checkValue v a.e val = .ok (v1, stored) ∧
      ((∃ x, setMsg d.name g (asgV2 v1 a.e e stored) = .error x ∧
          assign d a val = { dev := setVec d a.g a.v (asgV2 v1 a.e e stored), exc := some x }) ∨
       (∃ m, setMsg d.name g (asgV2 v1 a.e e stored) = .ok m ∧
          assign d a val =
            { dev := setVec d a.g a.v (asgV3 g (asgV2 v1 a.e e stored)), msgs := m.toList,
              calls := (if pyNe e.value (asgNow (asgV3 g (asgV2 v1 a.e e stored)) a.e stored)
                then fireChange e.d.changeH e.value (asgNow (asgV3 g (asgV2 v1 a.e e stored)) a.e stored) else ([], [])).1,
              tasks := (if pyNe e.value (asgNow (asgV3 g (asgV2 v1 a.e e stored)) a.e stored)
                then fireChange e.d.changeH e.value (asgNow (asgV3 g (asgV2 v1 a.e e stored)) a.e stored) else ([], [])).2 }))) := by
  unfold assign
  simp only [hv, he]
  cases ht : typeOk v.kind val
  · simp
  · simp only [Bool.not_true, Bool.false_eq_true, if_false, true_and]
    cases hc : checkValue v a.e val with
    | error x => simp
    | ok p =>
      obtain ⟨v1, stored⟩ := p
      simp only [reduceCtorEq, false_and, exists_false, false_or, Except.ok.injEq, Prod.mk.injEq]
      refine ⟨v1, stored, ⟨rfl, rfl⟩, ?_⟩
      cases hs : setMsg d.name g (asgV2 v1 a.e e stored) with
      | error x => left; refine ⟨x, rfl, ?_⟩; simp only [asgV2] at hs; simp only [hs]; rfl
      | ok m => right; refine ⟨m, rfl, ?_⟩; simp only [asgV2] at hs; simp only [hs]; rfl

theorem VR_asgV2 {F} {gi vi : Nat} {v v1 : Vec} {ei : Nat} {val stored : Value} {e : Elem}
    (hc : checkValue v ei val = .ok (v1, stored)) (ht : typeOk v.kind val = true) (he : v.elems[ei]? = some e)
    (hF1 : v.kind = .switch → ∀ nm, F gi vi .switch nm) (hF2 : F gi vi v.kind e.d.name) :
    VR F gi vi v (asgV2 v1 ei e stored) := by
  obtain ⟨c1, c2, c3, c4, c5, c6, c7, c8, c9⟩ := checkValue_spec hc ht
  obtain ⟨e1, he1⟩ := getElem?_some_of_length_eq c7 he
  refine ⟨c1, c2, c3, c4, ?_, by simp [asgV2, c7], ?_⟩
  · intro h
    have h1 := c5 h
    simp only [vecOk, asgV2, Bool.and_eq_true] at *
    refine ⟨h1.1, ?_⟩
    apply all_set _ _ _ _ h1.2
    apply elemOk_setValue
    · rw [he1]; exact (List.all_eq_true.1 h1.2) e1 (List.mem_of_getElem? he1)
    · rw [c2]; exact c6
  · intro i x x' k1 k2
    simp only [asgV2, List.getElem?_set] at k2
    by_cases hi : ei = i
    · subst hi
      rw [he] at k1; cases k1
      have : ei < v1.elems.length := by
        rcases List.getElem?_eq_some_iff.1 he1 with ⟨h1, _⟩; exact h1
      simp only [if_true, this, he1, Option.getD_some, Option.some.injEq] at k2
      subst k2
      obtain ⟨q1, q2, _⟩ := c8 ei e e1 he he1
      exact ⟨q1, q2, Or.inr (Or.inr hF2)⟩
    · simp only [hi, if_false] at k2
      obtain ⟨q1, q2, q3⟩ := c8 i x x' k1 k2
      refine ⟨q1, q2, ?_⟩
      rcases q3 with q3 | q3
      · exact Or.inl q3
      · right; right; rw [q3]; exact hF1 q3 _

theorem VR_asgV3 (F) (gi vi : Nat) (g : Group) (v : Vec) : VR F gi vi v (asgV3 g v) := by
  unfold asgV3; split
  · exact VR_refreshVec F gi vi v
  · exact VR.refl F gi vi v

/-- the vector after its definition was built -/
def defV3 (g : Group) (v : Vec) : Vec := if vecEnabled g v then refreshDef v else v

theorem VR_defV3 (F) (gi vi : Nat) (g : Group) (v : Vec) : VR F gi vi v (defV3 g v) := by
  unfold defV3; split
  · exact VR_refreshDef F gi vi v
  · exact VR.refl F gi vi v

/-- definition then set message: together they read what a set message alone reads -/
theorem asgV3_defV3 (g : Group) (v : Vec) : asgV3 g (defV3 g v) = asgV3 g v := by
  unfold asgV3 defV3
  by_cases h : vecEnabled g v = true
  · simp [h, vecEnabled_refreshDef, refreshVec_refreshDef]
  · simp [h]

theorem assign_rel {F} (d : Device) (a : Addr) (val : Value)
    (hF : ∀ g v e, getVec d a.g a.v = some (g, v) → v.elems[a.e]? = some e →
      (v.kind = .switch → ∀ nm, F a.g a.v .switch nm) ∧ F a.g a.v v.kind e.d.name) :
    DevRel (VR F) d (assign d a val).dev := by
  cases hv : getVec d a.g a.v with
  | none => simp only [assign, hv]; exact DevRel.refl (VR.refl F) d
  | some p =>
    obtain ⟨g, v⟩ := p
    cases he : v.elems[a.e]? with
    | none => simp only [assign, hv, he]; exact DevRel.refl (VR.refl F) d
    | some e =>
      obtain ⟨hF1, hF2⟩ := hF g v e hv he
      rcases assign_cases d a val g v e hv he with ⟨_, h⟩ | ⟨_, x, _, h⟩ | ⟨ht, v1, stored, hc, ⟨x, _, h⟩ | ⟨m, _, h⟩⟩
      · rw [h]; exact DevRel.refl (VR.refl F) d
      · rw [h]; exact DevRel.refl (VR.refl F) d
      · rw [h]; exact DevRel.of_setVec (VR.refl F) hv (VR_asgV2 hc ht he hF1 hF2)
      · rw [h]; exact DevRel.of_setVec (VR.refl F) hv
          (VR.trans F _ _ _ _ _ (VR_asgV2 hc ht he hF1 hF2) (VR_asgV3 F _ _ g _))

theorem setValue_dev (d : Device) (a : Addr) (val : Value) :
    (setValue d a val).dev = d ∨ (setValue d a val).dev = (assign d a val).dev := by
  unfold setValue
  split
  · left; rfl
  · split
    · left; rfl
    · dsimp only
      split
      · left; rfl
      · right; rfl

theorem setValue_rel {F} (d : Device) (a : Addr) (val : Value)
    (hF : ∀ g v e, getVec d a.g a.v = some (g, v) → v.elems[a.e]? = some e →
      (v.kind = .switch → ∀ nm, F a.g a.v .switch nm) ∧ F a.g a.v v.kind e.d.name) :
    DevRel (VR F) d (setValue d a val).dev := by
  rcases setValue_dev d a val with h | h <;> rw [h]
  · exact DevRel.refl (VR.refl F) d
  · exact assign_rel d a val hF

theorem findElemByName_some {v : Vec} {n : Str} {ei : Nat} (h : findElemByName v n = some ei) :
    ∃ e, v.elems[ei]? = some e ∧ e.d.name = n := by
  unfold findElemByName at h
  rw [Option.map_eq_some_iff] at h
  obtain ⟨⟨e, i⟩, h1, rfl⟩ := h
  have h2 := List.find?_some h1
  have h3 := List.mem_of_find?_eq_some h1
  rw [List.mem_reverse, List.mem_zipIdx_iff_getElem?] at h3
  exact ⟨e, h3, by simpa using h2⟩

theorem findVecByName_some {d : Device} {n : Str} {gi vi : Nat} (h : findVecByName d n = some (gi, vi)) :
    ∃ g v, getVec d gi vi = some (g, v) ∧ v.name = n := by
  unfold findVecByName at h
  simp only [Option.map_eq_some_iff] at h
  obtain ⟨⟨nm, gj, vj⟩, h1, h4⟩ := h
  have h2 := List.find?_some h1
  have h3 := List.mem_of_find?_eq_some h1
  simp only [Prod.mk.injEq] at h4
  obtain ⟨rfl, rfl⟩ := h4
  simp only [List.mem_reverse, List.mem_flatten, List.mem_map] at h3
  obtain ⟨l, ⟨⟨g, gi'⟩, hg, rfl⟩, hl⟩ := h3
  simp only [List.mem_map] at hl
  obtain ⟨⟨v, vi'⟩, hv, hh⟩ := hl
  simp only [Prod.mk.injEq] at hh
  obtain ⟨rfl, rfl, rfl⟩ := hh
  rw [List.mem_zipIdx_iff_getElem?] at hg hv
  exact ⟨g, v, getVec_eq_some.2 ⟨hg, hv⟩, by simpa using h2⟩

/-- the elements a `new*Vector` may touch in vector (gi0, vi0) -/
def Free (gi0 vi0 : Nat) (names : List Str) : Nat → Nat → Kind → Str → Prop :=
  fun gi vi k nm => gi = gi0 ∧ vi = vi0 ∧ (k = .switch ∨ nm ∈ names)

def NoFree : Nat → Nat → Kind → Str → Prop := fun _ _ _ _ => False

def childName (p : Part) : Option Str := (alookup (s "name") p.fields).getD none

theorem mergeRes_dev (a b : Result) : (mergeRes a b).dev = b.dev := rfl

theorem applyChildren_rel (gi vi : Nat) (names : List Str) (ps : List Part) :
    ∀ d, (∀ p ∈ ps, ∀ n, childName p = some n → n ∈ names) →
      DevRel (VR (Free gi vi names)) d (applyChildren gi vi d ps).dev := by
  induction ps with
  | nil => intro d _; exact DevRel.refl (VR.refl _) d
  | cons p ps ih =>
    intro d hn
    have ih' := fun d => ih d (fun p hp => hn p (List.mem_cons_of_mem _ hp))
    unfold applyChildren
    split
    · exact DevRel.refl (VR.refl _) d
    · rename_i g v hv
      dsimp only
      split
      · exact ih' d
      · rename_i ei hei
        split
        · exact ih' d
        · rename_i val hval
          have hrel : DevRel (VR (Free gi vi names)) d (setValue d ⟨gi, vi, ei⟩ val).dev := by
            apply setValue_rel
            intro g' v' e hv' he
            dsimp only at hv' he
            rw [hv] at hv'; cases hv'
            refine ⟨fun hk nm => ⟨rfl, rfl, Or.inl rfl⟩, rfl, rfl, Or.inr ?_⟩
            cases hnm : childName p with
            | none => simp [childName] at hnm; simp [hnm] at hei
            | some n =>
              simp only [childName] at hnm
              simp only [hnm, Option.bind_some] at hei
              obtain ⟨e0, k1, k2⟩ := findElemByName_some hei
              rw [he] at k1; cases k1
              rw [k2]; exact hn p (List.mem_cons_self) n hnm
          split
          · split
            · rw [mergeRes_dev]
              exact DevRel.trans (VR.trans _) hrel (ih' _)
            · exact hrel
          · rw [mergeRes_dev]
            exact DevRel.trans (VR.trans _) hrel (ih' _)

theorem sendDefs_rel (F) (l : List (Nat × Nat)) : ∀ d, DevRel (VR F) d (sendDefs d l).dev := by
  induction l with
  | nil => intro d; exact DevRel.refl (VR.refl _) d
  | cons p l ih =>
    intro d
    obtain ⟨gi, vi⟩ := p
    unfold sendDefs
    split
    · exact ih d
    · rename_i g v hv
      split
      · exact DevRel.refl (VR.refl _) d
      · dsimp only
        rw [mergeRes_dev]
        refine DevRel.trans (VR.trans _) (DevRel.of_setVec (VR.refl F) hv ?_) (ih _)
        exact VR_defV3 F gi vi g v

theorem mapParts_ok (f : Elem → Except Exc Part) (l : List Elem) (h : ∀ e ∈ l, ∃ p, f e = .ok p) :
    ∃ ps, mapParts f l = .ok ps := by
  induction l with
  | nil => exact ⟨[], rfl⟩
  | cons e l ih =>
    obtain ⟨ps, hps⟩ := ih (fun e he => h e (List.mem_cons_of_mem _ he))
    obtain ⟨p, hp⟩ := h e List.mem_cons_self
    unfold mapParts
    split
    · simp only [hp, hps]; exact ⟨_, rfl⟩
    · exact ⟨ps, hps⟩

theorem mapParts_err (f : Elem → Except Exc Part) (l : List Elem) (x : Exc) (h : mapParts f l = .error x) :
    ∃ e ∈ l, f e = .error x := by
  induction l with
  | nil => simp [mapParts] at h
  | cons e l ih =>
    unfold mapParts at h
    split at h
    · split at h
      · rename_i y hy; cases h; exact ⟨e, List.mem_cons_self, hy⟩
      · split at h
        · rename_i y hy
          cases h
          obtain ⟨e', h1, h2⟩ := ih hy
          exact ⟨e', List.mem_cons_of_mem _ h1, h2⟩
        · cases h
    · obtain ⟨e', h1, h2⟩ := ih h
      exact ⟨e', List.mem_cons_of_mem _ h1, h2⟩

theorem numToStr_ok (f : Str) (x : Rat) (h : fmtOk f = true) : ∃ t, Num.numToStr Num.exactIEEE f x = .ok t := by
  unfold fmtOk at h
  unfold Num.numToStr
  cases hp : Num.parseFmt f with
  | none => simp [hp] at h
  | some fm =>
    simp only [hp] at h ⊢
    cases fm with
    | sexa frac =>
      simp only [Option.isSome_iff_exists] at h
      obtain ⟨b, hb⟩ := h
      simp only [Num.render, hb]; exact ⟨_, rfl⟩
    | f fl w p => exact ⟨_, rfl⟩
    | d fl w p => exact ⟨_, rfl⟩

theorem valueOk_readValue (k : Kind) (e : Elem) (h : elemOk k e = true) : valueOk k (readValue e) = true := by
  have := elemOk_afterRead k e h
  simp only [elemOk, afterRead, Bool.and_eq_true] at this
  exact this.1.1

theorem defPart_ok (k : Kind) (e : Elem) (h : elemOk k e = true) : ∃ p, defPart k e = .ok p := by
  have hv := valueOk_readValue k e h
  unfold defPart
  cases k
  · cases hr : readValue e <;> simp_all [valueOk]
  · have hf : fmtOk e.d.format = true := by simp [elemOk] at h; exact h.2
    cases hr : readValue e <;> simp_all [valueOk, renderNum]
    rename_i q b
    obtain ⟨t, ht⟩ := numToStr_ok e.d.format (preRound e.d.format b q) hf
    simp [ht]
  · cases hr : readValue e <;> simp_all [valueOk]
  · cases hr : readValue e <;> simp_all [valueOk]
  · exact ⟨_, rfl⟩

theorem defMsg_ok (n : Str) (g : Group) (v : Vec) (h : vecOk v = true) : ∃ m, defMsg n g v = .ok m := by
  unfold defMsg
  split
  · exact ⟨_, rfl⟩
  · have : ∃ ps, mapParts (defPart v.kind) v.elems = .ok ps := by
      apply mapParts_ok
      intro e he
      apply defPart_ok
      simp only [vecOk, Bool.and_eq_true, List.all_eq_true] at h
      exact h.2 e he
    obtain ⟨ps, hps⟩ := this
    simp only [hps]; exact ⟨_, rfl⟩

theorem mergeRes_exc (a b : Result) (ha : a.exc = none) : (mergeRes a b).exc = b.exc := by
  simp [mergeRes, ha]

theorem sendDefs_exc (l : List (Nat × Nat)) : ∀ d, WF d = true → (sendDefs d l).exc = none := by
  induction l with
  | nil => intro d _; rfl
  | cons p l ih =>
    intro d hwf
    obtain ⟨gi, vi⟩ := p
    unfold sendDefs
    split
    · exact ih d hwf
    · rename_i g v hv
      obtain ⟨m, hm⟩ := defMsg_ok d.name g v ((WF_iff d).1 hwf |>.1 gi vi g v hv)
      simp only [hm]
      rw [mergeRes_exc _ _ rfl]
      apply ih
      exact (DevRel.of_setVec (VR.refl NoFree) hv (VR_defV3 NoFree gi vi g v)).wf' hwf

theorem onePart_err (k : Kind) (e : Elem) (x : Exc) (h : onePart k e = .error x) : swallowed x = true := by
  unfold onePart at h
  cases k <;> dsimp only at h
  · split at h <;> cases h <;> rfl
  · unfold renderNum at h
    split at h
    · cases h
    · rename_i y hy
      cases h
      split at hy
      · cases hy
      · split at hy <;> cases hy <;> rfl
      · cases hy; rfl
  · split at h <;> cases h <;> rfl
  · split at h <;> cases h <;> rfl
  · split at h <;> cases h <;> rfl

theorem setMsg_err (n : Str) (g : Group) (v : Vec) (x : Exc) (h : setMsg n g v = .error x) : swallowed x = true := by
  unfold setMsg at h
  split at h
  · cases h
  · split at h
    · rename_i y hy
      cases h
      obtain ⟨e, _, he⟩ := mapParts_err _ _ _ hy
      exact onePart_err _ _ _ he
    · cases h

theorem checkValue_err (v : Vec) (ei : Nat) (val : Value) (x : Exc) (h : checkValue v ei val = .error x) :
    swallowed x = true := by
  unfold checkValue at h
  repeat' split at h
  all_goals first | (cases h; rfl) | cases h

theorem assign_exc (d : Device) (a : Addr) (val : Value) (g : Group) (v : Vec) (e : Elem)
    (hv : getVec d a.g a.v = some (g, v)) (he : v.elems[a.e]? = some e) (x : Exc)
    (h : (assign d a val).exc = some x) : swallowed x = true := by
  rcases assign_cases d a val g v e hv he with ⟨_, h1⟩ | ⟨_, y, hy, h1⟩ | ⟨ht, v1, stored, hc, ⟨y, hy, h1⟩ | ⟨m, _, h1⟩⟩
  · rw [h1] at h; cases h; rfl
  · rw [h1] at h; cases h; exact checkValue_err _ _ _ _ hy
  · rw [h1] at h; cases h; exact setMsg_err _ _ _ _ hy
  · rw [h1] at h; cases h

theorem setValue_exc_cases (d : Device) (a : Addr) (val : Value) :
    (setValue d a val).exc = none ∨ (setValue d a val).exc = some .keyError ∨
      (setValue d a val).exc = (assign d a val).exc := by
  unfold setValue
  split
  · right; left; rfl
  · split
    · right; left; rfl
    · dsimp only
      split
      · left; rfl
      · right; right; rfl

theorem setValue_exc (d : Device) (a : Addr) (val : Value) (g : Group) (v : Vec) (e : Elem)
    (hv : getVec d a.g a.v = some (g, v)) (he : v.elems[a.e]? = some e) (x : Exc)
    (h : (setValue d a val).exc = some x) : swallowed x = true := by
  unfold setValue at h
  simp only [hv, he] at h
  split at h
  · cases h
  · exact assign_exc d a val g v e hv he x h

theorem applyChildren_exc (gi vi : Nat) (ps : List Part) : ∀ d, (applyChildren gi vi d ps).exc = none := by
  induction ps with
  | nil => intro d; rfl
  | cons p ps ih =>
    intro d
    unfold applyChildren
    split
    · rfl
    · rename_i g v hv
      dsimp only
      split
      · exact ih d
      · rename_i ei hei
        split
        · exact ih d
        · rename_i val hval
          have hsw : ∀ x, (setValue d ⟨gi, vi, ei⟩ val).exc = some x → swallowed x = true := by
            intro x hx
            cases hnm : (alookup (s "name") p.fields).getD none with
            | none => simp [hnm] at hei
            | some n =>
              simp only [hnm, Option.bind_some] at hei
              obtain ⟨e0, k1, _⟩ := findElemByName_some hei
              exact setValue_exc d ⟨gi, vi, ei⟩ val g v e0 hv k1 x hx
          split
          · rename_i x hx
            rw [if_pos (hsw x hx), mergeRes_exc _ _ rfl]
            exact ih _
          · rename_i hx
            rw [mergeRes_exc _ _ hx]
            exact ih _

def addressed (m : Msg) (v : Vec) : Bool :=
  m.tag.take 3 = s "new" && (alookup (s "name") m.fields).getD none == some v.name && newTag v.kind == some m.tag

def named (m : Msg) : List Str := (m.children.getD []).filterMap fun p => (alookup (s "name") p.fields).getD none

def FreeOk (d : Device) (m : Msg) (F : Nat → Nat → Kind → Str → Prop) : Prop :=
  ∀ gi vi g v nm, getVec d gi vi = some (g, v) → F gi vi v.kind nm →
    addressed m v = true ∧ (nm ∈ named m ∨ v.kind = .switch)

theorem fromClient_rel (d : Device) (m : Msg) :
    ∃ F, DevRel (VR F) d (fromClient d m).dev ∧ FreeOk d m F := by
  have hno : FreeOk d m NoFree := fun _ _ _ _ _ _ h => h.elim
  unfold fromClient
  split
  · refine ⟨NoFree, ?_, hno⟩
    split
    · exact sendDefs_rel _ _ _
    · split
      · exact sendDefs_rel _ _ _
      · split
        · exact sendDefs_rel _ _ _
        · exact DevRel.refl (VR.refl _) d
  · split
    · rename_i hnew
      split
      · exact ⟨NoFree, DevRel.refl (VR.refl _) d, hno⟩
      · rename_i n hn
        split
        · exact ⟨NoFree, DevRel.refl (VR.refl _) d, hno⟩
        · rename_i gi vi hfind
          split
          · exact ⟨NoFree, DevRel.refl (VR.refl _) d, hno⟩
          · rename_i g v hv
            split
            · rename_i htag
              refine ⟨Free gi vi (named m), ?_, ?_⟩
              · apply applyChildren_rel
                intro p hp n' hn'
                simp only [named, List.mem_filterMap]
                exact ⟨p, hp, hn'⟩
              · intro gi' vi' g' v' nm hv' hfree
                obtain ⟨rfl, rfl, hfree⟩ := hfree
                rw [hv] at hv'; cases hv'
                obtain ⟨g2, v2, k1, k2⟩ := findVecByName_some hfind
                rw [hv] at k1; cases k1
                refine ⟨?_, hfree.symm⟩
                simp [addressed, hnew, hn, k2, htag]
            · exact ⟨NoFree, DevRel.refl (VR.refl _) d, hno⟩
    · exact ⟨NoFree, DevRel.refl (VR.refl _) d, hno⟩

theorem elemsAgree_of (free : Nat → Elem → Bool) (a b : List Elem) (hl : a.length = b.length)
    (h : ∀ (i : Nat) x y, a[i]? = some x → b[i]? = some y →
      free i x = true ∨ hasRefresh x = true ∨ (x.value = y.value ∧ x.enabled = y.enabled)) :
    elemsAgree free a b = true := by
  unfold elemsAgree
  simp only [Bool.and_eq_true, beq_iff_eq]
  refine ⟨hl, ?_⟩
  apply zipIdx_all_of_forall
  rintro i ⟨x, y⟩ hxy
  rw [List.getElem?_zip_eq_some] at hxy
  rcases h i x y hxy.1 hxy.2 with h1 | h1 | ⟨h1, h2⟩
  · simp [h1]
  · simp [h1]
  · simp [h1, h2]

theorem c12_of_rel (d d' : Device) (m : Msg) (F) (h : DevRel (VR F) d d') (hF : FreeOk d m F) :
    c12Holds d m false d' = true := by
  unfold c12Holds
  simp only [Bool.not_false, Bool.true_and, Bool.and_eq_true, beq_iff_eq]
  refine ⟨h.glen.symm, ?_⟩
  apply zip_all_of_forall
  intro gi g g' hg hg'
  obtain ⟨e1, l1, r1⟩ := h.grp gi g g' hg hg'
  simp only [Bool.and_eq_true, beq_iff_eq]
  refine ⟨⟨e1.symm, l1.symm⟩, ?_⟩
  apply zip_all_of_forall
  intro vi v v' hv hv'
  have hr := r1 vi v v' hv hv'
  have hgv : getVec d gi vi = some (g, v) := getVec_eq_some.2 ⟨hg, hv⟩
  dsimp only
  have key : ∀ (free : Nat → Elem → Bool),
      (∀ e, F gi vi v.kind e.d.name → ∀ i, free i e = true) → vecAgree free v v' = true := by
    intro free hfree
    unfold vecAgree
    simp only [Bool.and_eq_true, beq_iff_eq]
    refine ⟨⟨hr.state.symm, hr.enabled.symm⟩, ?_⟩
    apply elemsAgree_of _ _ _ hr.len.symm
    intro i x y hx hy
    obtain ⟨q1, q2, q3⟩ := hr.el i x y hx hy
    rcases q3 with q3 | q3 | q3
    · exact Or.inr (Or.inr ⟨q3.symm, q2.symm⟩)
    · exact Or.inr (Or.inl q3)
    · exact Or.inl (hfree x q3 i)
  split
  · apply key
    intro e he i
    obtain ⟨_, h2⟩ := hF gi vi g v _ hgv he
    rcases h2 with h2 | h2
    · simp [named] at h2 ⊢
      left; exact h2
    · simp [h2]
  · rename_i hna
    apply key
    intro e he i
    obtain ⟨h1, _⟩ := hF gi vi g v _ hgv he
    simp only [addressed, Bool.and_eq_true, beq_iff_eq] at h1
    exact absurd h1 hna

theorem Rwf_asgV3 (gi vi : Nat) (g : Group) (v : Vec) : Rwf gi vi v (asgV3 g v) :=
  VR.toWf NoFree gi vi _ _ (VR_asgV3 NoFree gi vi g v)

theorem Rwf_defV3 (gi vi : Nat) (g : Group) (v : Vec) : Rwf gi vi v (defV3 g v) :=
  VR.toWf NoFree gi vi _ _ (VR_defV3 NoFree gi vi g v)

theorem setState_rel (d : Device) (gi vi : Nat) (st : Option Str) : DevRel Rwf d (setState d gi vi st).dev := by
  unfold setState
  split
  · exact DevRel.refl Rwf.refl d
  · rename_i g v hv
    split
    · rename_i t
      split
      · exact DevRel.refl Rwf.refl d
      · rename_i ht
        have h1 : Rwf gi vi v { v with state := t } := by
          refine ⟨rfl, ?_⟩
          intro h
          simp only [vecOk, Bool.and_eq_true] at *
          have ht' : states.contains t = true := by simpa using ht
          exact ⟨⟨ht', h.1.2⟩, h.2⟩
        dsimp only
        split
        · exact DevRel.of_setVec Rwf.refl hv h1
        · exact DevRel.of_setVec Rwf.refl hv (Rwf.trans _ _ _ _ _ h1 (Rwf_asgV3 gi vi g _))
    · exact DevRel.refl Rwf.refl d

theorem announce_rel (d : Device) (gi vi : Nat) : DevRel Rwf d (announce d gi vi).dev := by
  unfold announce
  split
  · exact DevRel.refl Rwf.refl d
  · rename_i g v hv
    split
    · exact DevRel.refl Rwf.refl d
    · dsimp only
      split
      · exact DevRel.of_setVec Rwf.refl hv (Rwf_defV3 gi vi g v)
      · exact DevRel.of_setVec Rwf.refl hv
          (Rwf.trans _ _ _ _ _ (Rwf_defV3 gi vi g v) (Rwf_asgV3 gi vi g (defV3 g v)))

theorem enableVec_rel (d : Device) (gi vi : Nat) (b : Bool) : DevRel Rwf d (enableVec d gi vi b).dev := by
  unfold enableVec
  split
  · exact DevRel.refl Rwf.refl d
  · rename_i g v hv
    refine DevRel.trans Rwf.trans (DevRel.of_setVec Rwf.refl hv ?_) (announce_rel _ gi vi)
    refine ⟨rfl, ?_⟩
    intro h
    simpa [vecOk] using h

theorem announceAll_rel (gi : Nat) (l : List Nat) : ∀ d, DevRel Rwf d (announceAll gi d l).dev := by
  induction l with
  | nil => intro d; exact DevRel.refl Rwf.refl d
  | cons vi l ih =>
    intro d
    unfold announceAll
    dsimp only
    split
    · exact announce_rel d gi vi
    · rw [mergeRes_dev]
      exact DevRel.trans Rwf.trans (announce_rel d gi vi) (ih _)

theorem enableGroup_wf (d : Device) (hwf : WF d = true) (gi : Nat) (b : Bool) : WF (enableGroup d gi b).dev = true := by
  unfold enableGroup
  split
  · exact hwf
  · rename_i g hg
    dsimp only
    apply (announceAll_rel gi _ _).wf
    have hlt : gi < d.groups.length := by
      rcases List.getElem?_eq_some_iff.1 hg with ⟨h1, _⟩; exact h1
    rw [WF_iff] at *
    constructor
    · intro gj vj g' v hv
      rw [getVec_eq_some] at hv
      obtain ⟨h1, h2⟩ := hv
      simp only [List.getElem?_set] at h1
      by_cases hgj : gi = gj
      · subst hgj
        simp only [if_true, hlt, Option.some.injEq] at h1
        subst h1
        exact hwf.1 gi vj g v (getVec_eq_some.2 ⟨hg, h2⟩)
      · simp only [hgj, if_false] at h1
        exact hwf.1 gj vj g' v (getVec_eq_some.2 ⟨h1, h2⟩)
    · have : vnames { d with groups := d.groups.set gi { g with enabled := b } } = vnames d := by
        apply List.ext_getElem?
        intro gj
        simp only [vnames, List.getElem?_map, List.getElem?_set]
        by_cases hgj : gi = gj
        · subst hgj
          have hg2 : d.groups[gi] = g := by
            rcases List.getElem?_eq_some_iff.1 hg with ⟨_, h1⟩; exact h1
          simp [hlt, hg2]
        · simp [hgj]
      rw [this]; exact hwf.2

theorem enableElem_rel (d : Device) (a : Addr) (b : Bool) : DevRel Rwf d (enableElem d a b).dev := by
  unfold enableElem
  split
  · exact DevRel.refl Rwf.refl d
  · rename_i g v hv
    split
    · exact DevRel.refl Rwf.refl d
    · rename_i e he
      apply DevRel.of_setVec Rwf.refl hv
      refine ⟨rfl, ?_⟩
      intro h
      simp only [vecOk, Bool.and_eq_true] at *
      refine ⟨h.1, ?_⟩
      apply all_set _ _ _ _ h.2
      have := (List.all_eq_true.1 h.2) e (List.mem_of_getElem? he)
      simpa [elemOk] using this

def countSets' (ms : List Msg) : Nat := (ms.filter fun m => m.tag.take 3 = s "set").length

theorem noRefresh_of_VR {F} {gi vi : Nat} {v v' : Vec} (h : VR F gi vi v v')
    (hnr : v.elems.any hasRefresh = false) : v'.elems.any hasRefresh = false := by
  rw [List.any_eq_false] at *
  intro x hx
  obtain ⟨i, hi⟩ := List.mem_iff_getElem?.1 hx
  obtain ⟨e, he⟩ := getElem?_some_of_length_eq h.len.symm hi
  obtain ⟨q1, _, _⟩ := h.el i e x he hi
  have := hnr e (List.mem_of_getElem? he)
  simpa [hasRefresh, q1] using this

theorem refreshVec_noRefresh (v : Vec) (hnr : v.elems.any hasRefresh = false) : refreshVec v = v := by
  rw [List.any_eq_false] at hnr
  have : v.elems.map (fun e => if e.enabled then afterRead e else e) = v.elems := by
    conv => rhs; rw [← List.map_id v.elems]
    apply List.map_congr_left
    intro e he
    have h1 := hnr e he
    simp only [hasRefresh, Option.isSome_iff_ne_none, ne_eq, Decidable.not_not] at h1
    have h2 : e.d.refresh = none := by
      cases hr : e.d.refresh with
      | none => rfl
      | some x => simp [hr] at h1
    split
    · simp [afterRead, readValue, h2]
    · rfl
  unfold refreshVec
  rw [this]

theorem refreshDef_noRefresh (v : Vec) (hnr : v.elems.any hasRefresh = false) : refreshDef v = v := by
  rcases refreshDef_cases v with h | h <;> rw [h]
  exact refreshVec_noRefresh v hnr

theorem setMsg_count (n : Str) (g : Group) (v : Vec) (m : Option Msg) (h : setMsg n g v = .ok m) :
    countSets' m.toList = if vecEnabled g v then 1 else 0 := by
  unfold setMsg at h
  split at h
  · rename_i hen
    cases h
    simp at hen
    simp [hen, countSets']
  · rename_i hen
    simp at hen
    split at h
    · cases h
    · cases h
      have hk : ∀ k, (s ("set" ++ kindName k ++ "Vector")).take 3 = s "set" := by
        intro k; cases k <;> decide
      simp [hen, countSets', Option.toList, List.filter, hk]

theorem pyNe_self (x : Value) : pyNe x x = false := by
  cases x <;> simp [pyNe]

theorem assign_ok_spec (d : Device) (a : Addr) (val : Value) (g : Group) (v : Vec) (e : Elem)
    (hv : getVec d a.g a.v = some (g, v)) (he : v.elems[a.e]? = some e)
    (hnr : v.elems.any hasRefresh = false) (hok : (assign d a val).exc = none) :
    ∃ g' v2 e' m, getVec (assign d a val).dev a.g a.v = some (g', v2) ∧ v2.elems[a.e]? = some e' ∧
      (v.kind ≠ .switch → e'.value = val) ∧
      (assign d a val).msgs = m ∧ countSets' m = (if vecEnabled g v then 1 else 0) ∧
      (assign d a val).calls = (if pyNe e.value e'.value then (fireChange e.d.changeH e.value e'.value).1 else []) ∧
      (assign d a val).tasks = (if pyNe e.value e'.value then (fireChange e.d.changeH e.value e'.value).2 else []) := by
  rcases assign_cases d a val g v e hv he with ⟨_, h1⟩ | ⟨_, y, hy, h1⟩ | ⟨ht, v1, stored, hc, ⟨y, hy, h1⟩ | ⟨m, hm, h1⟩⟩
  · rw [h1] at hok; cases hok
  · rw [h1] at hok; cases hok
  · rw [h1] at hok; cases hok
  · have hvr : VR (fun _ _ _ _ => True) a.g a.v v (asgV2 v1 a.e e stored) :=
      VR_asgV2 hc ht he (fun _ _ => trivial) trivial
    have hnr2 := noRefresh_of_VR hvr hnr
    have h3 : asgV3 g (asgV2 v1 a.e e stored) = asgV2 v1 a.e e stored := by
      unfold asgV3; split
      · exact refreshVec_noRefresh _ hnr2
      · rfl
    obtain ⟨c1, c2, c3, c4, c5, c6, c7, c8, c9⟩ := checkValue_spec hc ht
    obtain ⟨e1, he1⟩ := getElem?_some_of_length_eq c7 he
    have hlt : a.e < v1.elems.length := by
      rcases List.getElem?_eq_some_iff.1 he1 with ⟨h1, _⟩; exact h1
    have h4 : (asgV2 v1 a.e e stored).elems[a.e]? = some { e1 with value := stored } := by
      simp only [asgV2, List.getElem?_set, if_true, hlt, he1, Option.getD_some]
    have h5 : asgNow (asgV2 v1 a.e e stored) a.e stored = stored := by
      simp [asgNow, h4]
    rw [h3, h5] at h1
    refine ⟨{ g with vecs := g.vecs.set a.v (asgV2 v1 a.e e stored) }, asgV2 v1 a.e e stored, { e1 with value := stored }, m.toList, ?_, h4, ?_, ?_, ?_, ?_, ?_⟩
    · rw [h1]; exact getVec_setVec_same hv
    · intro hk; exact (c9 hk).2
    · rw [h1]
    · rw [setMsg_count _ _ _ _ hm]
      simp [vecEnabled, hvr.enabled]
    · rw [h1]; dsimp only; split <;> rfl
    · rw [h1]; dsimp only; split <;> rfl

theorem c14_assign_core (d : Device) (a : Addr) (val : Value) (g : Group) (v : Vec)
    (hv : getVec d a.g a.v = some (g, v)) (he : a.e < v.elems.length)
    (hnr : v.elems.any hasRefresh = false) (hok : (assign d a val).exc = none) :
    c14Holds d a false val false (assign d a val).calls (assign d a val).tasks
      (countSets' (assign d a val).msgs) (assign d a val).dev = some true := by
  have he' : v.elems[a.e]? = some v.elems[a.e] := List.getElem?_eq_getElem he
  obtain ⟨g', v2, e', m, h1, h2, h3, h4, h5, h6, h7⟩ := assign_ok_spec d a val g v _ hv he' hnr hok
  unfold c14Holds
  simp only [hv, h1, he', h2, hnr, Bool.or_false, Bool.false_eq_true, if_false, h4, h5, h6, h7]
  simp only [writeContract, List.any_nil, Bool.false_eq_true, if_false, List.filter_nil, List.map_nil, List.nil_append,
    Bool.true_or, Bool.not_true, Bool.false_or, Bool.and_true, Option.some.injEq, Bool.and_eq_true, beq_iff_eq]
  refine ⟨⟨⟨?_, ?_⟩, trivial⟩, ?_⟩
  · split <;> rfl
  · split <;> rfl
  · by_cases hk : v.kind = .switch
    · simp [hk]
    · simp [h3 hk, pyNe_self]

def wMk (val : Value) (e : Elem) (h : WriteH) : Call :=
  { handler := h.id, kind := .write, old := .none, new := val,
    seen := if h.async then .none else e.value, task := h.async }

theorem setValue_cases (d : Device) (a : Addr) (val : Value) (g : Group) (v : Vec) (e : Elem)
    (hv : getVec d a.g a.v = some (g, v)) (he : v.elems[a.e]? = some e) :
    ((e.d.writeH.any fun h => !h.async && h.veto) = true ∧
      setValue d a val = { dev := d, calls := (e.d.writeH.filter fun h => !h.async).map (wMk val e),
                           tasks := (e.d.writeH.filter fun h => h.async).map (wMk val e) }) ∨
    ((e.d.writeH.any fun h => !h.async && h.veto) = false ∧
      setValue d a val = { assign d a val with
        calls := (e.d.writeH.filter fun h => !h.async).map (wMk val e) ++ (assign d a val).calls,
        tasks := (e.d.writeH.filter fun h => h.async).map (wMk val e) ++ (assign d a val).tasks }) := by
  unfold setValue
  simp only [hv, he]
  cases hvet : (e.d.writeH.any fun h => !h.async && h.veto)
  · right; exact ⟨rfl, by simp only [Bool.false_eq_true, if_false]; rfl⟩
  · left; exact ⟨rfl, by simp only [if_true]; rfl⟩

theorem c14_write_core (d : Device) (a : Addr) (val : Value) (g : Group) (v : Vec)
    (hv : getVec d a.g a.v = some (g, v)) (he : a.e < v.elems.length)
    (hnr : v.elems.any hasRefresh = false) (hok : (setValue d a val).exc = none) :
    c14Holds d a true val false (setValue d a val).calls (setValue d a val).tasks
      (countSets' (setValue d a val).msgs) (setValue d a val).dev = some true := by
  have he' : v.elems[a.e]? = some v.elems[a.e] := List.getElem?_eq_getElem he
  rcases setValue_cases d a val g v _ hv he' with ⟨hvet, hs⟩ | ⟨hvet, hs⟩
  · rw [hs]
    unfold c14Holds
    simp only [hv, he', hnr, Bool.or_false, Bool.false_eq_true, if_false, if_true]
    simp only [writeContract, hvet, if_true]
    simp [countSets', wMk]
  · rw [hs] at hok ⊢
    obtain ⟨g', v2, e', m, h1, h2, h3, h4, h5, h6, h7⟩ := assign_ok_spec d a val g v _ hv he' hnr hok
    unfold c14Holds
    simp only [hv, h1, he', h2, hnr, Bool.or_false, Bool.false_eq_true, if_false, if_true, h4, h5, h6, h7]
    simp only [writeContract, hvet, Bool.false_eq_true, if_false,
      Bool.true_or, Bool.not_true, Bool.false_or, Bool.and_true, Option.some.injEq, Bool.and_eq_true, beq_iff_eq]
    refine ⟨⟨⟨?_, ?_⟩, trivial⟩, ?_⟩
    · congr 1
    · congr 1
    · by_cases hk : v.kind = .switch
      · simp [hk]
      · simp [h3 hk, pyNe_self]

end Indi.Dev
