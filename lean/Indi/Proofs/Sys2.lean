/-
  C01, part 2: how a peer reads a message (`rdm`: as the object itself, or through the wire),
  `vecShown` as a pointwise relation, views and shapes of driver vectors, and the effect of a
  definition on the addressed view.
-/
import Indi.Proofs.Sys1
import Indi.Proofs.C03
import Indi.Proofs.DevB

namespace Indi.SysP
open Indi Indi.Dev Indi.Cli Indi.Sys Indi.Spec.Sys Indi.Spec.Dev

/-! ### reading a message -/

/-- a text value as the peer reads it: in-process the object's, over the wire the parser's -/
def rdVal (ip : Bool) (v : Option Str) : Option Str := if ip then v else C03.canonVal v

def rdPart (ip : Bool) (p : Part) : Part := if ip then p else C03.canonPart p

def rdm (ip : Bool) (m : Msg) : Msg := if ip then m else C03.canon m

theorem alookup_canonFields (k : Str) : ∀ fs : List (Str × Option Str),
    alookup k (C03.canonFields fs) = (alookup k fs).map (C03.cv k)
  | [] => rfl
  | (k', v) :: fs => by
    have ih := alookup_canonFields k fs
    simp only [C03.canonFields, List.map_cons, alookup] at ih ⊢
    by_cases h : k' = k
    · subst h; simp
    · simp only [h, if_false]; exact ih

theorem attr_canonFields_ne (fs : List (Str × Option Str)) (k : String) (h : s k ≠ s "value") :
    attr (C03.canonFields fs) k = attr fs k := by
  unfold attr
  rw [alookup_canonFields]
  have : C03.cv (s k) = id := by funext v; simp [C03.cv, h]
  rw [this]; simp

theorem attr_canonFields_value (fs : List (Str × Option Str)) :
    attr (C03.canonFields fs) "value" = C03.canonVal (attr fs "value") := by
  unfold attr
  rw [alookup_canonFields]
  cases alookup (s "value") fs with
  | none => rfl
  | some v => simp [C03.cv]

theorem rdm_tag (ip : Bool) (m : Msg) : (rdm ip m).tag = m.tag := by
  unfold rdm; split <;> rfl

theorem rdm_attr (ip : Bool) (m : Msg) (k : String) (h : s k ≠ s "value") :
    attr (rdm ip m).fields k = attr m.fields k := by
  unfold rdm; split
  · rfl
  · exact attr_canonFields_ne _ _ h

theorem rdm_children (ip : Bool) (m : Msg) :
    (rdm ip m).children.getD [] = (m.children.getD []).map (rdPart ip) := by
  unfold rdm rdPart
  cases ip
  · simp only [Bool.false_eq_true, if_false, C03.canon]
    cases m.children <;> rfl
  · simp

theorem rdPart_attr (ip : Bool) (p : Part) (k : String) (h : s k ≠ s "value") :
    attr (rdPart ip p).fields k = attr p.fields k := by
  unfold rdPart; split
  · rfl
  · exact attr_canonFields_ne _ _ h

theorem rdPart_value (ip : Bool) (p : Part) :
    attr (rdPart ip p).fields "value" = rdVal ip (attr p.fields "value") := by
  unfold rdPart rdVal; split
  · rfl
  · exact attr_canonFields_value _

theorem normVal_rdVal (ip : Bool) (v : Option Str) : normVal (rdVal ip v) = normVal v := by
  unfold rdVal; split
  · rfl
  · exact C03.normVal_canonVal v

theorem rdVal_none (ip : Bool) : rdVal ip none = none := by
  unfold rdVal; split <;> rfl

theorem rdm_key (ip : Bool) (m : Msg) : key (rdm ip m) = key m := by
  unfold key
  rw [rdm_attr ip m "device" (by decide), rdm_attr ip m "name" (by decide)]

/-! ### `vecShown`, pointwise -/

def enabledElems (v : Vec) : List Dev.Elem := v.elems.filter (·.enabled)

/-- what a mirror can see of an element -/
def elemView (e : Dev.Elem) : Str × Str × Str × Value := (e.d.name, e.d.label, e.d.format, readValue e)

/-- `elemShown` on an element view -/
def elemShownV (k : Kind) (ev : Str × Str × Str × Value) (c : CElem) : Bool :=
  c.name == some ev.1 && c.label == some ev.2.1 &&
  (match k with
   | .blob =>
     (match c.value, ev.2.2.2 with
      | .none, _ => true
      | .blob bs f, .blob bs' f' => bs == bs' && f == f'
      | .blob [] (some []), .none => true
      | _, _ => false)
   | _ =>
     (match c.value with
      | .none => wireText k ev.2.2.1 ev.2.2.2 == some none
      | .text t => wireText k ev.2.2.1 ev.2.2.2 == some (normVal (some t))
      | .blob _ _ => false))

theorem elemShown_eq (k : Kind) (e : Dev.Elem) (c : CElem) : elemShown k e c = elemShownV k (elemView e) c := rfl

/-- the mirror's element carries the right key, name and label -/
def ElemNamed (ev : Str × Str × Str × Value) (ce : Option Str × CElem) : Prop :=
  ce.1 = some ev.1 ∧ ce.2.name = some ev.1 ∧ ce.2.label = some ev.2.1

/-- the mirror's element shows the device's -/
def ElemFull (k : Kind) (ev : Str × Str × Str × Value) (ce : Option Str × CElem) : Prop :=
  ce.1 = some ev.1 ∧ elemShownV k ev ce.2 = true

theorem ElemFull.named {k : Kind} {ev : Str × Str × Str × Value} {ce : Option Str × CElem}
    (h : ElemFull k ev ce) : ElemNamed ev ce := by
  obtain ⟨h1, h2⟩ := h
  simp only [elemShownV, Bool.and_eq_true, beq_iff_eq] at h2
  exact ⟨h1, h2.1.1, h2.1.2⟩

/-- the static part of what a mirror shows of a property: kind, names, labels, element names and labels -/
def vecShape (g : Group) (v : Vec) (c : CVec) : Prop :=
  c.kind = vkind v.kind ∧ c.name = some v.name ∧ c.group = some g.name ∧ c.label = some v.label ∧
  List.Forall₂ ElemNamed ((enabledElems v).map elemView) c.elems

theorem zip_all_iff_forall₂ {α β : Type} (l : List α) (l' : List β) (P : α × β → Bool) :
    (l'.length = l.length ∧ (l.zip l').all P = true) ↔ List.Forall₂ (fun a b => P (a, b) = true) l l' := by
  rw [List.forall₂_iff_zip]
  simp only [List.all_eq_true]
  constructor
  · rintro ⟨h1, h2⟩
    exact ⟨h1.symm, fun {a b} hab => h2 (a, b) hab⟩
  · rintro ⟨h1, h2⟩
    exact ⟨h1.symm, fun x hx => h2 (a := x.1) (b := x.2) hx⟩

theorem vecShown_iff (b : Bool) (g : Group) (v : Vec) (c : CVec) :
    vecShown b g v c = true ↔
      c.kind = vkind v.kind ∧ c.name = some v.name ∧ c.group = some g.name ∧ c.label = some v.label ∧
      (if v.kind = .blob ∧ b = false then List.Forall₂ ElemNamed ((enabledElems v).map elemView) c.elems
       else c.state = some v.state ∧ List.Forall₂ (ElemFull v.kind) ((enabledElems v).map elemView) c.elems) := by
  unfold vecShown
  by_cases hc : v.kind = .blob ∧ b = false
  · have hc' : (v.kind == Kind.blob && !b) = true := by
      obtain ⟨h1, h2⟩ := hc; simp [h1, h2]
    rw [if_pos hc', if_pos hc]
    simp only [Bool.and_eq_true, beq_iff_eq]
    rw [and_assoc, and_assoc, and_assoc]
    refine and_congr Iff.rfl (and_congr Iff.rfl (and_congr Iff.rfl (and_congr Iff.rfl ?_)))
    rw [zip_all_iff_forall₂, List.forall₂_map_left_iff]
    apply Iff.of_eq
    congr 1
    funext e ce
    simp [ElemNamed, elemView, and_assoc]
  · have hc' : ¬ (v.kind == Kind.blob && !b) = true := by
      intro h
      simp only [Bool.and_eq_true, beq_iff_eq, Bool.not_eq_true'] at h
      exact hc h
    rw [if_neg hc', if_neg hc]
    simp only [Bool.and_eq_true, beq_iff_eq]
    rw [and_assoc, and_assoc, and_assoc]
    refine and_congr Iff.rfl (and_congr Iff.rfl (and_congr Iff.rfl (and_congr Iff.rfl (and_congr Iff.rfl ?_))))
    rw [zip_all_iff_forall₂, List.forall₂_map_left_iff]
    apply Iff.of_eq
    congr 1
    funext e ce
    simp [ElemFull, elemShown_eq, elemView]

theorem forall₂_imp' {α β : Type} {R S : α → β → Prop} (h : ∀ a b, R a b → S a b) {l : List α} {l' : List β}
    (hr : List.Forall₂ R l l') : List.Forall₂ S l l' := List.Forall₂.imp (fun {a b} => h a b) hr

theorem vecShape_of_shown {b : Bool} {g : Group} {v : Vec} {c : CVec} (h : vecShown b g v c = true) :
    vecShape g v c := by
  rw [vecShown_iff] at h
  obtain ⟨h1, h2, h3, h4, h5⟩ := h
  refine ⟨h1, h2, h3, h4, ?_⟩
  split at h5
  · exact h5
  · exact forall₂_imp' (fun _ _ h => h.named) h5.2

/-- a client without BLOBs sees of a BLOB property exactly its shape -/
theorem shown_false_of_shape {g : Group} {v : Vec} {c : CVec} (hk : v.kind = .blob) (h : vecShape g v c) :
    vecShown false g v c = true := by
  rw [vecShown_iff]
  obtain ⟨h1, h2, h3, h4, h5⟩ := h
  refine ⟨h1, h2, h3, h4, ?_⟩
  rw [if_pos ⟨hk, rfl⟩]
  exact h5

/-- for a client with BLOBs (or any other kind of property), `vecShown false` follows from `vecShown true` -/
theorem shown_false_of_true {g : Group} {v : Vec} {c : CVec} (h : vecShown true g v c = true) :
    vecShown false g v c = true := by
  by_cases hk : v.kind = .blob
  · exact shown_false_of_shape hk (vecShape_of_shown h)
  · rw [vecShown_iff] at h ⊢
    obtain ⟨h1, h2, h3, h4, h5⟩ := h
    refine ⟨h1, h2, h3, h4, ?_⟩
    rw [if_neg (by simp [hk])] at h5 ⊢
    exact h5

/-! ### views and shapes of driver vectors -/

/-- the two vectors look the same to every mirror -/
def ViewEq (g : Group) (v : Vec) (g' : Group) (v' : Vec) : Prop :=
  g'.name = g.name ∧ v'.name = v.name ∧ v'.label = v.label ∧ v'.kind = v.kind ∧ v'.state = v.state ∧
  (enabledElems v').map elemView = (enabledElems v).map elemView

/-- … up to state and values -/
def ShapeEq (g : Group) (v : Vec) (g' : Group) (v' : Vec) : Prop :=
  g'.name = g.name ∧ v'.name = v.name ∧ v'.label = v.label ∧ v'.kind = v.kind ∧
  (enabledElems v').map (fun e => (e.d.name, e.d.label)) = (enabledElems v).map (fun e => (e.d.name, e.d.label))

theorem ViewEq.refl (g : Group) (v : Vec) : ViewEq g v g v := ⟨rfl, rfl, rfl, rfl, rfl, rfl⟩

theorem ViewEq.symm {g v g' v'} (h : ViewEq g v g' v') : ViewEq g' v' g v :=
  ⟨h.1.symm, h.2.1.symm, h.2.2.1.symm, h.2.2.2.1.symm, h.2.2.2.2.1.symm, h.2.2.2.2.2.symm⟩

theorem ViewEq.trans {g v g' v' g'' v''} (h : ViewEq g v g' v') (h' : ViewEq g' v' g'' v'') : ViewEq g v g'' v'' :=
  ⟨h'.1.trans h.1, h'.2.1.trans h.2.1, h'.2.2.1.trans h.2.2.1, h'.2.2.2.1.trans h.2.2.2.1,
   h'.2.2.2.2.1.trans h.2.2.2.2.1, h'.2.2.2.2.2.trans h.2.2.2.2.2⟩

theorem ShapeEq.refl (g : Group) (v : Vec) : ShapeEq g v g v := ⟨rfl, rfl, rfl, rfl, rfl⟩

theorem ShapeEq.symm {g v g' v'} (h : ShapeEq g v g' v') : ShapeEq g' v' g v :=
  ⟨h.1.symm, h.2.1.symm, h.2.2.1.symm, h.2.2.2.1.symm, h.2.2.2.2.symm⟩

theorem ShapeEq.trans {g v g' v' g'' v''} (h : ShapeEq g v g' v') (h' : ShapeEq g' v' g'' v'') : ShapeEq g v g'' v'' :=
  ⟨h'.1.trans h.1, h'.2.1.trans h.2.1, h'.2.2.1.trans h.2.2.1, h'.2.2.2.1.trans h.2.2.2.1,
   h'.2.2.2.2.trans h.2.2.2.2⟩

theorem ViewEq.shape {g v g' v'} (h : ViewEq g v g' v') : ShapeEq g v g' v' := by
  obtain ⟨h1, h2, h3, h4, _, h6⟩ := h
  refine ⟨h1, h2, h3, h4, ?_⟩
  have := congrArg (List.map fun (x : Str × Str × Str × Value) => (x.1, x.2.1)) h6
  simpa [List.map_map, Function.comp_def, elemView] using this

theorem vecShown_congr {g v g' v'} (h : ViewEq g v g' v') (b : Bool) (c : CVec) :
    vecShown b g' v' c = vecShown b g v c := by
  obtain ⟨h1, h2, h3, h4, h5, h6⟩ := h
  apply Bool.eq_iff_iff.2
  rw [vecShown_iff, vecShown_iff, h1, h2, h3, h4, h5, h6]

theorem forall₂_named_iff (l : List (Str × Str × Str × Value)) (c : List (Option Str × CElem)) :
    List.Forall₂ ElemNamed l c ↔
      List.Forall₂ (fun (x : Str × Str) (ce : Option Str × CElem) =>
        ce.1 = some x.1 ∧ ce.2.name = some x.1 ∧ ce.2.label = some x.2) (l.map fun x => (x.1, x.2.1)) c := by
  rw [List.forall₂_map_left_iff]
  rfl

theorem vecShape_congr {g v g' v'} (h : ShapeEq g v g' v') (c : CVec) : vecShape g' v' c ↔ vecShape g v c := by
  obtain ⟨h1, h2, h3, h4, h5⟩ := h
  unfold vecShape
  rw [forall₂_named_iff, forall₂_named_iff, h1, h2, h3, h4]
  have e : ∀ w : Vec, ((enabledElems w).map elemView).map (fun x => (x.1, x.2.1)) =
      (enabledElems w).map (fun e => (e.d.name, e.d.label)) := by
    intro w; simp [List.map_map, Function.comp_def, elemView]
  rw [e, e, h5]

/-! ### definitions, as the mirror stores them -/

/-- with distinct element names the dict of a definition is just the list of its children -/
theorem elemsOfDef_nodup : ∀ ps : List Part, (ps.map fun p => attr p.fields "name").Nodup →
    Spec.Cli.elemsOfDef ps = ps.map fun p =>
      (attr p.fields "name", { name := attr p.fields "name", label := attr p.fields "label", value := textVal p.fields })
  | [], _ => rfl
  | p :: ps, h => by
    rw [List.map_cons, List.nodup_cons] at h
    have ih := elemsOfDef_nodup ps h.2
    have hnone : olook (attr p.fields "name") (Spec.Cli.elemsOfDef ps) = none := by
      rw [olook_none_iff, ih, List.map_map]
      exact h.1
    show (attr p.fields "name", (olook (attr p.fields "name") (Spec.Cli.elemsOfDef ps)).getD _) ::
      odel (attr p.fields "name") (Spec.Cli.elemsOfDef ps) = _
    rw [hnone, odel_of_look_none _ _ hnone, ih]
    rfl

/-- `mapParts` lists the enabled elements, in order -/
theorem mapParts_forall₂ {f : Dev.Elem → Except Dev.Exc Part} :
    ∀ {es : List Dev.Elem} {ps : List Part}, mapParts f es = .ok ps →
      List.Forall₂ (fun e p => f e = .ok p) (es.filter (·.enabled)) ps
  | [], ps, h => by
    simp only [mapParts, Except.ok.injEq] at h
    subst h; exact List.Forall₂.nil
  | e :: es, ps, h => by
    simp only [mapParts] at h
    by_cases he : e.enabled = true
    · simp only [he, if_true] at h
      cases hfe : f e with
      | error x => rw [hfe] at h; cases h
      | ok q =>
        rw [hfe] at h
        simp only at h
        cases hrest : mapParts f es with
        | error x => rw [hrest] at h; cases h
        | ok qs =>
          rw [hrest] at h
          simp only [Except.ok.injEq] at h
          subst h
          rw [List.filter_cons_of_pos (by simpa using he)]
          exact List.Forall₂.cons hfe (mapParts_forall₂ hrest)
    · simp only [he, Bool.false_eq_true, if_false] at h
      rw [List.filter_cons_of_neg (by simpa using he)]
      exact mapParts_forall₂ h

end Indi.SysP
