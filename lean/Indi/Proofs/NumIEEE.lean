/-
  The model's binary64 arithmetic (`Num.flIEEE`: round to nearest even in the normal range) is
  `Accurate`: relative error at most 2⁻⁵³ (half a unit in the last place).  This discharges the
  hypothesis `A.Accurate` of `C10_sexa_roundtrip` for the arithmetic the executable model uses.
  (Builds on the estimates of Proofs/Sys06.lean, where the weaker bound 2⁻⁵² sufficed.)
-/
import Indi.Proofs.Sys06

namespace Indi.Num
open Indi Indi.Spec.Num

theorem round_at53 (q : Rat) (e : Int) (h : (2 : Rat) ^ 52 * pow2 e ≤ q) :
    absR ((rhe (q / pow2 e) : Rat) * pow2 e - q) * 2 ^ 53 ≤ q := by
  have hP := pow2_pos e
  set P := pow2 e
  have hb := rhe_bounds (q / P)
  have hq : q = q / P * P := by field_simp
  have key : (rhe (q / P) : Rat) * P - q = ((rhe (q / P) : Rat) - q / P) * P := by
    conv => lhs; rw [hq]
    ring_nf
    field_simp
  have hx : absR ((rhe (q / P) : Rat) * P - q) ≤ P / 2 := by
    rw [absR_le]
    constructor
    · rw [key]; nlinarith [hb.1, hb.2]
    · rw [key]; nlinarith [hb.1, hb.2]
  calc absR ((rhe (q / P) : Rat) * P - q) * 2 ^ 53 ≤ P / 2 * 2 ^ 53 := by
        apply mul_le_mul_of_nonneg_right hx (by positivity)
    _ = 2 ^ 52 * P := by ring
    _ ≤ q := h

theorem flPos_accurate53 (q : Rat) (hq : 0 < q) : absR (flPos q - q) * 2 ^ 53 ≤ q := by
  have hest := log2_estimate q hq
  unfold flPos
  simp only []
  set e0 : Int := (Nat.log2 q.num.natAbs : Int) - (Nat.log2 q.den : Int) - 52 with he0
  have hP := pow2_pos e0
  split
  · apply round_at53
    rw [pow2_pred]
    nlinarith
  · split
    · rename_i h1 h2
      apply round_at53
      rw [pow2_succ]
      have : (2 : Rat) ^ 53 * pow2 e0 ≤ q := by
        rw [ge_iff_le, le_div_iff₀ hP] at h2
        exact h2
      nlinarith
    · rename_i h1 h2
      apply round_at53
      have : (2 : Rat) ^ 52 ≤ q / pow2 e0 := not_lt.mp h1
      rw [le_div_iff₀ hP] at this
      exact this

theorem flIEEE_accurate53 (q : Rat) : absR (flIEEE q - q) * 2 ^ 53 ≤ absR q := by
  unfold flIEEE
  split
  · rename_i h; subst h
    simp [absR]
  · split
    · rename_i h0 hpos
      rw [absR_of_nonneg (le_of_lt hpos)]
      exact flPos_accurate53 q hpos
    · rename_i h0 hnpos
      have hneg : q < 0 := lt_of_le_of_ne (not_lt.mp hnpos) h0
      have hpos : 0 < -q := by linarith
      have := flPos_accurate53 (-q) hpos
      have e1 : absR (-flPos (-q) - q) = absR (flPos (-q) - -q) := by
        unfold absR; split <;> split <;> linarith
      have e2 : absR q = -q := by unfold absR; split <;> linarith
      rw [e1, e2]
      exact this

end Indi.Num
