/-
  C01, part 7: operations that write one vector (assign, set_value, state, client writes):
  a chain of accepted writes, each published (`WSum`).
-/
import Indi.Proofs.Sys6

namespace Indi.SysP
open Indi Indi.Dev Indi.Cli Indi.Sys Indi.Spec.Sys Indi.Spec.Dev
open Indi.DevBResp (getVec_setVec)

/-- every vector of the device is good -/
def AllVG (d : Device) : Prop := ∀ gi vi g v, getVec d gi vi = some (g, v) → VG v

/-- summary of a run of writes to vector `(gi, vi)` -/
structure WSum (d : Device) (gi vi : Nat) (ms : List Msg) (d' : Device) : Prop where
  rel : Rel (fun gj vj g v g' v' => GEq g g' ∧ Static v v' ∧ v'.enabled = v.enabled ∧ (VG v → VG v') ∧
          (¬(gj = gi ∧ vj = vi) → v' = v)) d d'
  msgs : ∀ m ∈ ms, ∃ g0 v0 g v, getVec d gi vi = some (g0, v0) ∧ vecEnabled g0 v0 = true ∧
          setMsg d.name g v = .ok (some m) ∧ VG v ∧ GEq g0 g ∧ Static v0 v
  quiet : ms = [] → ∀ g0 v0 g' v', getVec d gi vi = some (g0, v0) → getVec d' gi vi = some (g', v') →
          vecEnabled g0 v0 = true → Same v0 v'
  last : ms ≠ [] → ∃ m g v g' v', ms.getLast? = some m ∧ setMsg d.name g v = .ok (some m) ∧ VG v ∧
          getVec d' gi vi = some (g', v') ∧ GEq g g' ∧ Same v v'

theorem WSum.refl (d : Device) (gi vi : Nat) : WSum d gi vi [] d where
  rel := Rel.refl (fun _ _ g v => ⟨GEq.refl g, Static.refl v, rfl, id, fun _ => rfl⟩) d
  msgs := fun m hm => by cases hm
  quiet := fun _ g0 v0 g' v' h h' _ => by
    rw [h] at h'
    simp only [Option.some.injEq, Prod.mk.injEq] at h'
    rw [← h'.2]; exact Same.refl v0
  last := fun h => absurd rfl h

theorem WSum.allVG {d d' : Device} {gi vi : Nat} {ms : List Msg} (h : WSum d gi vi ms d') (hd : AllVG d) : AllVG d' := by
  intro gj vj g' v' hg'
  cases h0 : getVec d gj vj with
  | none => rw [h.rel.2.1 gj vj h0] at hg'; cases hg'
  | some gv =>
    obtain ⟨g, v⟩ := gv
    obtain ⟨g'', v'', hg'', _, _, _, hvg, _⟩ := h.rel.2.2 gj vj g v h0
    rw [hg''] at hg'
    simp only [Option.some.injEq, Prod.mk.injEq] at hg'
    rw [← hg'.2]
    exact hvg (hd _ _ _ _ h0)

theorem vecEnabled_of {g g' : Group} {v v' : Vec} (hg : GEq g g') (he : v'.enabled = v.enabled) :
    vecEnabled g' v' = vecEnabled g v := by
  unfold vecEnabled; rw [hg.2, he]

theorem WSum.comp {d d1 d' : Device} {gi vi : Nat} {ms1 ms2 : List Msg} (h1 : WSum d gi vi ms1 d1)
    (h2 : WSum d1 gi vi ms2 d') : WSum d gi vi (ms1 ++ ms2) d' where
  rel := Rel.trans (fun _ _ _ _ _ _ _ _ a b =>
      ⟨a.1.trans b.1, a.2.1.trans b.2.1, b.2.2.1.trans a.2.2.1, fun h => b.2.2.2.1 (a.2.2.2.1 h),
       fun hne => (b.2.2.2.2 hne).trans (a.2.2.2.2 hne)⟩) h1.rel h2.rel
  msgs := by
    intro m hm
    rcases List.mem_append.1 hm with hm | hm
    · exact h1.msgs m hm
    · obtain ⟨g1, v1, g, v, hg1, hen, hset, hvg, hge, hst⟩ := h2.msgs m hm
      cases h0 : getVec d gi vi with
      | none => rw [h1.rel.2.1 gi vi h0] at hg1; cases hg1
      | some gv =>
        obtain ⟨g0, v0⟩ := gv
        obtain ⟨g1', v1', hg1', hge1, hst1, hen1, _, _⟩ := h1.rel.2.2 gi vi g0 v0 h0
        rw [hg1] at hg1'
        simp only [Option.some.injEq, Prod.mk.injEq] at hg1'
        obtain ⟨rfl, rfl⟩ := hg1'
        refine ⟨g0, v0, g, v, rfl, ?_, ?_, hvg, hge1.trans hge, hst1.trans hst⟩
        · rw [← vecEnabled_of hge1 hen1]; exact hen
        · rw [← h1.rel.1]; exact hset
  quiet := by
    intro hnil g0 v0 g' v' hg0 hg' hen
    have hm1 : ms1 = [] := (List.append_eq_nil_iff.1 hnil).1
    have hm2 : ms2 = [] := (List.append_eq_nil_iff.1 hnil).2
    obtain ⟨g1, v1, hg1, hge1, _, hen1, _, _⟩ := h1.rel.2.2 gi vi g0 v0 hg0
    have s1 := h1.quiet hm1 g0 v0 g1 v1 hg0 hg1 hen
    have s2 := h2.quiet hm2 g1 v1 g' v' hg1 hg' (by rw [vecEnabled_of hge1 hen1]; exact hen)
    exact s1.trans s2
  last := by
    intro hne
    by_cases hm2 : ms2 = []
    · subst hm2
      rw [List.append_nil] at hne ⊢
      obtain ⟨m, g, v, g1, v1, hl, hset, hvg, hg1, hge, hsame⟩ := h1.last hne
      obtain ⟨g', v', hg', hge', _, hen', _, _⟩ := h2.rel.2.2 gi vi g1 v1 hg1
      have hen : vecEnabled g1 v1 = true := by
        rw [vecEnabled_of hge hsame.2.2.2.2.1]
        exact (setMsg_some hset).1
      have s2 := h2.quiet rfl g1 v1 g' v' hg1 hg' hen
      exact ⟨m, g, v, g', v', hl, hset, hvg, hg', hge.trans hge', hsame.trans s2⟩
    · obtain ⟨m, g, v, g', v', hl, hset, hvg, hg', hge, hsame⟩ := h2.last hm2
      refine ⟨m, g, v, g', v', ?_, ?_, hvg, hg', hge, hsame⟩
      · rw [List.getLast?_append_of_ne_nil _ hm2]; exact hl
      · rw [← h1.rel.1]; exact hset

/-- one accepted write: new content `v2` of the same definition, published when enabled, then refreshed -/
theorem wsum_step {d : Device} {gi vi : Nat} {g : Group} {v v2 : Vec} {mo : Option Msg}
    (hg : getVec d gi vi = some (g, v)) (hst : Static v v2) (hen : v2.enabled = v.enabled) (hvg : VG v2)
    (hset : setMsg d.name g v2 = .ok mo) :
    WSum d gi vi mo.toList (setVec d gi vi (if vecEnabled g v2 then refreshVec v2 else v2)) := by
  have hsame := same_refresh_if (vecEnabled g v2) v2
  obtain ⟨g', hg', hge'⟩ := getVec_setVec_self (if vecEnabled g v2 then refreshVec v2 else v2) hg
  have hen2 : vecEnabled g v2 = vecEnabled g v := by unfold vecEnabled; rw [hen]
  refine ⟨?_, ?_, ?_, ?_⟩
  · refine Rel.mono ?_ (rel_setVec _ hg)
    intro gj vj g0 v0 g1 v1 ⟨hge, hif⟩
    refine ⟨hge, ?_⟩
    split at hif
    · rename_i hc
      obtain ⟨rfl, rfl⟩ := hif
      exact ⟨hst.trans hsame.static, hsame.2.2.2.2.1.trans hen, fun _ => hvg.refresh_if _,
        fun hne => absurd ⟨hc.1.symm, hc.2.symm⟩ hne⟩
    · subst hif
      exact ⟨Static.refl _, rfl, id, fun _ => rfl⟩
  · intro m hm
    cases mo with
    | none => cases hm
    | some m' =>
      simp only [Option.toList_some, List.mem_singleton] at hm
      subst hm
      refine ⟨g, v, g, v2, hg, ?_, hset, hvg, GEq.refl g, hst⟩
      rw [← hen2]; exact (setMsg_some hset).1
  · intro hnil g0 v0 g'' v'' hg0 _ hen0
    rw [hg] at hg0
    simp only [Option.some.injEq, Prod.mk.injEq] at hg0
    obtain ⟨rfl, rfl⟩ := hg0
    cases mo with
    | some m' => simp at hnil
    | none =>
      have := setMsg_none_iff hset
      rw [hen2, hen0] at this
      cases this
  · intro hne
    cases mo with
    | none => simp at hne
    | some m' => exact ⟨m', g, v2, g', _, rfl, hset, hvg, hg', hge', hsame⟩

/-! ### `assign` -/

theorem map_set_same {α β : Type} (f : α → β) (l : List α) (i : Nat) (x : α) (h : ∀ y, l[i]? = some y → f x = f y) :
    (l.set i x).map f = l.map f := by
  apply List.ext_getElem?
  intro j
  simp only [List.getElem?_map, List.getElem?_set]
  by_cases hij : i = j
  · subst hij
    by_cases hlt : i < l.length
    · simp only [hlt, if_true, Option.map_some]
      rw [List.getElem?_eq_getElem hlt, Option.map_some, h _ (List.getElem?_eq_getElem hlt)]
    · simp only [hlt, if_false, if_true]
      rw [List.getElem?_eq_none (by omega)]
  · simp [hij]

/-- what `check_value` returns: the vector itself and the value, or (switches) the vector with siblings switched and On/Off -/
theorem checkValue_shape {v : Vec} {ei : Nat} {val : Value} {v1 : Vec} {stored : Value}
    (h : checkValue v ei val = .ok (v1, stored)) :
    (v1 = v ∧ stored = val) ∨ (∃ bs b, v1 = putBools v bs ∧ stored = .text (onOff b)) := by
  unfold checkValue at h
  repeat' split at h
  all_goals (cases h <;> first | exact Or.inl ⟨rfl, rfl⟩ | exact Or.inr ⟨_, _, rfl, rfl⟩)

theorem checkValue_vg {v : Vec} {ei : Nat} {val : Value} {v1 : Vec} {stored : Value} (hvg : VG v)
    (hty : typeOk v.kind val = true) (hf : DevB.hasFormat val = true) (hb : bytesOk val = true)
    (h : checkValue v ei val = .ok (v1, stored)) :
    VG v1 ∧ Static v v1 ∧ v1.enabled = v.enabled ∧ valueOk v.kind stored = true ∧ DevB.hasFormat stored = true ∧
      bytesOk stored = true := by
  obtain ⟨hgood1, hk1, hvo, hfs⟩ := DevB.checkValue_good hvg.good hty hf h
  obtain ⟨c1, c2, c3, c4, c5, c6, c7, c8, c9⟩ := checkValue_spec h hty
  have hlabel : v1.label = v.label ∧ bytesOk stored = true ∧ vecBytes v1 = true := by
    rcases checkValue_shape h with ⟨rfl, rfl⟩ | ⟨bs, b, rfl, rfl⟩
    · exact ⟨rfl, hb, hvg.bytes⟩
    · refine ⟨rfl, rfl, ?_⟩
      have hb0 := hvg.bytes
      simp only [vecBytes, List.all_eq_true] at hb0 ⊢
      intro e he
      simp only [putBools, List.mem_map] at he
      obtain ⟨⟨e0, b0⟩, hz, rfl⟩ := he
      simp only
      split
      · exact hb0 e0 (List.of_mem_zip hz).1
      · rfl
  have hcore : v1.elems.map core = v.elems.map core := by
    apply List.ext_getElem?
    intro i
    simp only [List.getElem?_map]
    cases hi : v.elems[i]? with
    | none =>
      have : v1.elems[i]? = none := by
        rw [List.getElem?_eq_none_iff] at hi ⊢; omega
      rw [this]
    | some e =>
      obtain ⟨e', he'⟩ := getElem?_some_of_length_eq c7 hi
      obtain ⟨q1, q2, _⟩ := c8 i e e' hi he'
      rw [he']
      simp only [Option.map_some, core, q1, q2]
  have hst : Static v v1 := ⟨c1, hlabel.1, c2, hcore⟩
  exact ⟨hvg.of_static hst hgood1.1 hgood1.2 hlabel.2.2, hst, c4, hvo, hfs, hlabel.2.1⟩

theorem asgV2_vg {v v1 : Vec} {ei : Nat} {e : Dev.Elem} {stored : Value} (hv1 : VG v1) (hk : v1.kind = v.kind)
    (_he : v.elems[ei]? = some e) (heok : elemOk v.kind e = true)
    (hvo : valueOk v.kind stored = true) (hfs : DevB.hasFormat stored = true) (hbs : bytesOk stored = true) :
    VG (asgV2 v1 ei e stored) ∧ Static v1 (asgV2 v1 ei e stored) ∧ (asgV2 v1 ei e stored).enabled = v1.enabled := by
  have hst : Static v1 (asgV2 v1 ei e stored) := by
    refine ⟨rfl, rfl, rfl, ?_⟩
    simp only [asgV2]
    apply map_set_same
    intro y hy
    simp [hy, core]
  have hbase : elemOk v1.kind (v1.elems[ei]?.getD e) = true := by
    cases h1 : v1.elems[ei]? with
    | none => simpa [hk] using heok
    | some e' => simpa using DevB.vecOk_elems hv1.ok e' (List.mem_of_getElem? h1)
  have hgood : DevB.VecGood (asgV2 v1 ei e stored) := by
    refine DevB.vecGood_elems hv1.good _ ?_
    intro e' he'
    rcases List.mem_or_eq_of_mem_set he' with h' | rfl
    · exact DevB.vecGood_mem hv1.good h'
    · exact ⟨DevB.elemOk_setValue hbase (hk ▸ hvo), hfs⟩
  refine ⟨hv1.of_static hst hgood.1 hgood.2 ?_, hst, rfl⟩
  have hb1 := hv1.bytes
  simp only [vecBytes, List.all_eq_true, asgV2] at hb1 ⊢
  intro e' he'
  rcases List.mem_or_eq_of_mem_set he' with h' | rfl
  · exact hb1 e' h'
  · exact hbs

theorem assign_wsum {d : Device} (hd : AllVG d) (a : Addr) {val : Value} (hf : DevB.hasFormat val = true)
    (hb : bytesOk val = true) : WSum d a.g a.v (assign d a val).msgs (assign d a val).dev := by
  cases hv : getVec d a.g a.v with
  | none => simp only [assign, hv]; exact WSum.refl d _ _
  | some p =>
    obtain ⟨g, v⟩ := p
    have hvg := hd _ _ _ _ hv
    cases he : v.elems[a.e]? with
    | none => simp only [assign, hv, he]; exact WSum.refl d _ _
    | some e =>
      rcases assign_cases d a val g v e hv he with ⟨_, h⟩ | ⟨_, x, _, h⟩ | ⟨ht, v1, stored, hc, ⟨x, hx, h⟩ | ⟨m, hm, h⟩⟩
      · rw [h]; exact WSum.refl d _ _
      · rw [h]; exact WSum.refl d _ _
      · -- the update of a good vector can always be rendered
        obtain ⟨hv1, hst1, _, hvo, hfs, hbs⟩ := checkValue_vg hvg ht hf hb hc
        obtain ⟨hv2, _, _⟩ := asgV2_vg (ei := a.e) (e := e) hv1 hst1.2.2.1 he
          (DevB.vecOk_elems hvg.ok e (List.mem_of_getElem? he)) hvo hfs hbs
        obtain ⟨mo, hmo⟩ := setMsg_ok d.name g hv2.ok
        rw [hmo] at hx; cases hx
      · obtain ⟨hv1, hst1, hen1, hvo, hfs, hbs⟩ := checkValue_vg hvg ht hf hb hc
        obtain ⟨hv2, hst2, hen2⟩ := asgV2_vg (ei := a.e) (e := e) hv1 hst1.2.2.1 he
          (DevB.vecOk_elems hvg.ok e (List.mem_of_getElem? he)) hvo hfs hbs
        rw [h]
        exact wsum_step hv (hst1.trans hst2) (hen2.trans hen1) hv2 hm

theorem setValue_wsum {d : Device} (hd : AllVG d) (a : Addr) {val : Value} (hf : DevB.hasFormat val = true)
    (hb : bytesOk val = true) : WSum d a.g a.v (setValue d a val).msgs (setValue d a val).dev := by
  cases hv : getVec d a.g a.v with
  | none => simp only [setValue, hv]; exact WSum.refl d _ _
  | some p =>
    obtain ⟨g, v⟩ := p
    cases he : v.elems[a.e]? with
    | none => simp only [setValue, hv, he]; exact WSum.refl d _ _
    | some e =>
      rcases setValue_cases d a val g v e hv he with ⟨_, h⟩ | ⟨_, h⟩
      · rw [h]; exact WSum.refl d _ _
      · rw [h]; exact assign_wsum hd a hf hb

theorem setState_wsum {d : Device} (hd : AllVG d) (gi vi : Nat) (st : Option Str) :
    WSum d gi vi (setState d gi vi st).msgs (setState d gi vi st).dev := by
  unfold setState
  cases hv : getVec d gi vi with
  | none => exact WSum.refl d _ _
  | some p =>
    obtain ⟨g, v⟩ := p
    have hvg := hd _ _ _ _ hv
    simp only
    cases st with
    | none => exact WSum.refl d _ _
    | some t =>
      simp only
      split
      · exact WSum.refl d _ _
      · rename_i ht
        have ht' : states.contains t = true := by simpa using ht
        have hv1 : VG { v with state := t } :=
          ⟨(DevB.vecGood_state hvg.good ht').1, hvg.fmt, hvg.bytes, hvg.names⟩
        cases hsm : setMsg d.name g { v with state := t } with
        | error x =>
          obtain ⟨mo, hmo⟩ := setMsg_ok d.name g hv1.ok
          rw [hmo] at hsm; cases hsm
        | ok mo =>
          exact wsum_step hv ⟨rfl, rfl, rfl, rfl⟩ rfl hv1 hsm

/-! ### client writes -/

theorem valueFromPart_bytes {k : Kind} {p : Part} {val : Value} (h : valueFromPart k p = .ok val) :
    bytesOk val = true := by
  unfold valueFromPart at h
  cases k with
  | text => simp only [Except.ok.injEq] at h; subst h; split <;> rfl
  | switch => simp only [Except.ok.injEq] at h; subst h; split <;> rfl
  | light => simp only [Except.ok.injEq] at h; subst h; split <;> rfl
  | number =>
    simp only at h
    split at h
    · simp only [Except.ok.injEq] at h; subst h; rfl
    · split at h
      · simp only [Except.ok.injEq] at h; subst h; rfl
      · simp only [Except.ok.injEq] at h; subst h; rfl
      · cases h
  | blob =>
    simp only at h
    split at h
    · cases h
    · split at h
      · cases h
      · rename_i bytes hdec
        split at h
        · split at h
          · cases h
          · split at h
            · simp only [Except.ok.injEq] at h
              subst h
              simp only [bytesOk, List.all_eq_true, decide_eq_true_eq]
              exact SysB64.decode_bytes _ _ hdec
            · cases h
        · cases h

theorem applyChildren_wsum (gi vi : Nat) :
    ∀ (ps : List Part) (d : Device), AllVG d →
      ((∃ g v, getVec d gi vi = some (g, v) ∧ v.kind = .blob) → ∀ p ∈ ps, DevB.fmtPresent p = true) →
      WSum d gi vi (applyChildren gi vi d ps).msgs (applyChildren gi vi d ps).dev
  | [], d, _, _ => WSum.refl d _ _
  | p :: ps, d, hd, hps => by
    have ih0 : WSum d gi vi (applyChildren gi vi d ps).msgs (applyChildren gi vi d ps).dev :=
      applyChildren_wsum gi vi ps d hd fun hb q hq => hps hb q (List.mem_cons_of_mem _ hq)
    simp only [applyChildren]
    cases hg : getVec d gi vi with
    | none => exact WSum.refl d _ _
    | some gv =>
      obtain ⟨g, v⟩ := gv
      simp only
      split
      · exact ih0
      · rename_i ei _
        split
        · exact ih0
        · rename_i val hvfp
          have hval : DevB.hasFormat val = true :=
            DevB.valueFromPart_fmt hvfp fun hb => hps ⟨g, v, hg, hb⟩ p List.mem_cons_self
          have hr := setValue_wsum hd ⟨gi, vi, ei⟩ hval (valueFromPart_bytes hvfp)
          have ih1 : WSum (setValue d ⟨gi, vi, ei⟩ val).dev gi vi
              (applyChildren gi vi (setValue d ⟨gi, vi, ei⟩ val).dev ps).msgs
              (applyChildren gi vi (setValue d ⟨gi, vi, ei⟩ val).dev ps).dev := by
            refine applyChildren_wsum gi vi ps _ (hr.allVG hd) ?_
            rintro ⟨g1, v1, hg1, hk1⟩ q hq
            obtain ⟨g1', v1', hg1', _, hst, _⟩ := hr.rel.2.2 gi vi g v hg
            rw [hg1] at hg1'
            simp only [Option.some.injEq, Prod.mk.injEq] at hg1'
            refine hps ⟨g, v, hg, ?_⟩ q (List.mem_cons_of_mem _ hq)
            rw [← hst.2.2.1, ← hg1'.2]; exact hk1
          split
          · split
            · exact WSum.comp hr ih1
            · exact hr
          · exact WSum.comp hr ih1

end Indi.SysP
