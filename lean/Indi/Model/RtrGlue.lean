/-
  How a protocol message looks to the router: the class flags come from the
  class table regenerated from the repository.
-/
import Indi.Model.Rtr
import Indi.Model.Msg

namespace Indi.Rtr
open Indi

def rmsgOf (reg : Registry) (tag : Str) (device : Option Str) (value : Policy) : Option RMsg :=
  match findClass tag reg.messages with
  | none => none
  | some c => some { fromClient := c.fromClient, fromDevice := c.fromDevice,
                     isEnableBlob := tag = s "enableBLOB", isBlob := tag = s "setBLOBVector",
                     device := device, value := value }

end Indi.Rtr
