/-
  L2d `B64` — `base64.b64encode` and `base64.b64decode` (= `binascii.a2b_base64`
  in its default, non-strict mode, ported statement by statement from CPython
  3.12's binascii.c, because its leniency is observable).  Bytes are `Nat`s
  below 256.
-/
import Indi.Model.Basic

namespace Indi.B64

def alphabet : List Char :=
  "ABCDEFGHIJKLMNOPQRSTUVWXYZabcdefghijklmnopqrstuvwxyz0123456789+/".toList

/-- `table_b2a_base64` -/
def b2a (n : Nat) : Char :=
  if n < 26 then Char.ofNat (65 + n)
  else if n < 52 then Char.ofNat (97 + (n - 26))
  else if n < 62 then Char.ofNat (48 + (n - 52))
  else if n = 62 then '+' else '/'

/-- `table_a2b_base64`: `none` for characters outside the alphabet -/
def a2b (c : Char) : Option Nat :=
  let n := c.toNat
  if 65 ≤ n && n ≤ 90 then some (n - 65)
  else if 97 ≤ n && n ≤ 122 then some (n - 97 + 26)
  else if 48 ≤ n && n ≤ 57 then some (n - 48 + 52)
  else if c = '+' then some 62
  else if c = '/' then some 63
  else none

/-- `b64encode` -/
def encode : List Nat → Str
  | [] => []
  | [b0] => [b2a (b0 / 4), b2a ((b0 % 4) * 16), '=', '=']
  | [b0, b1] => [b2a (b0 / 4), b2a ((b0 % 4) * 16 + b1 / 16), b2a ((b1 % 16) * 4), '=']
  | b0 :: b1 :: b2 :: rest =>
    b2a (b0 / 4) :: b2a ((b0 % 4) * 16 + b1 / 16) :: b2a ((b1 % 16) * 4 + b2 / 64) :: b2a (b2 % 64) :: encode rest

inductive DecErr where
  | incorrectPadding       -- binascii.Error("Incorrect padding")
  | oneMoreThanMultiple    -- binascii.Error("... cannot be 1 more than a multiple of 4")
deriving DecidableEq, Repr

structure DecState where
  quadPos : Nat
  leftchar : Nat
  pads : Nat
  outRev : List Nat
deriving DecidableEq, Repr

/-- the decoding loop; `none` = `goto done` was taken (complete padding seen: the rest is ignored) -/
def decodeLoop : DecState → Str → Except DecErr (List Nat)
  | st, [] =>
    if st.quadPos = 0 then .ok st.outRev.reverse
    else if st.quadPos = 1 then .error .oneMoreThanMultiple
    else .error .incorrectPadding
  | st, c :: cs =>
    if c = '=' then
      if st.quadPos ≥ 2 then
        -- `quad_pos >= 2 && quad_pos + ++pads >= 4`
        if st.quadPos + (st.pads + 1) ≥ 4 then .ok st.outRev.reverse
        else decodeLoop { st with pads := st.pads + 1 } cs
      else decodeLoop st cs
    else
      match a2b c with
      | none => decodeLoop st cs
      | some v =>
        match st.quadPos with
        | 0 => decodeLoop { quadPos := 1, leftchar := v, pads := 0, outRev := st.outRev } cs
        | 1 => decodeLoop { quadPos := 2, leftchar := v % 16, pads := 0,
                            outRev := (st.leftchar * 4 + v / 16) :: st.outRev } cs
        | 2 => decodeLoop { quadPos := 3, leftchar := v % 4, pads := 0,
                            outRev := (st.leftchar * 16 + v / 4) :: st.outRev } cs
        | _ => decodeLoop { quadPos := 0, leftchar := 0, pads := 0,
                            outRev := (st.leftchar * 64 + v) :: st.outRev } cs

def initState : DecState := { quadPos := 0, leftchar := 0, pads := 0, outRev := [] }

/-- `binascii.a2b_base64(data)` on ASCII text -/
def decode (x : Str) : Except DecErr (List Nat) := decodeLoop initState x

end Indi.B64
