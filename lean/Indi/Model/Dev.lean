/-
  L2e `Dev` — model of the driver framework (indi/device/driver.py,
  properties/instance/{elements,vectors,group}.py, events.py).

  A driver instance is a list of groups → vectors → elements with their
  dynamic state.  Every operation returns the new state, the messages handed to
  the router (as wire views), the trace of Write/Change handler invocations
  and an outcome (the Python exception that escapes, if any).

  Handlers are modelled by what the event contract lets them do: a Write
  handler may veto (`prevent_default`), a plain Read handler may refresh the
  value (`reset_value`), any handler may be a coroutine (then it is a task that
  runs after the operation).
-/
import Indi.Model.Msg
import Indi.Model.Num
import Indi.Model.B64
import Indi.Model.Switch

namespace Indi.Dev
open Indi

inductive Kind where
  | text | number | switch | light | blob
deriving DecidableEq, Repr

/-- a Python value an element can hold / be assigned -/
inductive Value where
  | none
  | text (v : Str)
  | num (v : Rat) (isInt : Bool)
  | blob (bytes : List Nat) (format : Option Str)
  | other                                  -- an object of a type no element accepts
deriving DecidableEq, Repr

structure WriteH where
  id : Nat
  async : Bool
  veto : Bool
deriving DecidableEq, Repr

structure ChangeH where
  id : Nat
  async : Bool
deriving DecidableEq, Repr

structure ElemDef where
  name : Str
  label : Str
  format : Str := []          -- numbers: format string, and pre-rendered min/max/step
  min : Str := []
  max : Str := []
  step : Str := []
  writeH : List WriteH := []
  changeH : List ChangeH := []
  refresh : Option Value := none     -- a plain Read handler that does `reset_value(v)`
deriving DecidableEq, Repr

structure Elem where
  d : ElemDef
  value : Value
  enabled : Bool
deriving DecidableEq, Repr

structure Vec where
  name : Str
  label : Str
  kind : Kind
  perm : Option Str             -- pre-rendered; lights have none
  timeout : Option Str
  rule : Option Switch.Rule
  state : Str
  enabled : Bool
  elems : List Elem
deriving DecidableEq, Repr

structure Group where
  name : Str
  enabled : Bool
  vecs : List Vec
deriving DecidableEq, Repr

structure Device where
  name : Str
  groups : List Group
deriving DecidableEq, Repr

inductive EvKind where
  | write | change
deriving DecidableEq, Repr

/-- one handler invocation: which handler, event, payload (old, new), the element's value when the
handler body runs, and whether it ran as a task -/
structure Call where
  handler : Nat
  kind : EvKind
  old : Value
  new : Value
  seen : Value
  task : Bool
deriving DecidableEq, Repr

inductive Exc where
  | assertionError | valueError | typeError | keyError | other
deriving DecidableEq, Repr

structure Result where
  dev : Device
  msgs : List Msg := []
  calls : List Call := []          -- plain handlers, in call order
  tasks : List Call := []          -- coroutine handlers, in creation order (run after the operation)
  exc : Option Exc := none
deriving Repr

def stamp : Str := s "T"           -- `message.now()` is patched to this constant by the harness

/-! ### rendering of values into message parts -/

def onOff (b : Bool) : Str := if b then s "On" else s "Off"

/-- a switch/light value is kept as text; On/Off and the four states -/
def switchOn (v : Value) : Bool := v = .text (s "On")

/-- `element.value` as read (a plain Read handler may have refreshed it) -/
def readValue (e : Elem) : Value :=
  match e.d.refresh with
  | some v => v
  | none => e.value

/-- the element after a read (the refresh sticks) -/
def afterRead (e : Elem) : Elem := { e with value := readValue e }

inductive Rendered where
  | ok (v : Option Str)
  | fail (e : Exc)

/-- `'%.2f' % n` of a Python int converts it to a float first (`%d` and the sexagesimal formats render integers exactly) -/
def preRound (fmt : Str) (isInt : Bool) (x : Rat) : Rat :=
  match isInt, Num.parseFmt fmt with
  | true, some (.f _ _ _) => Num.exactIEEE.fl x
  | _, _ => x

/-- `num_to_str(value, format)` as far as the message needs it -/
def renderNum (fmt : Str) (v : Value) : Rendered :=
  match v with
  | .none => .ok none
  | .num x isInt =>
    match Num.numToStr Num.exactIEEE fmt (preRound fmt isInt x) with
    | .ok t => .ok (some t)
    | .assertionError => .fail .assertionError
    | .valueError => .fail .valueError
    | .unsupported => .fail .other
  | _ => .fail .typeError

def natStr (n : Nat) : Str := Num.natDigits n

/-- the `one*` part of an element in a `set*Vector` -/
def onePart (k : Kind) (e : Elem) : Except Exc Part :=
  let v := readValue e
  match k with
  | .text =>
    match v with
    | .none => .ok { tag := s "oneText", fields := [(s "name", some e.d.name), (s "value", none)] }
    | .text t => .ok { tag := s "oneText", fields := [(s "name", some e.d.name), (s "value", some t)] }
    | _ => .error .other
  | .switch =>
    match v with
    | .text t => .ok { tag := s "oneSwitch", fields := [(s "name", some e.d.name), (s "value", some t)] }
    | _ => .error .valueError
  | .light =>
    match v with
    | .text t => .ok { tag := s "oneLight", fields := [(s "name", some e.d.name), (s "value", some t)] }
    | _ => .error .valueError
  | .number =>
    match renderNum e.d.format v with
    | .ok t => .ok { tag := s "oneNumber", fields := [(s "name", some e.d.name), (s "value", t)] }
    | .fail x => .error x
  | .blob =>
    match v with
    | .none => .ok { tag := s "oneBLOB", fields := [(s "name", some e.d.name), (s "value", none),
                                                    (s "size", some (s "0")), (s "format", some [])] }
    | .blob bs f => .ok { tag := s "oneBLOB", fields := [(s "name", some e.d.name), (s "value", some (B64.encode bs)),
                                                         (s "size", some (natStr bs.length)), (s "format", f)] }
    | _ => .error .other

/-- the `def*` part of an element in a `def*Vector` -/
def defPart (k : Kind) (e : Elem) : Except Exc Part :=
  let v := readValue e
  let base (tag : String) (val : Option Str) : Part :=
    { tag := s tag, fields := [(s "name", some e.d.name), (s "value", val), (s "label", some e.d.label)] }
  match k with
  | .text =>
    match v with
    | .none => .ok (base "defText" none)
    | .text t => .ok (base "defText" (some t))
    | _ => .error .other
  | .switch =>
    match v with
    | .text t => .ok (base "defSwitch" (some t))
    | _ => .error .valueError
  | .light =>
    match v with
    | .text t => .ok (base "defLight" (some t))
    | _ => .error .valueError
  | .number =>
    match renderNum e.d.format v with
    | .ok t => .ok { tag := s "defNumber",
                     fields := [(s "name", some e.d.name), (s "value", t), (s "label", some e.d.label),
                                (s "format", some e.d.format), (s "min", some e.d.min), (s "max", some e.d.max),
                                (s "step", some e.d.step)] }
    | .fail x => .error x
  | .blob => .ok (base "defBLOB" none)

def mapParts (f : Elem → Except Exc Part) : List Elem → Except Exc (List Part)
  | [] => .ok []
  | e :: es =>
    if e.enabled then
      match f e with
      | .error x => .error x
      | .ok p =>
        match mapParts f es with
        | .error x => .error x
        | .ok ps => .ok (p :: ps)
    else mapParts f es

def kindName : Kind → String
  | .text => "Text" | .number => "Number" | .switch => "Switch" | .light => "Light" | .blob => "BLOB"

def ruleName : Switch.Rule → Str
  | .oneOfMany => s "OneOfMany" | .atMostOne => s "AtMostOne" | .anyOfMany => s "AnyOfMany"

def vecEnabled (g : Group) (v : Vec) : Bool := v.enabled && g.enabled

/-- `vector.to_set_message()`; `none` when the vector is not enabled -/
def setMsg (dev : Str) (g : Group) (v : Vec) : Except Exc (Option Msg) :=
  if !vecEnabled g v then .ok none else
  match mapParts (onePart v.kind) v.elems with
  | .error x => .error x
  | .ok ps =>
    .ok (some { tag := s ("set" ++ kindName v.kind ++ "Vector"),
                fields := [(s "device", some dev), (s "name", some v.name), (s "state", some v.state),
                           (s "timeout", match v.kind with | .light => none | _ => v.timeout),
                           (s "timestamp", some stamp), (s "message", none)],
                children := some ps })

/-- `vector.to_def_message()`: a definition, or `delProperty` when the vector is not enabled -/
def defMsg (dev : Str) (g : Group) (v : Vec) : Except Exc Msg :=
  if !vecEnabled g v then
    .ok { tag := s "delProperty",
          fields := [(s "device", some dev), (s "name", some v.name), (s "timestamp", some stamp), (s "message", none)],
          children := none }
  else
  match mapParts (defPart v.kind) v.elems with
  | .error x => .error x
  | .ok ps =>
    let common := [(s "device", some dev), (s "name", some v.name), (s "state", some v.state),
                   (s "label", some v.label), (s "group", some g.name), (s "timestamp", some stamp), (s "message", none)]
    let writable := [(s "perm", v.perm), (s "timeout", v.timeout)]
    let fields := match v.kind with
      | .light => common
      | .switch => common ++ writable ++ [(s "rule", v.rule.map ruleName)]
      | _ => common ++ writable
    .ok { tag := s ("def" ++ kindName v.kind ++ "Vector"), fields := fields, children := some ps }

/-- reading values while building a message makes Read-handler refreshes stick -/
def refreshVec (v : Vec) : Vec := { v with elems := v.elems.map fun e => if e.enabled then afterRead e else e }

/-- building a *definition*: a BLOB definition carries no payload, `BLOB.to_def_message` does not read the value, so no Read
event is raised and nothing is refreshed; every other kind reads its elements -/
def refreshDef (v : Vec) : Vec := if v.kind = .blob then v else refreshVec v

/-! ### addressing -/

structure Addr where
  g : Nat
  v : Nat
  e : Nat
deriving DecidableEq, Repr

def getVec (d : Device) (gi vi : Nat) : Option (Group × Vec) :=
  match d.groups[gi]? with
  | none => none
  | some g => (g.vecs[vi]?).map fun v => (g, v)

def setVec (d : Device) (gi vi : Nat) (v : Vec) : Device :=
  { d with groups := d.groups.modify gi fun g => { g with vecs := g.vecs.set vi v } }

/-- `driver._vectors[name]`: the dict is filled group by group, a later vector of the same name wins -/
def findVecByName (d : Device) (name : Str) : Option (Nat × Nat) :=
  let all := (d.groups.zipIdx.map fun (g, gi) => g.vecs.zipIdx.map fun (v, vi) => (v.name, gi, vi)).flatten
  (all.reverse.find? fun t => t.1 = name).map fun t => (t.2.1, t.2.2)

/-- `vector._elements_by_name[name]`: later element of the same name wins -/
def findElemByName (v : Vec) (name : Str) : Option Nat :=
  ((v.elems.zipIdx.reverse.find? fun (e, _) => e.d.name = name)).map (·.2)

/-! ### assignment -/

def states : List Str := [s "Idle", s "Ok", s "Busy", s "Alert"]

/-- `check_value_type`: allowed Python types per element kind (`None` always allowed) -/
def typeOk (k : Kind) (v : Value) : Bool :=
  match k, v with
  | _, .none => true
  | .text, .text _ => true
  | .switch, .text _ => true
  | .light, .text _ => true
  | .number, .num _ _ => true
  | .blob, .blob _ _ => true
  | _, _ => false

/-- beyond what a float can hold: `math.isfinite` raises OverflowError / is False -/
def tooBig (x : Rat) : Bool :=
  let lim : Rat := (2 : Rat) ^ 1024 - (2 : Rat) ^ 970
  x ≥ lim || x ≤ -lim

def bools (v : Vec) : List Bool := v.elems.map fun e => switchOn e.value

/-- store switch states back into the elements -/
def putBools (v : Vec) (bs : List Bool) : Vec :=
  { v with elems := (v.elems.zip bs).map fun (e, b) =>
      if switchOn e.value = b then e else { e with value := .text (onOff b) } }

/-- `check_value` for element `ei` of vector `v`: the value to store (and, for switches, the
side effects of the rule on the siblings), or the exception it raises -/
def checkValue (v : Vec) (ei : Nat) (val : Value) : Except Exc (Vec × Value) :=
  match v.kind with
  | .switch =>
    match val with
    | .text t =>
      if t = s "On" || t = s "Off" then
        let rule := v.rule.getD .oneOfMany
        let bs := Switch.assignAt rule (bools v) ei (t = s "On")
        -- siblings are switched Off directly; the element itself gets the returned value
        let stored := onOff (bs.getD ei false)
        .ok (putBools v (bs.set ei (switchOn ((v.elems[ei]?.map (·.value)).getD .none))), .text stored)
      else .error .valueError
    | _ => .error .valueError
  | .light =>
    match val with
    | .text t => if states.contains t then .ok (v, val) else .error .valueError
    | _ => .error .valueError
  | .number =>
    match val with
    | .num x isInt =>
      if tooBig x then (if isInt then .error .other else .error .valueError) else .ok (v, val)
    | _ => .ok (v, val)
  | _ => .ok (v, val)

/-- Python `a != b` on element values: numbers compare numerically (`100 == 100.0`), BLOBs by content -/
def pyNe (a b : Value) : Bool :=
  match a, b with
  | .num x _, .num y _ => x != y
  | _, _ => a != b

def fireChange (hs : List ChangeH) (old new : Value) : List Call × List Call :=
  -- a task runs after the operation: what it sees then is not part of the contract (recorded as none)
  let mk (h : ChangeH) : Call := { handler := h.id, kind := .change, old := old, new := new,
                                   seen := if h.async then .none else new, task := h.async }
  ((hs.filter fun h => !h.async).map mk, (hs.filter fun h => h.async).map mk)

/-- `element.value = val` (the property setter) -/
def assign (d : Device) (a : Addr) (val : Value) : Result :=
  match getVec d a.g a.v with
  | none => { dev := d, exc := some .keyError }
  | some (g, v) =>
    match v.elems[a.e]? with
    | none => { dev := d, exc := some .keyError }
    | some e =>
      if !typeOk v.kind val then { dev := d, exc := some .assertionError } else
      match checkValue v a.e val with
      | .error x => { dev := d, exc := some x }
      | .ok (v1, stored) =>
        let prev := e.value
        let e1 : Elem := { (v1.elems[a.e]?.getD e) with value := stored }
        let v2 : Vec := { v1 with elems := v1.elems.set a.e e1 }
        -- publication: reads every enabled element (Read handlers refresh)
        match setMsg d.name g v2 with
        | .error x => { dev := setVec d a.g a.v v2, exc := some x }
        | .ok m =>
          let v3 := if vecEnabled g v2 then refreshVec v2 else v2
          let now := (v3.elems[a.e]?.map (·.value)).getD stored
          let (calls, tasks) := if pyNe prev now then fireChange e.d.changeH prev now else ([], [])
          { dev := setVec d a.g a.v v3, msgs := m.toList, calls := calls, tasks := tasks }

/-- `element.set_value(val)`: Write event, then the default unless a plain handler vetoed -/
def setValue (d : Device) (a : Addr) (val : Value) : Result :=
  match getVec d a.g a.v with
  | none => { dev := d, exc := some .keyError }
  | some (_, v) =>
    match v.elems[a.e]? with
    | none => { dev := d, exc := some .keyError }
    | some e =>
      let mk (h : WriteH) : Call := { handler := h.id, kind := .write, old := .none, new := val,
                                      seen := if h.async then .none else e.value, task := h.async }
      let wcalls := (e.d.writeH.filter fun h => !h.async).map mk
      let wtasks := (e.d.writeH.filter fun h => h.async).map mk
      let vetoed := e.d.writeH.any fun h => !h.async && h.veto
      if vetoed then { dev := d, calls := wcalls, tasks := wtasks }
      else
        let r := assign d a val
        { r with calls := wcalls ++ r.calls, tasks := wtasks ++ r.tasks }

/-! ### messages from clients -/

/-- Python `int(text)` for the declared BLOB size -/
def pyInt (x : Str) : Option Int :=
  let t := pyStrip x
  let (neg, body) := match t with
    | '-' :: r => (true, r)
    | '+' :: r => (false, r)
    | r => (false, r)
  -- digits, single underscores allowed between digits
  let rec go : Str → Bool → Option (List Char)
    | [], prevDigit => if prevDigit then some [] else none
    | c :: cs, prevDigit =>
      if pyIsDigit c then (go cs true).map (c :: ·)
      else if c = '_' && prevDigit then
        match cs with
        | c2 :: _ => if pyIsDigit c2 then go cs false else none
        | [] => none
      else none
  match body with
  | [] => none
  | c :: _ =>
    if !pyIsDigit c then none else
    match go body false with
    | some ds => some (if neg then -(Num.digitsVal ds : Int) else Num.digitsVal ds)
    | none => none

def isAscii (x : Str) : Bool := x.all fun c => c.toNat < 128

/-- the value a `one*` child asks for, or the exception `set_value_from_message` raises before any state changes -/
def valueFromPart (k : Kind) (p : Part) : Except Exc Value :=
  let text := valueOf p.fields
  match k with
  | .text => .ok (match text with | some t => .text t | none => .none)
  | .switch => .ok (match text with | some t => .text t | none => .none)
  | .light => .ok (match text with | some t => .text t | none => .none)
  | .number =>
    match text with
    | none => .ok .none
    | some t =>
      match Num.strToNum Num.exactIEEE t with
      | .ok (.int v) => .ok (.num v true)
      | .ok (.float v) => .ok (.num v false)
      | _ => .error .valueError
  | .blob =>
    -- `from_base64(msg.value or "", …)`: an absent payload is the empty payload
    match some (text.getD []) with
    | none => .error .typeError
    | some t =>
      if !isAscii t then .error .valueError else
      match B64.decode t with
      | .error _ => .error .valueError
      | .ok bytes =>
        match alookup (s "size") p.fields with
        | some (some sz) =>
          match pyInt sz with
          | none => .error .valueError
          | some n => if n = bytes.length then .ok (.blob bytes ((alookup (s "format") p.fields).getD none)) else .error .assertionError
        | _ => .error .typeError

def newTag : Kind → Option Str
  | .text => some (s "newTextVector")
  | .number => some (s "newNumberVector")
  | .switch => some (s "newSwitchVector")
  | .blob => some (s "newBLOBVector")
  | .light => none

def mergeRes (a b : Result) : Result :=
  { dev := b.dev, msgs := a.msgs ++ b.msgs, calls := a.calls ++ b.calls, tasks := a.tasks ++ b.tasks,
    exc := match a.exc with | some x => some x | none => b.exc }

/-- exceptions `from_new_message` swallows per child -/
def swallowed : Exc → Bool
  | .valueError | .typeError | .assertionError => true
  | .other => true       -- OverflowError (ArithmeticError)
  | .keyError => false

/-- `vector.from_new_message(msg)`: one `set_value_from_message` per child, in order -/
def applyChildren (gi vi : Nat) : Device → List Part → Result
  | d, [] => { dev := d }
  | d, p :: ps =>
    match getVec d gi vi with
    | none => { dev := d }
    | some (_, v) =>
      let name := (alookup (s "name") p.fields).getD none
      match name.bind (findElemByName v) with
      | none => applyChildren gi vi d ps
      | some ei =>
        match valueFromPart v.kind p with
        | .error _ => applyChildren gi vi d ps
        | .ok val =>
          let r := setValue d ⟨gi, vi, ei⟩ val
          match r.exc with
          | some x =>
            if swallowed x then mergeRes { r with exc := none } (applyChildren gi vi r.dev ps)
            else r
          | none => mergeRes r (applyChildren gi vi r.dev ps)

def allVecs (d : Device) : List (Group × Vec) :=
  (d.groups.map fun g => g.vecs.map fun v => (g, v)).flatten

/-- the vectors `driver._vectors` holds (name → last vector of that name), in dict insertion order -/
def dictVecs (d : Device) : List (Nat × Nat) :=
  let all := (d.groups.zipIdx.map fun (g, gi) => g.vecs.zipIdx.map fun (v, vi) => (v.name, gi, vi)).flatten
  -- insertion order of first occurrence, value of last occurrence
  let names := all.map (·.1)
  let firsts := all.zipIdx.filter fun (t, i) => !(names.take i).contains t.1
  firsts.filterMap fun (t, _) => findVecByName d t.1

/-- send the definitions of a list of vectors, one after the other (reads refresh) -/
def sendDefs : Device → List (Nat × Nat) → Result
  | d, [] => { dev := d }
  | d, (gi, vi) :: rest =>
    match getVec d gi vi with
    | none => sendDefs d rest
    | some (g, v) =>
      match defMsg d.name g v with
      | .error x => { dev := d, exc := some x }
      | .ok m =>
        let v' := if vecEnabled g v then refreshDef v else v
        let d' := setVec d gi vi v'
        mergeRes { dev := d', msgs := [m] } (sendDefs d' rest)

/-- `driver.message_from_client(msg)` -/
def fromClient (d : Device) (m : Msg) : Result :=
  if m.tag = s "getProperties" then
    match (alookup (s "name") m.fields).getD none with
    | none => sendDefs d (dictVecs d)
    | some n =>
      if n.isEmpty then sendDefs d (dictVecs d)
      else match findVecByName d n with
        | some (gi, vi) => sendDefs d [(gi, vi)]
        | none => { dev := d }
  else if (m.tag.take 3 = s "new") then
    match (alookup (s "name") m.fields).getD none with
    | none => { dev := d }
    | some n =>
      match findVecByName d n with
      | none => { dev := d }
      | some (gi, vi) =>
        match getVec d gi vi with
        | none => { dev := d }
        | some (_, v) =>
          if newTag v.kind = some m.tag then applyChildren gi vi d (m.children.getD [])
          else { dev := d }
  else { dev := d }

/-! ### driver-side operations -/

/-- `vector.state_ = st` -/
def setState (d : Device) (gi vi : Nat) (st : Option Str) : Result :=
  match getVec d gi vi with
  | none => { dev := d, exc := some .keyError }
  | some (g, v) =>
    match st with
    | some t =>
      if !states.contains t then { dev := d, exc := some .valueError } else
      let v1 := { v with state := t }
      match setMsg d.name g v1 with
      | .error x => { dev := setVec d gi vi v1, exc := some x }
      | .ok m => { dev := setVec d gi vi (if vecEnabled g v1 then refreshVec v1 else v1), msgs := m.toList }
    | none => { dev := d, exc := some .valueError }

/-- def (or delProperty) then set of one vector, as the `enabled` setters send them -/
def announce (d : Device) (gi vi : Nat) : Result :=
  match getVec d gi vi with
  | none => { dev := d }
  | some (g, v) =>
    match defMsg d.name g v with
    | .error x => { dev := d, exc := some x }
    | .ok dm =>
      let v1 := if vecEnabled g v then refreshDef v else v
      match setMsg d.name g v1 with
      | .error x => { dev := setVec d gi vi v1, msgs := [dm], exc := some x }
      | .ok sm => { dev := setVec d gi vi (if vecEnabled g v1 then refreshVec v1 else v1), msgs := dm :: sm.toList }

/-- `vector.enabled = b` -/
def enableVec (d : Device) (gi vi : Nat) (b : Bool) : Result :=
  match getVec d gi vi with
  | none => { dev := d, exc := some .keyError }
  | some (_, v) => announce (setVec d gi vi { v with enabled := b }) gi vi

def announceAll (gi : Nat) : Device → List Nat → Result
  | d, [] => { dev := d }
  | d, vi :: rest =>
    let r := announce d gi vi
    match r.exc with
    | some _ => r
    | none => mergeRes r (announceAll gi r.dev rest)

/-- `group.enabled = b` -/
def enableGroup (d : Device) (gi : Nat) (b : Bool) : Result :=
  match d.groups[gi]? with
  | none => { dev := d, exc := some .keyError }
  | some g =>
    let d1 := { d with groups := d.groups.set gi { g with enabled := b } }
    announceAll gi d1 (List.range g.vecs.length)

/-- `element.enabled = b` (no message) -/
def enableElem (d : Device) (a : Addr) (b : Bool) : Result :=
  match getVec d a.g a.v with
  | none => { dev := d, exc := some .keyError }
  | some (_, v) =>
    match v.elems[a.e]? with
    | none => { dev := d, exc := some .keyError }
    | some e => { dev := setVec d a.g a.v { v with elems := v.elems.set a.e { e with enabled := b } } }

inductive Op where
  | assign (a : Addr) (v : Value)
  | setValue (a : Addr) (v : Value)
  | state (g v : Nat) (st : Option Str)
  | enableVec (g v : Nat) (b : Bool)
  | enableGroup (g : Nat) (b : Bool)
  | enableElem (a : Addr) (b : Bool)
  | client (m : Msg)
deriving Repr

def step (d : Device) : Op → Result
  | .assign a v => assign d a v
  | .setValue a v => setValue d a v
  | .state g v st => setState d g v st
  | .enableVec g v b => enableVec d g v b
  | .enableGroup g b => enableGroup d g b
  | .enableElem a b => enableElem d a b
  | .client m => fromClient d m

end Indi.Dev
