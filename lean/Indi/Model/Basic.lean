/-
  Common vocabulary of the indipy models.  Core Lean only (no imports), so
  that every model file can be compiled into the line-protocol executable.

  Strings are `List Char` (Python `str` = sequence of code points; after
  `decode("latin1")` or a character reference that is exactly what reaches the
  library).  Python dicts are insertion-ordered association lists.
-/
namespace Indi

abbrev Str := List Char

/-- Python `dict.get` on an insertion-ordered association list. -/
def alookup {α : Type} (k : Str) : List (Str × α) → Option α
  | [] => none
  | (k', v) :: rest => if k' = k then some v else alookup k rest

/-- Python `d[k] = v`: replace in place when the key exists, else append. -/
def aset {α : Type} (k : Str) (v : α) : List (Str × α) → List (Str × α)
  | [] => [(k, v)]
  | (k', v') :: rest => if k' = k then (k', v) :: rest else (k', v') :: aset k v rest

def adel {α : Type} (k : Str) : List (Str × α) → List (Str × α)
  | [] => []
  | (k', v') :: rest => if k' = k then rest else (k', v') :: adel k rest

def ahas {α : Type} (k : Str) (l : List (Str × α)) : Bool := (alookup k l).isSome

def s (x : String) : Str := x.toList

end Indi

namespace Indi
/-- a string given by its code points (generated tables use it for non-printable text) -/
def cps (l : List Nat) : Str := l.map Char.ofNat
end Indi
