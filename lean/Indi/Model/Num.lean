/-
  L2c `Num` — model of `num_to_str`, `str_to_num` (indi/device/values.py).

  Numbers are exact rationals (every finite double is one).  The only place
  where floating point rounds is made explicit through `Arith.fl`
  ("round this exact real to binary64"): the product `abs(n) * base` in
  `num_to_str`, and `float(Fraction)` / `float(str)` in `str_to_num`, which
  CPython rounds correctly.  `exactIEEE` is the executable instance used for
  the correspondence; the theorems hold for every `Arith` within the error
  bound of binary64.
-/
import Indi.Model.Msg

namespace Indi.Num

structure Arith where
  fl : Rat → Rat

/-- round half to even: Python's `round(x)` on the exact value, `%.pf` on the exact value -/
def rhe (r : Rat) : Int :=
  let f := r.floor
  let d := r - f
  if d < 1/2 then f else if d > 1/2 then f + 1 else if f % 2 = 0 then f else f + 1

def pow2 (e : Int) : Rat := if e ≥ 0 then (2 : Rat) ^ e.toNat else 1 / (2 : Rat) ^ (-e).toNat

/-- binary64 round-to-nearest-even of a positive rational in the normal range -/
def flPos (q : Rat) : Rat :=
  let k : Int := (Nat.log2 q.num.natAbs : Int) - (Nat.log2 q.den : Int)
  let e0 := k - 52
  let e := if q / pow2 e0 < (2 : Rat) ^ 52 then e0 - 1 else if q / pow2 e0 ≥ (2 : Rat) ^ 53 then e0 + 1 else e0
  (rhe (q / pow2 e) : Rat) * pow2 e

def flIEEE (q : Rat) : Rat := if q = 0 then 0 else if q > 0 then flPos q else - flPos (-q)

def exactIEEE : Arith := { fl := flIEEE }

/-! ### decimal digits -/

def natDigitsAux : Nat → Nat → Str → Str
  | 0, _, acc => acc
  | fuel + 1, n, acc =>
    let acc' := Char.ofNat (48 + n % 10) :: acc
    if n < 10 then acc' else natDigitsAux fuel (n / 10) acc'

/-- `str(n)` for a natural number -/
def natDigits (n : Nat) : Str := natDigitsAux (n + 1) n []

/-- `n` zero-padded on the left to at least `w` digits (`%0wd`) -/
def padDigits (w : Nat) (n : Nat) : Str :=
  let d := natDigits n
  List.replicate (w - d.length) '0' ++ d

/-! ### formats -/

structure Flags where
  minus : Bool := false
  plus : Bool := false
  space : Bool := false
  hash : Bool := false
  zero : Bool := false
deriving DecidableEq, Repr

inductive Fmt where
  | sexa (frac : Nat)                                  -- `%<w>.<frac>m`
  | f (flags : Flags) (width : Nat) (prec : Nat)        -- `%[flags][width][.prec]f` (default precision 6)
  | d (flags : Flags) (width : Nat) (prec : Option Nat) -- `%[flags][width][.prec]d`
deriving DecidableEq, Repr

def isAsciiDigit (c : Char) : Bool := '0' ≤ c && c ≤ '9'

def spanAscii : Str → Str × Str
  | [] => ([], [])
  | c :: cs => if isAsciiDigit c then let (d, r) := spanAscii cs; (c :: d, r) else ([], c :: cs)

def asciiVal (ds : Str) : Nat := ds.foldl (fun acc c => acc * 10 + (c.toNat - 48)) 0

def spanFlags : Flags → Str → Flags × Str
  | fl, '-' :: r => spanFlags { fl with minus := true } r
  | fl, '+' :: r => spanFlags { fl with plus := true } r
  | fl, ' ' :: r => spanFlags { fl with space := true } r
  | fl, '#' :: r => spanFlags { fl with hash := true } r
  | fl, '0' :: r => spanFlags { fl with zero := true } r
  | fl, r => (fl, r)

/-- the format strings of the property's family; anything else is outside the model -/
def parseFmt (x : Str) : Option Fmt :=
  match x with
  | '%' :: r =>
    -- sexagesimal first, as `num_to_str` does
    let (w, r1) := spanAscii r
    let sexa : Option Fmt :=
      match r1 with
      | '.' :: r2 =>
        let (p, r3) := spanAscii r2
        if !p.isEmpty && r3 = ['m'] then some (.sexa (asciiVal p)) else none
      | _ => none
    match sexa with
    | some s => let _ := w; some s
    | none =>
      let (fl, r1) := spanFlags {} r
      let (wd, r2) := spanAscii r1
      let (prec, r3) : Option Nat × Str :=
        match r2 with
        | '.' :: r' => let (p, r'') := spanAscii r'; (some (asciiVal p), r'')
        | _ => (none, r2)
      match r3 with
      | ['f'] => some (.f fl (asciiVal wd) (prec.getD 6))
      | ['d'] => some (.d fl (asciiVal wd) prec)
      | _ => none
  | _ => none

def sexaBase (frac : Nat) : Option Nat := (Generated.sexaBases.find? fun kv => kv.1 = frac).map (·.2)

inductive Outcome (α : Type) where
  | ok (v : α)
  | valueError
  | assertionError
  | unsupported
deriving Repr

/-- sign string of a printf conversion -/
def signStr (fl : Flags) (neg : Bool) : Str :=
  if neg then ['-'] else if fl.plus then ['+'] else if fl.space then [' '] else []

/-- field-width padding of `sign ++ body` -/
def padField (fl : Flags) (width : Nat) (sign body : Str) : Str :=
  let len := sign.length + body.length
  if len ≥ width then sign ++ body
  else if fl.minus then sign ++ body ++ List.replicate (width - len) ' '
  else if fl.zero then sign ++ List.replicate (width - len) '0' ++ body
  else List.replicate (width - len) ' ' ++ sign ++ body

def ratAbs (x : Rat) : Rat := if x < 0 then -x else x

/-- the sexagesimal fields of a total number of smallest units -/
def sexaFields (frac : Nat) (base : Nat) (total : Nat) : Str :=
  let wholes := total / base
  let fraction := total % base
  let w := natDigits wholes
  if frac = 3 then w ++ [':'] ++ padDigits 2 fraction
  else if frac = 5 then w ++ [':'] ++ padDigits 2 (fraction / 10) ++ ['.'] ++ natDigits (fraction % 10)
  else if frac = 6 then w ++ [':'] ++ padDigits 2 (fraction / 60) ++ [':'] ++ padDigits 2 (fraction % 60)
  else if frac = 8 then
    let minutes := fraction / 600
    let tenths := fraction % 600
    w ++ [':'] ++ padDigits 2 minutes ++ [':'] ++ padDigits 2 (tenths / 10) ++ ['.'] ++ natDigits (tenths % 10)
  else
    let minutes := fraction / 6000
    let hundredths := fraction % 6000
    w ++ [':'] ++ padDigits 2 minutes ++ [':'] ++ padDigits 2 (hundredths / 100) ++ ['.'] ++ padDigits 2 (hundredths % 100)

/-- `num_to_str(n, fmt)` for a parsed format -/
def render (A : Arith) (fmt : Fmt) (x : Rat) : Outcome Str :=
  match fmt with
  | .sexa frac =>
    match sexaBase frac with
    | none => .assertionError
    | some base =>
      -- `round(Fraction(abs(n)) * base)`: exact, no floating point involved
      let _ := A
      let total := (rhe (ratAbs x * base)).toNat
      .ok ((if x < 0 then ['-'] else []) ++ sexaFields frac base total)
  | .f fl width prec =>
    let scaled := (rhe (ratAbs x * (10 : Rat) ^ prec)).toNat
    let ip := scaled / 10 ^ prec
    let fp := scaled % 10 ^ prec
    let body := natDigits ip ++ (if prec > 0 then ['.'] ++ padDigits prec fp else if fl.hash then ['.'] else [])
    .ok (pyStrip (padField fl width (signStr fl (decide (x < 0))) body))
  | .d fl width prec =>
    -- `%d` of a float: int(x), truncation toward zero
    let mag := (ratAbs x).floor.toNat
    let neg := decide (x < 0) && mag != 0
    let digits := match prec with
      | some p => padDigits p mag
      | none => natDigits mag
    .ok (pyStrip (padField fl width (signStr fl neg) digits))

def numToStr (A : Arith) (fmt : Str) (x : Rat) : Outcome Str :=
  match parseFmt fmt with
  | none => .unsupported
  | some f => render A f x

/-! ### `str_to_num` -/

def digitVal (c : Char) : Nat :=
  match Generated.ndZeros.find? fun z => z ≤ c.toNat && c.toNat < z + 10 with
  | some z => c.toNat - z
  | none => 0

def digitsVal (ds : Str) : Nat := ds.foldl (fun acc c => acc * 10 + digitVal c) 0

/-- value of `d+`, optionally followed by `.d+`, as an exact rational -/
def decimalVal (ip fp : Str) : Rat := (digitsVal ip : Rat) + (digitsVal fp : Rat) / (10 : Rat) ^ fp.length

inductive NumVal where
  | int (v : Int)          -- Python `int`
  | float (v : Rat)        -- Python `float` (exact value of the double)
deriving Repr

/-- `dd` or `dd.d+` at the end of the text -/
def lastField (r : Str) : Option Rat :=
  match r with
  | a :: b :: rest =>
    if pyIsDigit a && pyIsDigit b then
      match rest with
      | [] => some (digitsVal [a, b])
      | '.' :: fr =>
        let (d, r') := spanDigits fr
        if !d.isEmpty && r'.isEmpty then some (decimalVal [a, b] d) else none
      | _ => none
    else none
  | _ => none

/-- the two sexagesimal regular expressions of `str_to_num` -/
def sexaVal (body : Str) : Option Rat :=
  let (w, r) := spanDigits body
  if w.isEmpty then none else
  match r with
  | c :: r1 =>
    if isSexaSep c then
      match lastField r1 with
      | some m => some ((digitsVal w : Rat) + m / 60)                  -- d+ sep dd(.d+)?
      | none =>
        match r1 with
        | a :: b :: c2 :: r2 =>
          if pyIsDigit a && pyIsDigit b && isSexaSep c2 then
            match lastField r2 with
            | some sec => some ((digitsVal w : Rat) + (digitsVal [a, b] : Rat) / 60 + sec / 3600)
            | none => none
          else none
        | _ => none
    else none
  | [] => none

def strToNumCore (A : Arith) (x : Str) : Outcome NumVal :=
  let (neg, body) := match x with
    | '-' :: r => (true, r)
    | '+' :: r => (false, r)
    | r => (false, r)
  match sexaVal body with
  | some mag => .ok (.float (A.fl (if neg then -mag else mag)))
  | none =>
    let (d, r) := spanDigits body
    if !d.isEmpty && r.isEmpty then .ok (.int (if neg then -(digitsVal d : Int) else digitsVal d))
    else
      match r with
      | '.' :: fr =>
        let (f, r') := spanDigits fr
        if r'.isEmpty && (!d.isEmpty || !f.isEmpty) then
          let mag := decimalVal d f
          .ok (.float (A.fl (if neg then -mag else mag)))
        else .valueError
      | _ => .valueError

/-- `str_to_num(s, fmt)`: the format plays no role any more -/
def strToNum (A : Arith) (x : Str) : Outcome NumVal := strToNumCore A (pyStrip x)

end Indi.Num
