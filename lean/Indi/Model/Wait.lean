/-
  L2g `Wait` — model of `BaseClient.waitforevent` (indi/client/client.py) on a
  virtual clock measured in grid units.

  The coroutine consists of three cooperating parts around one `asyncio.Event`
  (`lock`) and one result record: the registered callback (called synchronously
  while a batch of events is being processed), the polling task and the timeout
  task (both woken by timers).  The operational model advances instant by
  instant; within an instant the synchronous deliveries come first, then the
  task steps woken by timers in timer-creation order, then the waiter resumes.
  This is the order asyncio produces when event batches are delivered by
  `call_at` callbacks created before the wait starts (tools/vloop.py fires
  timers due at the same instant in creation order).
-/
import Indi.Model.Basic

namespace Indi.Wait

structure Cfg where
  timeout : Option Nat        -- `None` or `0`: no timeout task
  polling : Bool
  delay : Nat                 -- ≥ 1
  interval : Nat              -- ≥ 1
deriving DecidableEq, Repr

/-- a batch of events processed in one loop iteration at time `t`: for each event, does it pass the
wait's filter and satisfy its condition (expect / initial / check)? -/
abbrev Batch := Nat × List Bool

inductive Outcome where
  | pending
  | event (t : Nat) (index : Nat)     -- completed at time t with the index-th event of that batch
  | timeout (t : Nat)
deriving DecidableEq, Repr

structure St where
  lockSet : Bool := false
  result : Option (Nat × Nat) := none      -- result.event
  timedOut : Bool := false                 -- result.timeout
  pollAlive : Bool                         -- the polling loop has not exited yet
  nextTick : Nat                           -- when the polling task wakes next
  sends : List Nat := []                   -- getProperties send times (reversed)
  outcome : Outcome := .pending            -- what the waiter returned / raised, once it resumed
  cbRegistered : Bool := true
deriving Repr

/-- first matching event of a batch, if the lock is not set yet -/
def firstTrue : List Bool → Nat → Option Nat
  | [], _ => none
  | b :: bs, i => if b then some i else firstTrue bs (i + 1)

def deliver (st : St) (t : Nat) (batch : List Bool) : St :=
  if st.lockSet then st else
  match firstTrue batch 0 with
  | some i => { st with lockSet := true, result := some (t, i) }
  | none => st

def pollStep (st : St) (cfg : Cfg) (t : Nat) : St :=
  if cfg.polling && st.pollAlive && t = st.nextTick then
    if st.lockSet then { st with pollAlive := false }
    else { st with sends := t :: st.sends, nextTick := t + cfg.interval }
  else st

def timeoutStep (st : St) (cfg : Cfg) (t : Nat) : St :=
  match cfg.timeout with
  | some τ => if τ > 0 && t = τ && !st.lockSet then { st with timedOut := true, lockSet := true } else st
  | none => st

def waiterStep (st : St) (t : Nat) : St :=
  if st.lockSet && st.cbRegistered then
    { st with cbRegistered := false,
              outcome := if st.timedOut then .timeout t else
                match st.result with
                | some (te, i) => .event te i
                | none => .pending }
  else st

/-- everything that happens at instant `t` -/
def instant (cfg : Cfg) (batches : List Batch) (st : St) (t : Nat) : St :=
  let st1 := (batches.filter fun b => b.1 = t).foldl (fun s b => deliver s t b.2) st
  -- the first polling timer is created before the timeout timer, every later one after it
  let st2 := if t = cfg.delay then timeoutStep (pollStep st1 cfg t) cfg t else pollStep (timeoutStep st1 cfg t) cfg t
  waiterStep st2 t

def runFrom (cfg : Cfg) (batches : List Batch) (st : St) (t : Nat) : Nat → St
  | 0 => st
  | fuel + 1 => runFrom cfg batches (instant cfg batches st t) (t + 1) fuel

/-- run instants 1 … horizon -/
def run (cfg : Cfg) (batches : List Batch) (horizon : Nat) : St :=
  runFrom cfg batches { pollAlive := cfg.polling, nextTick := cfg.delay } 1 horizon

end Indi.Wait
