/-
  L2a `Buf` — model of indi/transport/buffer.py (`Buffer.append/process`).

  Parametrised by the list of known tags, the junk-recovery threshold
  (`none` = disabled, the client's BLOB connection) and the parser
  `parse : Str → ParseRes M`: `notXml` (`ET.fromstring` raises `ParseError`),
  `invalid` (well-formed XML, but `IndiMessage.from_string` raises) or
  `msg m`.  For running, `parse` is a table of what the real parser answers;
  for the C11/C02 theorems it is arbitrary.
-/
import Indi.Model.Basic

namespace Indi.Buf

inductive ParseRes (M : Type) where
  | notXml
  | invalid
  | msg (m : M)

/-- what one scan of the buffer finds -/
inductive FindRes (M : Type) where
  | found (m : M) (rest : Str)     -- a message and the data after it
  | skip (rest : Str)              -- a complete element that is not a valid message: dropped
  | nothing

variable {M : Type}

/-- does `d` start with `'<' ++ tag` for a known tag? -/
def startsKnown (tags : List Str) (d : Str) : Bool :=
  tags.any fun t => ('<' :: t).isPrefixOf d

/-- suffix of `d` beginning at the first position where a known opener starts
(`min` over the tags of `data.find("<" + tag)`) -/
def dropToKnown (tags : List Str) : Str → Option Str
  | [] => none
  | c :: cs => if startsKnown tags (c :: cs) then some (c :: cs) else dropToKnown tags cs

/-- suffix of `d` beginning at the last `'<'` (`data.rfind("<")`) -/
def dropToLastLt : Str → Option Str
  | [] => none
  | c :: cs =>
    match dropToLastLt cs with
    | some r => some r
    | none => if c = '<' then some (c :: cs) else none

/-- `_cleanup_buffer` -/
def cleanup (tags : List Str) (d : Str) : Str :=
  match dropToKnown tags d with
  | some r => r
  | none =>
    match dropToLastLt d with
    | some r => r
    | none => []

/-- the `while` loop of `_find_message_in_buffer`, after its guard has been
passed: `preRev` is the already scanned part (reversed), `rest` the part still
to scan.  Every prefix ending at a `'>'` is a candidate; after a candidate that
is not XML the loop guard `end < len(data) - 1` is evaluated again. -/
def scan (parse : Str → ParseRes M) : Str → Str → FindRes M
  | _, [] => .nothing
  | preRev, c :: cs =>
    if c = '>' then
      match parse (c :: preRev).reverse with
      | .msg m => .found m cs
      | .invalid => .skip cs
      | .notXml => if cs.length < 2 then .nothing else scan parse (c :: preRev) cs
    else scan parse (c :: preRev) cs

/-- `_find_message_in_buffer` -/
def findMessage (parse : Str → ParseRes M) (data : Str) : FindRes M :=
  if data.length < 2 then .nothing else scan parse [] data

theorem dropToKnown_length_le (tags : List Str) (d : Str) :
    ∀ r, dropToKnown tags d = some r → r.length ≤ d.length := by
  induction d with
  | nil => intro r h; simp [dropToKnown] at h
  | cons c cs ih =>
    intro r h
    simp only [dropToKnown] at h
    split at h
    · cases h; exact Nat.le_refl _
    · exact Nat.le_succ_of_le (ih r h)

theorem dropToLastLt_length_le (d : Str) : ∀ r, dropToLastLt d = some r → r.length ≤ d.length := by
  induction d with
  | nil => intro r h; simp [dropToLastLt] at h
  | cons c cs ih =>
    intro r h
    simp only [dropToLastLt] at h
    split at h
    · rename_i r' hr'
      cases h
      exact Nat.le_succ_of_le (ih _ hr')
    · split at h
      · cases h; exact Nat.le_refl _
      · cases h

theorem cleanup_length_le (tags : List Str) (d : Str) : (cleanup tags d).length ≤ d.length := by
  unfold cleanup
  split
  · rename_i r h; exact dropToKnown_length_le tags d r h
  · split
    · rename_i r h; exact dropToLastLt_length_le d r h
    · simp

theorem scan_rest_length (parse : Str → ParseRes M) :
    ∀ (rest preRev : Str),
      (∀ m r, scan parse preRev rest = .found m r → r.length < rest.length) ∧
      (∀ r, scan parse preRev rest = .skip r → r.length < rest.length) := by
  intro rest
  induction rest with
  | nil => intro preRev; constructor <;> intros <;> simp [scan] at *
  | cons c cs ih =>
    intro preRev
    simp only [scan]
    split
    · split
      · constructor
        · intro m r h; cases h; simp
        · intro r h; cases h
      · constructor
        · intro m r h; cases h
        · intro r h; cases h; simp
      · split
        · constructor <;> intros <;> simp at *
        · have := ih (c :: preRev)
          constructor
          · intro m r h; have := this.1 m r h; simp only [List.length_cons]; omega
          · intro r h; have := this.2 r h; simp only [List.length_cons]; omega
    · have := ih (c :: preRev)
      constructor
      · intro m r h; have := this.1 m r h; simp only [List.length_cons]; omega
      · intro r h; have := this.2 r h; simp only [List.length_cons]; omega

theorem findMessage_found_length (parse : Str → ParseRes M) (data : Str) (m : M) (r : Str)
    (h : findMessage parse data = .found m r) : r.length < data.length := by
  unfold findMessage at h
  split at h
  · cases h
  · exact (scan_rest_length parse data []).1 m r h

theorem findMessage_skip_length (parse : Str → ParseRes M) (data : Str) (r : Str)
    (h : findMessage parse data = .skip r) : r.length < data.length := by
  unfold findMessage at h
  split at h
  · cases h
  · exact (scan_rest_length parse data []).2 r h

/-- the loop of `Buffer.process` on already cleaned-up data: delivered
messages in order, and the retained data -/
def processLoop (parse : Str → ParseRes M) (tags : List Str) (threshold : Option Nat) (data : Str) :
    List M × Str :=
  if hd : data = [] then ([], [])
  else
    match hf : findMessage parse data with
    | .found m rest =>
      let r := processLoop parse tags threshold (cleanup tags rest)
      (m :: r.1, r.2)
    | .skip rest => processLoop parse tags threshold (cleanup tags rest)
    | .nothing =>
      match threshold with
      | some t =>
        if data.length > t then processLoop parse tags threshold (cleanup tags data.tail)
        else ([], data)
      | none => ([], data)
termination_by data.length
decreasing_by
  · have h1 := findMessage_found_length parse data m rest hf
    have h2 := cleanup_length_le tags rest
    omega
  · have h1 := findMessage_skip_length parse data rest hf
    have h2 := cleanup_length_le tags rest
    omega
  · have h2 := cleanup_length_le tags data.tail
    have h3 : data.tail.length < data.length := by
      cases data with
      | nil => exact absurd rfl hd
      | cons c cs => simp
    omega

/-- `Buffer.process` -/
def process (parse : Str → ParseRes M) (tags : List Str) (threshold : Option Nat) (data : Str) :
    List M × Str :=
  processLoop parse tags threshold (cleanup tags data)

/-- `buffer.append(piece); buffer.process(callback)` -/
def feed (parse : Str → ParseRes M) (tags : List Str) (threshold : Option Nat) (data piece : Str) :
    List M × Str :=
  process parse tags threshold (data ++ piece)

/-- a whole session: pieces fed one after the other; the deliveries of every call, and the final buffer -/
def session (parse : Str → ParseRes M) (tags : List Str) (threshold : Option Nat) :
    Str → List Str → List (List M) × Str
  | data, [] => ([], data)
  | data, p :: ps =>
    let r := feed parse tags threshold data p
    let rs := session parse tags threshold r.2 ps
    (r.1 :: rs.1, rs.2)

end Indi.Buf
