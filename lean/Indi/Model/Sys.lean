/-
  The deployment as one transition system: drivers (Model/Dev), the router's fan-out with the
  BLOB policy of each peer (Model/Rtr's decision, here in the form "does this peer get
  setBLOBVector"), the wire (`fromXml ∘ toXml`, Model/Msg) and client mirrors (Model/Cli).

  A *peer* is a client of the router: a network client (control + BLOB connection, so BLOB
  updates reach it once it knows the device) or an in-process snooping client (messages are
  handed over as objects; it never enables BLOBs).

  After every operation all traffic is delivered (quiescence), which is how the
  correspondence drives the real deployment (tools/comp_sys.py).  Framing of the byte
  streams is the subject of C02/C11 (Model/Buf); here the transport delivers every
  serialised message whole.
-/
import Indi.Model.Msg
import Indi.Model.Dev
import Indi.Model.Cli

namespace Indi.Sys
open Indi Indi.Dev Indi.Cli

structure Peer where
  blobs : Bool          -- setBLOBVector reaches it (network client; `enableBLOB Only` on the BLOB connection)
  inproc : Bool         -- snooping client: no serialisation in between
  also : Bool := false  -- network client that sent `enableBLOB Also` on its control connection as well
  mirror : Mirror
deriving Repr

structure World where
  devs : List Device
  peers : List Peer
deriving Repr

/-- what the other side reads: `from_xml (to_xml m)`; a message its parser rejects is skipped -/
def wire (reg : Registry) (m : Msg) : Option Msg :=
  match fromXml reg (toXml m) with
  | .ok m' => some m'
  | .error _ => none

def isSetBlob (m : Msg) : Bool := m.tag = s "setBLOBVector"

/-- one message of a device arrives at one peer -/
def recv (reg : Registry) (p : Peer) (m : Msg) : Peer :=
  if isSetBlob m && !p.blobs then p else
  match (if p.inproc then some m else wire reg m) with
  | none => p
  | some m' => { p with mirror := (processMessage p.mirror m').mirror }

/-- `Device.accepts` -/
def accepts (d : Device) (m : Msg) : Bool :=
  match attr m.fields "device" with
  | none => true
  | some n => n == d.name

/-- a client's message reaches every driver that accepts it; what the drivers publish in response -/
def toDevices : List Device → Msg → List Device × List Msg
  | [], _ => ([], [])
  | d :: ds, m =>
    let (ds', out) := toDevices ds m
    if accepts d m then
      let r := fromClient d m
      (r.dev :: ds', r.msgs ++ out)
    else (d :: ds', out)

/-- `Element.to_new_message()` -/
def newPart (k : VKind) (name : Option Str) (v : CVal) : Option Part :=
  match k, v with
  | .text, .text t => some { tag := s "oneText", fields := [(s "name", name), (s "value", some t)] }
  | .number, .text t => some { tag := s "oneNumber", fields := [(s "name", name), (s "value", some t)] }
  | .switch, .text t => some { tag := s "oneSwitch", fields := [(s "name", name), (s "value", some t)] }
  | .blob, .blob bs f =>
    some { tag := s "oneBLOB", fields := [(s "name", name), (s "value", some (B64.encode bs)),
                                          (s "size", some (natStr bs.length)), (s "format", f)] }
  | _, _ => none

def newTagOf : VKind → Option Str
  | .text => some (s "newTextVector")
  | .number => some (s "newNumberVector")
  | .switch => some (s "newSwitchVector")
  | .blob => some (s "newBLOBVector")
  | .light => none

/-- the last value assigned to an element before `submit()` -/
def pendingOf (writes : List (Str × CVal)) (name : Option Str) : Option CVal :=
  match name with
  | none => none
  | some n => (writes.reverse.find? fun w => w.1 == n).map (·.2)

/-- the part's constructor accepts the values (`checks.*` in `__init__`): otherwise `submit()` raises and nothing is sent -/
def partAccepted (reg : Registry) (p : Part) : Bool :=
  match findClass p.tag reg.parts with
  | none => false
  | some c => c.supported && c.fields.all fun f =>
      match checkGuard f.guard (match (alookup f.name p.fields).getD none with | none => PyVal.none | some v => PyVal.str v) with
      | .ok _ => true
      | .error _ => false

/-- `Vector.submit()`: one child per element with a pending value, in the mirror's element order -/
def submitMsg (reg : Registry) (σ : Mirror) (dev prop : Str) (writes : List (Str × CVal)) : Option Msg :=
  match olook (some dev) σ with
  | none => none
  | some d =>
    match olook (some prop) d.vecs with
    | none => none
    | some v =>
      if !(writes.all fun w => (olook (some w.1) v.elems).isSome) then none else
      match newTagOf v.kind with
      | none => none
      | some tag =>
        let parts := v.elems.filterMap fun ne =>
          match pendingOf writes ne.1 with
          | some val => newPart v.kind ne.2.name val
          | none => none
        if !(parts.all (partAccepted reg)) then none else
        some { tag := tag,
               fields := [(s "device", some dev), (s "name", v.name), (s "timestamp", some stamp)],
               children := some parts }

/-- `BaseClient.handshake(device, name)` -/
def getProperties (dev name : Option Str) : Msg :=
  { tag := s "getProperties", fields := [(s "version", some (s "1.7")), (s "device", dev), (s "name", name)], children := none }

inductive Op where
  | driver (di : Nat) (op : Dev.Op)                              -- something happens inside driver `di`
  | write (ci : Nat) (dev prop : Str) (writes : List (Str × CVal))   -- peer `ci` assigns values and submits
  | handshake (ci : Nat) (dev name : Option Str)                  -- peer `ci` sends getProperties (for everything, a device, a property)
deriving Repr

/-- a message of a peer enters the router: the drivers' states afterwards and what they publish -/
def fromPeer (reg : Registry) (devs : List Device) (p : Peer) (m : Msg) : List Device × List Msg :=
  match (if p.inproc then some m else wire reg m) with
  | none => (devs, [])
  | some m' => toDevices devs m'

/-- the driver side of an operation (deterministic): the drivers afterwards, and the batch of messages published -/
def react (reg : Registry) (w : World) : Op → List Device × List Msg
  | .driver di op =>
    match w.devs[di]? with
    | none => (w.devs, [])
    | some d => let r := Dev.step d op; (w.devs.set di r.dev, r.msgs)
  | .write ci dev prop writes =>
    match w.peers[ci]? with
    | none => (w.devs, [])
    | some p =>
      match submitMsg reg p.mirror dev prop writes with
      | none => (w.devs, [])
      | some m => fromPeer reg w.devs p m
  | .handshake ci dev name =>
    match w.peers[ci]? with
    | none => (w.devs, [])
    | some p => fromPeer reg w.devs p (getProperties dev name)

/-- all interleavings of two sequences that keep each one's order -/
def merges {α : Type} : List α → List α → List (List α)
  | [], bs => [bs]
  | a :: as, [] => [a :: as]
  | a :: as, b :: bs => (merges as (b :: bs)).map (a :: ·) ++ (merges (a :: as) bs).map (b :: ·)
termination_by as bs => as.length + bs.length

/-- the orders in which a batch can reach one peer: an in-process client gets the messages as they are
published; a network client reads BLOB updates from its BLOB connection and everything else from its control
connection - each in order, the two interleaved in any way -/
def arrivals (p : Peer) (ms : List Msg) : List (List Msg) :=
  if p.inproc then [ms]
  else if p.also then merges ms (ms.filter isSetBlob)          -- BLOB updates on both connections
  else merges (ms.filter fun m => !isSetBlob m) (ms.filter isSetBlob)

def deliver (reg : Registry) (p : Peer) (ms : List Msg) : Peer := ms.foldl (recv reg) p

/-- every state one peer can be in once the batch is delivered -/
def outcomes (reg : Registry) (p : Peer) (ms : List Msg) : List Peer := (arrivals p ms).map (deliver reg p)

/-- in-order arrival at every peer (one of the schedules; the only one for batches without BLOB updates) -/
def step (reg : Registry) (w : World) (op : Op) : World :=
  let (ds, ms) := react reg w op
  { devs := ds, peers := w.peers.map fun p => deliver reg p ms }

def samePeer (a b : Peer) : Bool := a.blobs == b.blobs && a.inproc == b.inproc && a.also == b.also && a.mirror == b.mirror

def sameDevs (a b : List Device) : Bool := a == b

/-- `w'` is a state the deployment can be in after `op` in `w` and quiescence (decidable) -/
def nextOk (reg : Registry) (w : World) (op : Op) (w' : World) : Bool :=
  let (ds, ms) := react reg w op
  sameDevs ds w'.devs && w.peers.length == w'.peers.length &&
  (w.peers.zip w'.peers).all fun (p, p') => (outcomes reg p ms).any (samePeer p')

def run (reg : Registry) (w : World) (ops : List Op) : World := ops.foldl (step reg) w

/-- the deployment once every peer has connected and performed its handshake -/
def start (reg : Registry) (devs : List Device) (kinds : List (Bool × Bool × Bool)) : World :=
  let w0 : World := { devs := devs, peers := kinds.map fun k => { blobs := k.1, inproc := k.2.1, also := k.2.2, mirror := [] } }
  (List.range kinds.length).foldl (fun w ci => step reg w (.handshake ci none none)) w0

end Indi.Sys
