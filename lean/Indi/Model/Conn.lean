/-
  L2h `Conn` — the server side of a client connection (transport/server/tcp.py, server/tty.py):
  the control flow of `ConnectionHandler.handler.handler_func` / `handle` around `wait_for_messages`.

      conn = cls(reader, writer, router)          -- registers with the router
      try:    while True: chunk = await read(); if not chunk: break
                          buffer.append(chunk); buffer.process(message_from_client)   -- router.process_message(m, sender=conn)
      except: log
      conn.close()                                 -- writer.close(); router.unregister_client(conn)

  A server is the router state plus, per connection, its receive buffer and whether it is still served.
  Events are what the environment can do: a peer connects; bytes arrive on a connection; a read returns end-of-file;
  a read raises; a device publishes; a device raises while one of the connection's messages is being handled.
  Bytes are framed by the buffer model (Model/Buf.lean) with the character-level parser (Model/Xml.lean) and routed
  by the router model (Model/Rtr.lean) — so an event sequence runs the whole receive path of the model.
-/
import Indi.Model.Buf
import Indi.Model.Xml
import Indi.Model.RtrGlue
import Indi.Generated.Registry

namespace Indi.Conn
open Indi

structure Conn where
  id : Nat
  tcp : Bool := true              -- a TCP connection has a writer to close; the TTY handler has none
  serving : Bool := true          -- the handler coroutine is still in its receive loop
  writerClosed : Bool := false
  data : Str := []                -- Buffer.data
deriving DecidableEq, Repr

structure Server where
  router : Rtr.State := Rtr.init
  conns : List Conn := []
deriving DecidableEq, Repr

inductive Event where
  | device (d : Rtr.Dev)                                   -- a driver registers
  | connect (i : Nat) (tcp : Bool)
  | recv (i : Nat) (chunk : Str) (raiseAt : Option Nat)     -- bytes arrive; a device raises while the raiseAt-th delivered message is handled
  | eof (i : Nat)
  | readError (i : Nat)
  | publish (m : Rtr.RMsg) (sender : Rtr.Sender)            -- device traffic
deriving Repr

/-- what one event makes observable: the router operations performed, in order, with their deliveries -/
structure Out where
  ops : List Rtr.Op := []
  deliveries : List (List Rtr.Target) := []
deriving Repr

def parseMsg (x : Str) : Buf.ParseRes Msg :=
  match Xml.parseDoc x with
  | .ok e =>
    match fromXml Generated.registry e with
    | .ok m => .msg m
    | .error _ => .invalid
  | _ => .notXml

def tags : List Str := Generated.registry.messages.map (·.tag)

def policyOfStr (v : Option Str) : Rtr.Policy :=
  if v = some (s "Also") then .also else if v = some (s "Only") then .only else .never

/-- how the router sees a parsed message -/
def rmsgOfMsg (m : Msg) : Option Rtr.RMsg :=
  let device := match alookup (s "device") m.fields with
    | some v => v
    | none => none
  Rtr.rmsgOf Generated.registry m.tag device (policyOfStr (valueOf m.fields))

/-- `conn.close()` and the end of the handler -/
def closeConn (sv : Server) (i : Nat) : Server × Out :=
  let (r, ds) := Rtr.step sv.router (.unreg i)
  ({ router := r, conns := sv.conns.map fun c => if c.id = i then { c with serving := false, writerClosed := c.tcp } else c },
   { ops := [.unreg i], deliveries := [ds] })

def untilFirstDev : List Rtr.Target → List Rtr.Target
  | [] => []
  | .dev d :: _ => [.dev d]
  | t :: rest => t :: untilFirstDev rest

/-- the messages of one `buffer.process(callback)` handed to the router one after the other; when a device raises while
the k-th one is handled the exception leaves `process_message`, `Buffer.process` and the receive loop -/
def routeAll (i : Nat) : Rtr.State → List Msg → Nat → Option Nat → Rtr.State × Out × Bool
  | r, [], _, _ => (r, {}, false)
  | r, m :: rest, k, raiseAt =>
    match rmsgOfMsg m with
    | none => routeAll i r rest (k + 1) raiseAt
    | some rm =>
      let (r', ds) := Rtr.step r (.send rm (.cli i))
      if raiseAt = some k then
        -- the first device reached raises: whoever comes after it in the fan-out is not served
        (r', { ops := [.send rm (.cli i)], deliveries := [untilFirstDev ds] }, true)
      else
        let (r'', out, raised) := routeAll i r' rest (k + 1) raiseAt
        (r'', { ops := .send rm (.cli i) :: out.ops, deliveries := ds :: out.deliveries }, raised)

def step (sv : Server) : Event → Server × Out
  | .device d =>
    let (r, ds) := Rtr.step sv.router (.regDev d)
    ({ sv with router := r }, { ops := [.regDev d], deliveries := [ds] })
  | .connect i tcp =>
    let (r, ds) := Rtr.step sv.router (.regCli i)
    ({ router := r, conns := sv.conns ++ [{ id := i, tcp := tcp }] }, { ops := [.regCli i], deliveries := [ds] })
  | .recv i chunk raiseAt =>
    match sv.conns.find? fun c => c.id = i with
    | none => (sv, {})
    | some c =>
      if !c.serving then (sv, {}) else
      let (msgs, rest) := Buf.feed parseMsg tags Generated.defaultThreshold c.data chunk
      let (r, out, raised) := routeAll i sv.router msgs 0 raiseAt
      let sv' : Server := { router := r, conns := sv.conns.map fun c' => if c'.id = i then { c' with data := rest } else c' }
      if raised then
        let (sv'', out') := closeConn sv' i
        (sv'', { ops := out.ops ++ out'.ops, deliveries := out.deliveries ++ out'.deliveries })
      else (sv', out)
  | .eof i =>
    match sv.conns.find? fun c => c.id = i with
    | some c => if c.serving then closeConn sv i else (sv, {})
    | none => (sv, {})
  | .readError i =>
    match sv.conns.find? fun c => c.id = i with
    | some c => if c.serving then closeConn sv i else (sv, {})
    | none => (sv, {})
  | .publish m sender =>
    let (r, ds) := Rtr.step sv.router (.send m sender)
    ({ sv with router := r }, { ops := [.send m sender], deliveries := [ds] })

def run : Server → List Event → Server × List Out
  | sv, [] => (sv, [])
  | sv, e :: es =>
    let (sv', o) := step sv e
    let (sv'', os) := run sv' es
    (sv'', o :: os)

/-- the router history a session amounts to -/
def history (outs : List Out) : List Rtr.Op := outs.flatMap (·.ops)

end Indi.Conn
