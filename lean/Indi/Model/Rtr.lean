/-
  L2b `Rtr` — model of indi/routing/router.py.

  Endpoints are numbered; a device is either a named driver (`accepts` = no
  device named or the names agree) or a catch-all (the `Proxy` driver).  The
  state mirrors the router's three attributes: `devices`, `clients` (lists, in
  registration order, duplicates possible if the API is misused) and
  `blob_routing` (insertion-ordered dict of dicts).
-/
import Indi.Model.Basic

namespace Indi.Rtr

inductive Policy where
  | never | also | only
deriving DecidableEq, Repr

structure Dev where
  id : Nat
  name : Option Str        -- `none`: accepts every device name
deriving DecidableEq, Repr

inductive Sender where
  | nobody                 -- `sender=None`
  | cli (id : Nat)
  | dev (id : Nat)
deriving DecidableEq, Repr

/-- what the router looks at in a message -/
structure RMsg where
  fromClient : Bool
  fromDevice : Bool
  isEnableBlob : Bool      -- isinstance(message, EnableBLOB)
  isBlob : Bool            -- isinstance(message, SetBLOBVector)
  device : Option Str
  value : Policy           -- meaningful for enableBLOB only
deriving DecidableEq, Repr

structure State where
  devices : List Dev
  clients : List Nat
  blob : List (Nat × List (Option Str × Policy))
deriving DecidableEq, Repr

def init : State := { devices := [], clients := [], blob := [] }

inductive Op where
  | regDev (d : Dev)
  | regCli (c : Nat)
  | unreg (c : Nat)
  | send (m : RMsg) (sender : Sender)
deriving DecidableEq, Repr

inductive Target where
  | dev (id : Nat)
  | cli (id : Nat)
deriving DecidableEq, Repr

/-! dict helpers keyed by `Nat` / `Option Str` -/

def nlookup {α : Type} (k : Nat) : List (Nat × α) → Option α
  | [] => none
  | (k', v) :: rest => if k' = k then some v else nlookup k rest

def nset {α : Type} (k : Nat) (v : α) : List (Nat × α) → List (Nat × α)
  | [] => [(k, v)]
  | (k', v') :: rest => if k' = k then (k', v) :: rest else (k', v') :: nset k v rest

def ndel {α : Type} (k : Nat) : List (Nat × α) → List (Nat × α)
  | [] => []
  | (k', v') :: rest => if k' = k then rest else (k', v') :: ndel k rest

def olookup {α : Type} (k : Option Str) : List (Option Str × α) → Option α
  | [] => none
  | (k', v) :: rest => if k' = k then some v else olookup k rest

def oset {α : Type} (k : Option Str) (v : α) : List (Option Str × α) → List (Option Str × α)
  | [] => [(k, v)]
  | (k', v') :: rest => if k' = k then (k', v) :: rest else (k', v') :: oset k v rest

/-- `list.remove(x)`: first occurrence -/
def removeFirst (c : Nat) : List Nat → List Nat
  | [] => []
  | x :: xs => if x = c then xs else x :: removeFirst c xs

/-- `Driver.accepts` / catch-all -/
def accepts (d : Dev) (device : Option Str) : Bool :=
  match d.name, device with
  | none, _ => true
  | some _, none => true
  | some n, some x => n = x

def defaultPolicy : Policy := .never

/-- `self.blob_routing.get(client, {}).get(device_name, DEFAULT_BLOB_POLICY)` -/
def policyLookup (σ : State) (c : Nat) (device : Option Str) : Policy :=
  match nlookup c σ.blob with
  | none => defaultPolicy
  | some d => (olookup device d).getD defaultPolicy

/-- the delivery condition of `process_message` -/
def deliverCond (isBlob : Bool) (p : Policy) : Bool :=
  (isBlob && (p = .also || p = .only)) || (!isBlob && p ≠ .only)

def processEnableBlob (σ : State) (m : RMsg) (sender : Sender) : State :=
  match sender with
  | .cli c =>
    match nlookup c σ.blob with
    | some d => { σ with blob := nset c (oset m.device m.value d) σ.blob }
    | none => σ
  | _ => σ

/-- one `process_message` call with non-reentrant endpoints: new state and the
ordered deliveries -/
def process (σ : State) (m : RMsg) (sender : Sender) : State × List Target :=
  let σ1 := if m.fromClient && m.isEnableBlob then processEnableBlob σ m sender else σ
  let devs := if m.fromClient then
      (σ1.devices.filter fun d => Sender.dev d.id ≠ sender && accepts d m.device).map fun d => Target.dev d.id
    else []
  let clis := if m.fromDevice then
      (σ1.clients.filter fun c => Sender.cli c ≠ sender && deliverCond m.isBlob (policyLookup σ1 c m.device)).map Target.cli
    else []
  (σ1, devs ++ clis)

def step (σ : State) : Op → State × List Target
  | .regDev d => ({ σ with devices := σ.devices ++ [d] }, [])
  | .regCli c => ({ σ with clients := σ.clients ++ [c], blob := nset c [] σ.blob }, [])
  | .unreg c => ({ σ with clients := removeFirst c σ.clients, blob := ndel c σ.blob }, [])
  | .send m s => process σ m s

def run (h : List Op) : State := h.foldl (fun σ op => (step σ op).1) init

/-- run a history, collecting the deliveries of every operation -/
def trace : State → List Op → List (List Target)
  | _, [] => []
  | σ, op :: rest => let (σ', ds) := step σ op; ds :: trace σ' rest

end Indi.Rtr
