/-
  L2f `Cli` — model of the client mirror (indi/client/{client,device,vectors,elements,events}.py):
  `BaseClient.process_message`, event emission, the callback registry with its
  filters (`onevent`, `rmonevent`, `trigger_event`).

  The mirror is a dict of devices → dict of vectors → dict of elements
  (insertion-ordered association lists).  Processing one message yields the new
  mirror, the events raised (in order), the messages the client sends (BLOB
  handshake for a new device) and possibly the exception that escapes.
-/
import Indi.Model.Msg
import Indi.Model.B64
import Indi.Model.Dev

namespace Indi.Cli
open Indi

inductive VKind where
  | number | switch | text | blob | light
deriving DecidableEq, Repr

/-- what a client-side element holds: the text of the message, or a decoded BLOB -/
inductive CVal where
  | none
  | text (v : Str)
  | blob (bytes : List Nat) (format : Option Str)
deriving DecidableEq, Repr

structure CElem where
  name : Option Str
  label : Option Str
  value : CVal
deriving DecidableEq, Repr

structure CVec where
  kind : VKind
  name : Option Str
  group : Option Str
  label : Option Str
  timestamp : Option Str
  message : Option Str
  state : Option Str
  elems : List (Option Str × CElem)        -- dict keyed by element name
deriving DecidableEq, Repr

structure CDev where
  vecs : List (Option Str × CVec)           -- dict keyed by property name
deriving DecidableEq, Repr

abbrev Mirror := List (Option Str × CDev)   -- dict keyed by device name

inductive Event where
  | value (dev vec elem : Option Str) (old new : CVal)
  | state (dev vec : Option Str) (old new : Option Str)
  | definition (dev vec : Option Str)
deriving DecidableEq, Repr

inductive Exc where
  | typeError | valueError | assertionError | keyError
deriving DecidableEq, Repr

structure Result where
  mirror : Mirror
  events : List Event := []
  sent : List (Option Str) := []      -- devices for which the BLOB handshake was sent
  exc : Option Exc := none
deriving Repr

/-! dict helpers with `Option Str` keys (a message attribute may be `None`) -/

def olook {α : Type} (k : Option Str) : List (Option Str × α) → Option α
  | [] => none
  | (k', v) :: rest => if k' = k then some v else olook k rest

def oput {α : Type} (k : Option Str) (v : α) : List (Option Str × α) → List (Option Str × α)
  | [] => [(k, v)]
  | (k', v') :: rest => if k' = k then (k', v) :: rest else (k', v') :: oput k v rest

def odel {α : Type} (k : Option Str) : List (Option Str × α) → List (Option Str × α)
  | [] => []
  | (k', v') :: rest => if k' = k then rest else (k', v') :: odel k rest

/-! message access -/

def attr (fs : List (Str × Option Str)) (k : String) : Option Str := (alookup (s k) fs).getD none

def defKind (tag : Str) : Option VKind :=
  if tag = s "defNumberVector" then some .number
  else if tag = s "defSwitchVector" then some .switch
  else if tag = s "defTextVector" then some .text
  else if tag = s "defBLOBVector" then some .blob
  else if tag = s "defLightVector" then some .light
  else none

def setKind (tag : Str) : Option VKind :=
  if tag = s "setNumberVector" then some .number
  else if tag = s "setSwitchVector" then some .switch
  else if tag = s "setTextVector" then some .text
  else if tag = s "setBLOBVector" then some .blob
  else if tag = s "setLightVector" then some .light
  else none

def textVal (fs : List (Str × Option Str)) : CVal :=
  match attr fs "value" with
  | some t => .text t
  | none => .none

/-- Python `a != b` on client values (BLOBs compare by content) -/
def cvNe (a b : CVal) : Bool := a != b

/-- `BLOB.set_value_from_message`: decode, check the declared size -/
def blobFromPart (p : Part) : Except Exc CVal :=
  let text := (attr p.fields "value").getD []
  if !Dev.isAscii text then .error .valueError else
  match B64.decode text with
  | .error _ => .error .valueError
  | .ok bytes =>
    match attr p.fields "size" with
    | none => .error .typeError
    | some sz =>
      match Dev.pyInt sz with
      | none => .error .valueError
      | some n => if n = bytes.length then .ok (.blob bytes (attr p.fields "format")) else .error .assertionError

/-- elements of a definition: one ValueUpdate(None → value) per child, the dict keeps the last of a name -/
def defElems (dev vec : Option Str) : List Part → List (Option Str × CElem) × List Event
  | [] => ([], [])
  | p :: ps =>
    let name := attr p.fields "name"
    let v := textVal p.fields
    let e : CElem := { name := name, label := attr p.fields "label", value := v }
    let (rest, evs) := defElems dev vec ps
    -- `{ch.name: ch for ch in children}`: first occurrence fixes the position, last one the value
    let dict := match olook name rest with
      | some _ => (name, (olook name rest).getD e) :: odel name rest
      | none => (name, e) :: rest
    (dict, Event.value dev vec name .none v :: evs)

/-- children of an update, one after the other; a child whose value cannot be taken (ill-formed BLOB)
raises: what was applied and announced before it stays, nothing after it is looked at -/
def applySet (kind : VKind) (dev vec : Option Str) :
    List (Option Str × CElem) → List Part → List (Option Str × CElem) × List Event × Option Exc
  | elems, [] => (elems, [], none)
  | elems, p :: ps =>
    let name := attr p.fields "name"
    match olook name elems with
    | none => applySet kind dev vec elems ps
    | some e =>
      let newVal : Except Exc CVal := match kind with
        | .blob => blobFromPart p
        | _ => .ok (textVal p.fields)
      match newVal with
      | .error x => (elems, [], some x)
      | .ok nv =>
        let elems' := oput name { e with value := nv } elems
        let r := applySet kind dev vec elems' ps
        (r.1, (if cvNe nv e.value then Event.value dev vec name e.value nv :: r.2.1 else r.2.1), r.2.2)

/-- `BaseClient.process_message` -/
def processMessage (σ : Mirror) (m : Msg) : Result :=
  let dev := attr m.fields "device"
  let name := attr m.fields "name"
  match defKind m.tag with
  | some kind =>
    let (isNew, devObj) := match olook dev σ with
      | some d => (false, d)
      | none => (true, { vecs := [] })
    let (elems, evs) := defElems dev name (m.children.getD [])
    let vec : CVec := { kind := kind, name := name, group := attr m.fields "group", label := attr m.fields "label",
                        timestamp := attr m.fields "timestamp", message := attr m.fields "message",
                        state := attr m.fields "state", elems := elems }
    let devObj' : CDev := { vecs := oput name vec devObj.vecs }
    { mirror := oput dev devObj' σ,
      events := evs ++ [Event.state dev name none vec.state, Event.definition dev name],
      sent := if isNew then [dev] else [] }
  | none =>
    match setKind m.tag with
    | some kind =>
      match olook dev σ with
      | none => { mirror := σ }
      | some d =>
        match olook name d.vecs with
        | none => { mirror := σ }
        | some v =>
          if v.kind != kind then { mirror := σ } else
          let newState := attr m.fields "state"
          let stEv := if newState != v.state then [Event.state dev name v.state newState] else []
          let r := applySet kind dev name v.elems (m.children.getD [])
          { mirror := oput dev { vecs := oput name { v with state := newState, elems := r.1 } d.vecs } σ,
            events := stEv ++ r.2.1, exc := r.2.2 }
    | none =>
      if m.tag = s "delProperty" then
        match olook dev σ with
        | none => { mirror := σ }
        | some d =>
          match name with
          | none => { mirror := odel dev σ }
          | some _ => { mirror := oput dev { vecs := odel name d.vecs } σ }
      else { mirror := σ }

/-! ### callbacks -/

inductive EvType where
  | base | value | state | definition
deriving DecidableEq, Repr

structure Callback where
  id : Nat                      -- uuid
  device : Option Str
  vector : Option Str
  element : Option Str
  evType : EvType
  fn : Nat                      -- identity of the callable
  async : Bool
  raises : Bool
deriving DecidableEq, Repr

def evDev : Event → Option Str
  | .value d _ _ _ _ => d | .state d _ _ _ => d | .definition d _ => d
def evVec : Event → Option Str
  | .value _ v _ _ _ => v | .state _ v _ _ => v | .definition _ v => v
def evElem : Event → Option Str
  | .value _ _ e _ _ => e | _ => none
def evIs (t : EvType) : Event → Bool
  | .value .. => t = .base || t = .value
  | .state .. => t = .base || t = .state
  | .definition .. => t = .base || t = .definition

/-- `_CallbackConfig.accepts_event`: `self.x in (None, event.x.name)` -/
def accepts (cb : Callback) (ev : Event) : Bool :=
  (cb.device = none || cb.device = evDev ev) &&
  (cb.vector = none || cb.vector = evVec ev) &&
  (cb.element = none || cb.element = evElem ev) &&
  evIs cb.evType ev

/-- `trigger_event`: every accepting callback, in registration order; a raising plain callback is logged and the loop goes on -/
def trigger (cbs : List Callback) (ev : Event) : List (Nat × Event) :=
  (cbs.filter fun cb => accepts cb ev).map fun cb => (cb.id, ev)

structure RmCriteria where
  id : Option Nat := none
  device : Option Str := none
  vector : Option Str := none
  element : Option Str := none
  evType : Option EvType := none
  fn : Option Nat := none
deriving DecidableEq, Repr

/-- `rmonevent`: every criterion is `x in (None, cb.x)` -/
def rmMatches (c : RmCriteria) (cb : Callback) : Bool :=
  (c.id = none || c.id = some cb.id) &&
  (c.device = none || c.device = cb.device) &&
  (c.vector = none || c.vector = cb.vector) &&
  (c.element = none || c.element = cb.element) &&
  (c.evType = none || c.evType = some cb.evType) &&
  (c.fn = none || c.fn = some cb.fn)

def rmonevent (cbs : List Callback) (c : RmCriteria) : List Callback := cbs.filter fun cb => !rmMatches c cb

inductive Op where
  | msg (m : Msg)
  | on (cb : Callback)
  | rm (c : RmCriteria)
deriving Repr

structure State where
  mirror : Mirror := []
  cbs : List Callback := []
deriving Repr

structure StepOut where
  state : State
  events : List Event := []
  calls : List (Nat × Event) := []     -- (callback id, event) in invocation order
  sent : List (Option Str) := []
  exc : Option Exc := none
deriving Repr

def step (σ : State) : Op → StepOut
  | .msg m =>
    let r := processMessage σ.mirror m
    { state := { σ with mirror := r.mirror }, events := r.events,
      calls := (r.events.map (trigger σ.cbs)).flatten, sent := r.sent, exc := r.exc }
  | .on cb => { state := { σ with cbs := σ.cbs ++ [cb] } }
  | .rm c => { state := { σ with cbs := rmonevent σ.cbs c } }

end Indi.Cli
