/-
  L1 `Msg` — the message layer of indipy (indi/message/*.py), table-driven.

  A Python message object is represented by its *wire view*:
  the class (tag), every attribute of `__dict__` in insertion order rendered by
  `str` (or `none` for `None`), and — for classes that have a `children`
  attribute — the complete ordered list of child parts, each with its own tag
  and attributes.  That is exactly what `to_xml`, `to_dict`, `__eq__` and a
  peer look at.

  `construct` mirrors `message_class(**kwargs)`; it is driven by a `Registry`
  (class table) which `tools/extract.py` regenerates from the repository on
  every run (`Indi.Generated.registry`).
-/
import Indi.Model.Basic
import Indi.Generated.Consts

namespace Indi

/-- what a constructor keyword has to pass before it is stored -/
inductive Guard where
  | any
  | oneOf (vals : List (Option Str))     -- `checks.dictionary`: membership; `none` = Python `None`
  | number                               -- `checks.number`
  | children (tags : List Str)           -- `checks.children`: every child is of one of these part classes
deriving DecidableEq, Repr

structure FieldSpec where
  name : Str                 -- attribute name in `__dict__`
  source : Option Str        -- constructor keyword stored there (`none`: always `None`)
  guard : Guard
deriving DecidableEq, Repr

structure ClassSpec where
  tag : Str
  supported : Bool           -- false: the prober could not classify the constructor
  fromClient : Bool
  fromDevice : Bool
  required : List Str        -- keywords whose omission is a `TypeError`
  fields : List FieldSpec    -- `__dict__` order
deriving DecidableEq, Repr

structure Registry where
  messages : List ClassSpec
  parts : List ClassSpec

/-- wire view of an `IndiMessagePart` -/
structure Part where
  tag : Str
  fields : List (Str × Option Str)
deriving DecidableEq, Repr

/-- wire view of an `IndiMessage` -/
structure Msg where
  tag : Str
  fields : List (Str × Option Str)       -- every attribute except `children`
  children : Option (List Part)          -- `none`: the class has no `children` attribute
deriving DecidableEq, Repr

/-- a Python value as it can reach a constructor from `from_xml` -/
inductive PyVal where
  | none
  | str (v : Str)
  | parts (ps : List Part)
deriving DecidableEq, Repr

inductive Err where
  | parseError      -- xml.etree.ElementTree.ParseError
  | invalidTag      -- Exception("Invalid message/part")
  | typeError
  | valueError
  | unsupported     -- the model declines (class not classified / input outside the modelled fragment)
deriving DecidableEq, Repr

/-! ### Python string helpers -/

def pyIsSpace (c : Char) : Bool := Generated.pySpaces.contains c.toNat

def dropSpaces : Str → Str
  | [] => []
  | c :: cs => if pyIsSpace c then dropSpaces cs else c :: cs

/-- `str.strip()` -/
def pyStrip (x : Str) : Str := (dropSpaces (dropSpaces x).reverse).reverse

/-- `\d` of Python's `re` on `str` patterns: any Unicode decimal digit -/
def pyIsDigit (c : Char) : Bool :=
  Generated.ndZeros.any fun z => z ≤ c.toNat && c.toNat < z + 10

/-! ### `checks.number`

  eight anchored alternatives; `$` also matches before one trailing newline.
  Written as a small hand recogniser, pinned to the regex literals through
  `Generated.numberRegexps` (see `Properties/C13.lean`). -/

def spanDigits : Str → Str × Str
  | [] => ([], [])
  | c :: cs => if pyIsDigit c then let (d, r) := spanDigits cs; (c :: d, r) else ([], c :: cs)

def isSexaSep (c : Char) : Bool := c = ':' || c = ';' || c = ' '

/-- exactly two digits then `rest` -/
def twoDigits : Str → Option Str
  | a :: b :: rest => if pyIsDigit a && pyIsDigit b then some rest else none
  | _ => none

/-- optional `.d+` then end -/
def optFracEnd : Str → Bool
  | [] => true
  | '.' :: rest => let (d, r) := spanDigits rest; !d.isEmpty && r.isEmpty
  | _ => false

def numberCore (x : Str) : Bool :=
  let body := match x with
    | '-' :: r => r
    | '+' :: r => r
    | r => r
  let (d, r) := spanDigits body
  if d.isEmpty then
    -- `[-+]?\.\d+`
    match r with
    | '.' :: r' => let (d', r'') := spanDigits r'; !d'.isEmpty && r''.isEmpty
    | _ => false
  else
    match r with
    | [] => true                                       -- int
    | '.' :: r' => let (_, r'') := spanDigits r'; r''.isEmpty      -- `d+.d+` and `d+.`
    | c :: r' =>
      if isSexaSep c then
        match twoDigits r' with
        | none => false
        | some r2 =>
          match r2 with
          | [] => true                                 -- :mm
          | '.' :: _ => optFracEnd r2                 -- :mm.m
          | c2 :: r3 =>
            if isSexaSep c2 then
              match twoDigits r3 with
              | none => false
              | some r4 => optFracEnd r4              -- :mm:ss and :mm:ss.s
            else false
      else false

def dropLastNewline (x : Str) : Str :=
  match x.reverse with
  | '\n' :: r => r.reverse
  | _ => x

def numberOk (x : Str) : Bool := numberCore x || numberCore (dropLastNewline x)

/-! ### constructors -/

def checkGuard : Guard → PyVal → Except Err PyVal
  | .any, v => .ok v
  | .oneOf vals, .none => if vals.contains none then .ok .none else .error .valueError
  | .oneOf vals, .str v => if vals.contains (some v) then .ok (.str v) else .error .valueError
  | .oneOf _, .parts _ => .error .valueError
  | .number, .none => .ok .none
  | .number, .str v => if numberOk v then .ok (.str v) else .error .valueError
  | .number, .parts _ => .error .valueError
  | .children _, .none => .ok (.parts [])
  | .children _, .str v => if v.isEmpty then .ok (.parts []) else .error .valueError
  | .children tags, .parts ps =>
      if ps.all (fun p => tags.contains p.tag) then .ok (.parts ps) else .error .valueError

def kwGet (kw : List (Str × PyVal)) (k : Option Str) : PyVal :=
  match k with
  | none => .none
  | some k => (alookup k kw).getD .none

/-- evaluate the guards of all fields in order; first failure wins -/
def buildFields (kw : List (Str × PyVal)) : List FieldSpec → Except Err (List (Str × PyVal))
  | [] => .ok []
  | f :: fs =>
    match checkGuard f.guard (kwGet kw f.source) with
    | .error e => .error e
    | .ok v =>
      match buildFields kw fs with
      | .error e => .error e
      | .ok rest => .ok ((f.name, v) :: rest)

def scalarView : List (Str × PyVal) → Except Err (List (Str × Option Str))
  | [] => .ok []
  | (k, v) :: rest =>
    if k = s "children" then scalarView rest
    else match v, scalarView rest with
      | _, .error e => .error e
      | .none, .ok r => .ok ((k, none) :: r)
      | .str x, .ok r => .ok ((k, some x) :: r)
      | .parts _, .ok _ => .error .unsupported

def childrenView (fs : List (Str × PyVal)) : Except Err (Option (List Part)) :=
  match alookup (s "children") fs with
  | none => .ok none
  | some (.parts ps) => .ok (some ps)
  | some _ => .error .unsupported

/-- `cls(**kw)`; `TypeError`s (binding) precede every guard -/
def construct (c : ClassSpec) (kw : List (Str × PyVal)) : Except Err Msg :=
  if !c.supported then .error .unsupported
  else if ahas (s "self") kw then .error .typeError
  else if !(c.required.all fun r => ahas r kw) then .error .typeError
  else match buildFields kw c.fields with
    | .error e => .error e
    | .ok fs =>
      match scalarView fs, childrenView fs with
      | .error e, _ => .error e
      | _, .error e => .error e
      | .ok sv, .ok ch => .ok { tag := c.tag, fields := sv, children := ch }

def constructPart (c : ClassSpec) (kw : List (Str × PyVal)) : Except Err Part :=
  match construct c kw with
  | .error e => .error e
  | .ok m => if m.children.isSome then .error .unsupported else .ok { tag := m.tag, fields := m.fields }

/-- the loops in `from_xml` keep the *last* class with a matching tag -/
def findClass (tag : Str) (cs : List ClassSpec) : Option ClassSpec :=
  cs.foldl (fun acc c => if c.tag = tag then some c else acc) none

/-! ### `from_xml`

  `from_xml` looks at the element's tag, attributes and text, and at each
  child's tag, attributes and text; deeper levels and tails are ignored. -/

structure Elem1 where
  tag : Str
  attrs : List (Str × Str)
  text : Str                      -- `None` and `""` are both falsy for the code: one value
deriving DecidableEq, Repr

structure Elem where
  tag : Str
  attrs : List (Str × Str)
  text : Str
  children : List Elem1
deriving DecidableEq, Repr

def attrKw (attrs : List (Str × Str)) : List (Str × PyVal) := attrs.map fun (k, v) => (k, PyVal.str v)

/-- keywords `IndiMessagePart.from_xml` passes: the attributes, and `value` always -/
def partKw (x : Elem1) : List (Str × PyVal) :=
  aset (s "value") (if x.text.isEmpty then PyVal.none else PyVal.str (pyStrip x.text)) (attrKw x.attrs)

def partFromXml (reg : Registry) (x : Elem1) : Except Err Part :=
  match findClass x.tag reg.parts with
  | none => .error .invalidTag
  | some c => constructPart c (partKw x)

def partsFromXml (reg : Registry) : List Elem1 → Except Err (List Part)
  | [] => .ok []
  | x :: xs =>
    match partFromXml reg x with
    | .error e => .error e
    | .ok p =>
      match partsFromXml reg xs with
      | .error e => .error e
      | .ok ps => .ok (p :: ps)

/-- keywords `IndiMessage.from_xml` passes: the attributes, `children` when there
are child elements, `value` when there is text -/
def msgKw (x : Elem) (ps : List Part) : List (Str × PyVal) :=
  let kw1 := if ps.isEmpty then attrKw x.attrs else aset (s "children") (PyVal.parts ps) (attrKw x.attrs)
  if x.text.isEmpty then kw1 else aset (s "value") (PyVal.str (pyStrip x.text)) kw1

def fromXml (reg : Registry) (x : Elem) : Except Err Msg :=
  match findClass x.tag reg.messages with
  | none => .error .invalidTag
  | some c =>
    match partsFromXml reg x.children with
    | .error e => .error e
    | .ok ps => construct c (msgKw x ps)

/-! ### `to_xml` -/

def insertSorted (kv : Str × Str) : List (Str × Str) → List (Str × Str)
  | [] => [kv]
  | x :: xs => if kv.1 < x.1 then kv :: x :: xs else x :: insertSorted kv xs

/-- `sorted(items)` on unique keys: insertion sort by key (code point order) -/
def sortByKey (l : List (Str × Str)) : List (Str × Str) := l.foldr insertSorted []

def presentAttrs (fields : List (Str × Option Str)) : List (Str × Str) :=
  fields.filterMap fun (k, v) =>
    if k = s "value" || k = s "children" then none else v.map fun x => (k, x)

def valueOf (fields : List (Str × Option Str)) : Option Str :=
  match alookup (s "value") fields with
  | some (some v) => some v
  | _ => none

def partToXml (p : Part) : Elem1 :=
  { tag := p.tag, attrs := presentAttrs p.fields, text := (valueOf p.fields).getD [] }

def toXml (m : Msg) : Elem :=
  { tag := m.tag,
    attrs := sortByKey (presentAttrs m.fields),
    text := (valueOf m.fields).getD [],
    children := (m.children.getD []).map partToXml }

/-! ### `to_dict`, `__eq__` -/

def dictOf (fields : List (Str × Option Str)) : List (Str × Str) :=
  presentAttrs fields ++ (match valueOf fields with | some v => [(s "_value", v)] | none => [])

/-- Python `dict == dict` on association lists with unique keys -/
def dictEq (a b : List (Str × Str)) : Bool :=
  a.length == b.length && a.all fun (k, v) => alookup k b == some v

def partDictEq (a b : Part) : Bool := dictEq (dictOf a.fields) (dictOf b.fields)

/-- `list == list` of the children's dicts (the child's class is not part of its dict) -/
def childDictsEq : List Part → List Part → Bool
  | [], [] => true
  | a :: as, b :: bs => partDictEq a b && childDictsEq as bs
  | _, _ => false

def pyEq (a b : Msg) : Bool :=
  a.tag == b.tag && dictEq (dictOf a.fields) (dictOf b.fields) &&
    match a.children, b.children with
    | none, none => true
    | some x, some y => childDictsEq x y
    | _, _ => false

end Indi
