/-
  Line protocol between the Python harness and the Lean model driver.

  One case per input line, one observation per output line.  Tokens are
  separated by single blanks.  Strings travel as `x` followed by the hexadecimal
  code points joined by `_` (`x` alone is the empty string); `~` is `None`;
  lists are a count followed by the items.  Both sides produce observations
  with the same encoders, so the streams can be compared textually.
-/
import Indi.Model.Msg

namespace Indi.Wire
open Indi

def hexDigit (n : Nat) : Char :=
  if n < 10 then Char.ofNat (48 + n) else Char.ofNat (87 + n)

partial def hexOfNat (n : Nat) : String :=
  if n < 16 then String.singleton (hexDigit n)
  else hexOfNat (n / 16) ++ String.singleton (hexDigit (n % 16))

def encStr (x : Str) : String :=
  "x" ++ String.intercalate "_" (x.map fun c => hexOfNat c.toNat)

def encOpt (x : Option Str) : String :=
  match x with
  | none => "~"
  | some v => encStr v

def encList {α : Type} (f : α → String) (l : List α) : String :=
  String.intercalate " " (toString l.length :: l.map f)

def encFields (fs : List (Str × Option Str)) : String :=
  encList (fun (kv : Str × Option Str) => encStr kv.1 ++ " " ++ encOpt kv.2) fs

def encAttrs (fs : List (Str × Str)) : String :=
  encList (fun (kv : Str × Str) => encStr kv.1 ++ " " ++ encStr kv.2) fs

def encPart (p : Part) : String := "P " ++ encStr p.tag ++ " " ++ encFields p.fields

def encMsg (m : Msg) : String :=
  "M " ++ encStr m.tag ++ " " ++ encFields m.fields ++ " " ++
    (match m.children with
     | none => "~"
     | some ps => encList encPart ps)

def encElem1 (e : Elem1) : String :=
  "e " ++ encStr e.tag ++ " " ++ encAttrs e.attrs ++ " " ++ encStr e.text

def encElem (e : Elem) : String :=
  "E " ++ encStr e.tag ++ " " ++ encAttrs e.attrs ++ " " ++ encStr e.text ++ " " ++ encList encElem1 e.children

def encErr : Err → String
  | .parseError => "ParseError"
  | .invalidTag => "Exception"
  | .typeError => "TypeError"
  | .valueError => "ValueError"
  | .unsupported => "unsupported"

def encBool (b : Bool) : String := if b then "True" else "False"

/-! decoding -/

abbrev P (α : Type) := StateT (List String) Option α

def tok : P String := fun ts =>
  match ts with
  | [] => none
  | t :: rest => some (t, rest)

def fail {α : Type} : P α := fun _ => none

def hexVal (c : Char) : Option Nat :=
  if '0' ≤ c && c ≤ '9' then some (c.toNat - 48)
  else if 'a' ≤ c && c ≤ 'f' then some (c.toNat - 87)
  else none

def parseHex (t : List Char) : Option Nat :=
  if t.isEmpty then none else
  t.foldl (fun acc c => match acc, hexVal c with
    | some a, some v => some (a * 16 + v)
    | _, _ => none) (some 0)

def decStrTok (t : String) : Option Str :=
  match t.toList with
  | 'x' :: rest =>
    if rest.isEmpty then some []
    else
      let parts := (String.ofList rest).splitOn "_"
      parts.foldr (fun p acc => match parseHex p.toList, acc with
        | some n, some l => some (Char.ofNat n :: l)
        | _, _ => none) (some [])
  | _ => none

def pStr : P Str := do
  let t ← tok
  match decStrTok t with
  | some v => pure v
  | none => fail

def pOpt : P (Option Str) := do
  let t ← tok
  if t = "~" then pure none else
  match decStrTok t with
  | some v => pure (some v)
  | none => fail

def pNat : P Nat := do
  let t ← tok
  match t.toNat? with
  | some n => pure n
  | none => fail

def pInt : P Int := do
  let t ← tok
  match t.toInt? with
  | some n => pure n
  | none => fail

def pBool : P Bool := do
  let t ← tok
  if t = "True" then pure true else if t = "False" then pure false else fail

def pRep {α : Type} (p : P α) : Nat → P (List α)
  | 0 => pure []
  | n + 1 => do
    let x ← p
    let xs ← pRep p n
    pure (x :: xs)

def pList {α : Type} (p : P α) : P (List α) := do
  let n ← pNat
  pRep p n

def pLit (l : String) : P Unit := do
  let t ← tok
  if t = l then pure () else fail

def pFields : P (List (Str × Option Str)) := pList do
  let k ← pStr
  let v ← pOpt
  pure (k, v)

def pAttrs : P (List (Str × Str)) := pList do
  let k ← pStr
  let v ← pStr
  pure (k, v)

def pPart : P Part := do
  pLit "P"
  let tag ← pStr
  let fs ← pFields
  pure { tag := tag, fields := fs }

def pMsg : P Msg := do
  pLit "M"
  let tag ← pStr
  let fs ← pFields
  let ts ← get
  match ts with
  | "~" :: rest => do
    set rest
    pure { tag := tag, fields := fs, children := none }
  | _ => do
    let ps ← pList pPart
    pure { tag := tag, fields := fs, children := some ps }

def pElem1 : P Elem1 := do
  pLit "e"
  let tag ← pStr
  let ats ← pAttrs
  let tx ← pStr
  pure { tag := tag, attrs := ats, text := tx }

def pElem : P Elem := do
  pLit "E"
  let tag ← pStr
  let ats ← pAttrs
  let tx ← pStr
  let ch ← pList pElem1
  pure { tag := tag, attrs := ats, text := tx, children := ch }

def tokens (line : String) : List String :=
  (line.splitOn " ").filter fun t => !t.isEmpty

/-- run a parser on the rest of a line; all tokens must be consumed -/
def runP {α : Type} (p : P α) (ts : List String) : Option α :=
  match p ts with
  | some (v, []) => some v
  | _ => none

end Indi.Wire
