/-
  L0 `Xml` — the character level of the wire format.

  * `serElem` models `xml.etree.ElementTree.tostring(elem)` as `IndiMessage.to_string` calls it
    (default `us-ascii` encoding, `short_empty_elements=True`): attribute escaping of
    `& < > " \r \n \t`, text escaping of `& < >`, every non-ASCII character as `&#N;`,
    ` />` for an element without text and children.
  * `parseDoc` models `xml.etree.ElementTree.fromstring(str)` (expat behind ElementTree's
    tree builder) as far as `IndiMessage.from_xml` can see the result: the root's tag,
    attributes (document order) and text before its first child, and of each child the same
    (deeper levels and tails are not looked at by the library).

  The parser is written as what expat is: a character-driven automaton with a stack
  (`step : St → Char → St`, `run = foldl step`).  `ET.fromstring` is `feed` + `close`:
  `parseDoc s = finish (run init s)`.  Errors are absorbing (`Mode.err`); inputs outside the
  modelled fragment are answered `Mode.uns` ("unsupported": DOCTYPE, names that contain `:`
  or non-ASCII characters, an `encoding=` or otherwise unusual XML declaration, a leading
  BOM) — the correspondence counts them separately and the theorems never claim them.

  Modelled: XML declaration at offset 0, comments, processing instructions, elements to
  any depth, attributes in either quote style with attribute-value normalisation, duplicate
  attribute detection, character data with line-end normalisation, the five predefined
  entities, decimal and hexadecimal character references restricted to XML `Char`, CDATA
  sections, the `]]>` error, end-tag matching, "junk after document element".
-/
import Indi.Model.Msg

namespace Indi.Xml
open Indi

/-! ### character classes -/

/-- XML 1.0 `Char` -/
def xmlChar (c : Char) : Bool :=
  let n := c.toNat
  n = 9 || n = 10 || n = 13 || (32 ≤ n && n ≤ 0xD7FF) || (0xE000 ≤ n && n ≤ 0xFFFD) || (0x10000 ≤ n && n ≤ 0x10FFFF)

def isS (c : Char) : Bool := c = ' ' || c = '\t' || c = '\n' || c = '\r'

def isAlpha (c : Char) : Bool := ('a' ≤ c && c ≤ 'z') || ('A' ≤ c && c ≤ 'Z')
def isDigit (c : Char) : Bool := '0' ≤ c && c ≤ '9'

/-- ASCII name start character (the colon is excluded: namespace processing) -/
def nameStart (c : Char) : Bool := isAlpha c || c = '_'
def nameChar (c : Char) : Bool := nameStart c || isDigit c || c = '.' || c = '-'

/-- a character in a name position that the model does not decide: colon (namespaces) or non-ASCII -/
def nameUns (c : Char) : Bool := c = ':' || c.toNat ≥ 128

/-- an ASCII name -/
def isName : Str → Bool
  | [] => false
  | c :: cs => nameStart c && cs.all nameChar

/-! ### references -/

def decVal (c : Char) : Nat := c.toNat - 48

def hexVal? (c : Char) : Option Nat :=
  if isDigit c then some (c.toNat - 48)
  else if 'a' ≤ c && c ≤ 'f' then some (c.toNat - 87)
  else if 'A' ≤ c && c ≤ 'F' then some (c.toNat - 55)
  else none

def parseDec : Str → Option Nat
  | [] => none
  | cs => if cs.all isDigit then some (cs.foldl (fun a c => a * 10 + decVal c) 0) else none

def parseHex : Str → Option Nat
  | [] => none
  | cs => cs.foldl (fun a c => match a, hexVal? c with
      | some a, some v => some (a * 16 + v)
      | _, _ => none) (some 0)

def charOfRef (n : Nat) : Option Char :=
  if n < 0x110000 then
    let c := Char.ofNat n
    if c.toNat = n && xmlChar c then some c else none
  else none

/-- the character a reference `&ref;` stands for; `none`: not well-formed / undefined entity -/
def decodeRef (ref : Str) : Option Char :=
  match ref with
  | ['a', 'm', 'p'] => some '&'
  | ['l', 't'] => some '<'
  | ['g', 't'] => some '>'
  | ['q', 'u', 'o', 't'] => some '"'
  | ['a', 'p', 'o', 's'] => some '\''
  | '#' :: 'x' :: ds => (parseHex ds).bind charOfRef
  | '#' :: ds => (parseDec ds).bind charOfRef
  | _ => none

/-! ### the automaton -/

structure Frame where
  tag : Str
  attrs : List (Str × Str) := []     -- document order
  text : Str := []                   -- character data before the first child
  kids : List Elem1 := []
  hasKid : Bool := false
deriving DecidableEq, Repr

inductive Mode where
  | start                                   -- offset 0
  | misc                                    -- prolog or epilog, between tokens
  | lt (atStart : Bool)                     -- after `<`
  | bang                                    -- after `<!`
  | bangDash                                -- after `<!-`
  | comment (dashes : Nat)
  | cdataOpen (k : Nat)                     -- after `<![` and `k` characters of `CDATA[`
  | cdata (br : Nat)
  | piTarget (atStart : Bool) (acc : Str)   -- target so far, reversed
  | piQ                                     -- `?` directly after the target
  | piBody (q : Bool)
  | decl (q : Bool) (acc : Str)             -- XML declaration body, reversed
  | tagName (acc : Str)                     -- reversed
  | tagSpace (sawS : Bool)
  | attrName (acc : Str)                    -- reversed
  | attrEq (name : Str)
  | attrQuote (name : Str)
  | attrVal (name : Str) (q : Char) (acc : Str)            -- value so far, reversed
  | attrRef (name : Str) (q : Char) (acc : Str) (ref : Str) -- reference body, reversed
  | emptyClose
  | text (br : Nat)
  | textRef (ref : Str)                     -- reversed
  | endName (acc : Str)                     -- reversed
  | endSpace (name : Str)
  | err
  | uns
deriving DecidableEq, Repr

structure St where
  mode : Mode := .start
  stack : List Frame := []        -- innermost first
  done : Option Elem := none
  cr : Bool := false              -- the previous character was a literal carriage return
deriving DecidableEq, Repr

def init : St := {}

def St.fail (st : St) : St := { st with mode := .err }
def St.unsup (st : St) : St := { st with mode := .uns }

/-- mode to return to after a comment / processing instruction -/
def St.resume (st : St) : St :=
  match st.stack with
  | [] => { st with mode := .misc, cr := false }
  | _ => { st with mode := .text 0, cr := false }

/-- character data for the innermost open element -/
def St.emit (st : St) (d : Str) : St :=
  match st.stack with
  | [] => st
  | f :: rest => if f.hasKid then st else { st with stack := { f with text := f.text ++ d } :: rest }

/-- a start tag name is complete: open the element -/
def St.openTag (st : St) (nameRev : Str) (next : Mode) : St :=
  { st with stack := { tag := nameRev.reverse } :: st.stack, mode := next, cr := false }

def St.addAttr (st : St) (name value : Str) : St :=
  match st.stack with
  | [] => st.fail
  | f :: rest => { st with stack := { f with attrs := f.attrs ++ [(name, value)] } :: rest, mode := .tagSpace false, cr := false }

def St.dupAttr (st : St) (name : Str) : Bool :=
  match st.stack with
  | [] => false
  | f :: _ => f.attrs.any fun kv => kv.1 = name

/-- the innermost element ends -/
def St.close (st : St) : St :=
  match st.stack with
  | [] => st.fail
  | f :: [] => { st with stack := [], mode := .misc, cr := false,
                         done := some { tag := f.tag, attrs := f.attrs, text := f.text, children := f.kids } }
  | f :: p :: rest =>
    { st with stack := { p with kids := p.kids ++ [{ tag := f.tag, attrs := f.attrs, text := f.text }], hasKid := true } :: rest,
              mode := .text 0, cr := false }

def lower (c : Char) : Char := if 'A' ≤ c && c ≤ 'Z' then Char.ofNat (c.toNat + 32) else c

def isXmlTarget (t : Str) : Bool := t.map lower = ['x', 'm', 'l']

/-- the declaration bodies the model accepts: `version="1.0"` (either quote style), optionally
`standalone="yes|no"`; anything else is left undecided -/
def dropS : Str → Str
  | [] => []
  | c :: cs => if isS c then dropS cs else c :: cs

def stripPrefix (p : Str) (x : Str) : Option Str :=
  if p.isPrefixOf x then some (x.drop p.length) else none

def quoted (vals : List Str) (x : Str) : Option Str :=
  match x with
  | q :: rest =>
    if q = '"' || q = '\'' then
      vals.findSome? fun v => stripPrefix (v ++ [q]) rest
    else none
  | [] => none

def pseudoAttr (name : Str) (vals : List Str) (x : Str) : Option Str :=
  match x with
  | c :: _ =>
    if isS c then
      match stripPrefix name (dropS x) with
      | some r =>
        match dropS r with
        | '=' :: r' => quoted vals (dropS r')
        | _ => none
      | none => none
    else none
  | [] => none

def declOk (body : Str) : Bool :=
  match pseudoAttr (s "version") [s "1.0"] body with
  | none => false
  | some r =>
    (dropS r).isEmpty ||
    (match pseudoAttr (s "standalone") [s "yes", s "no"] r with
     | some r' => (dropS r').isEmpty
     | none => false)

/-- data of a CDATA section / text: pending `]` characters are data after all -/
def brackets (k : Nat) : Str := List.replicate k ']'

def stepMode (st : St) (c : Char) : St :=
  match st.mode with
  | .err => st
  | .uns => st
  | .start =>
    if c.toNat = 0xFEFF then st.unsup
    else if isS c then { st with mode := .misc }
    else if c = '<' then { st with mode := .lt true }
    else st.fail
  | .misc =>
    if isS c then st
    else if c = '<' then { st with mode := .lt false }
    else st.fail
  | .lt atStart =>
    if c = '!' then { st with mode := .bang }
    else if c = '?' then { st with mode := .piTarget atStart [] }
    else if c = '/' then (if st.stack.isEmpty then st.fail else { st with mode := .endName [] })
    else if nameUns c then st.unsup
    else if nameStart c then (if st.done.isSome then st.fail else { st with mode := .tagName [c] })
    else st.fail
  | .bang =>
    if c = '-' then { st with mode := .bangDash }
    else if c = '[' then (if st.stack.isEmpty then st.fail else { st with mode := .cdataOpen 0 })
    else st.unsup
  | .bangDash => if c = '-' then { st with mode := .comment 0 } else st.fail
  | .comment d =>
    if d ≥ 2 then (if c = '>' then st.resume else st.fail)
    else if c = '-' then { st with mode := .comment (d + 1) }
    else { st with mode := .comment 0 }
  | .cdataOpen k =>
    if (s "CDATA[")[k]? = some c then
      (if k = 5 then { st with mode := .cdata 0, cr := false } else { st with mode := .cdataOpen (k + 1) })
    else st.fail
  | .cdata br =>
    if c = ']' then
      (if br ≥ 2 then { (st.emit [']']) with mode := .cdata 2, cr := false } else { st with mode := .cdata (br + 1), cr := false })
    else if c = '>' && br ≥ 2 then { st with mode := .text 0, cr := false }
    else if c = '\r' then { (st.emit (brackets br ++ ['\n'])) with mode := .cdata 0, cr := true }
    else if c = '\n' && st.cr then { st with cr := false }
    else { (st.emit (brackets br ++ [c])) with mode := .cdata 0, cr := false }
  | .piTarget atStart acc =>
    if nameUns c then st.unsup
    else if nameChar c then (if acc.isEmpty && !nameStart c then st.fail else { st with mode := .piTarget atStart (c :: acc) })
    else if acc.isEmpty then st.fail
    else if isS c then
      (if acc.reverse = ['x', 'm', 'l'] && atStart then { st with mode := .decl false [c] }
       else if isXmlTarget acc.reverse then st.fail
       else { st with mode := .piBody false })
    else if c = '?' then
      (if acc.reverse = ['x', 'm', 'l'] && atStart then st.unsup
       else if isXmlTarget acc.reverse then st.fail
       else { st with mode := .piQ })
    else st.fail
  | .piQ => if c = '>' then st.resume else st.fail
  | .piBody q =>
    if c = '>' && q then st.resume
    else { st with mode := .piBody (c = '?') }
  | .decl q acc =>
    if c = '>' && q then (if declOk acc.tail.reverse then { st with mode := .misc } else st.unsup)
    else { st with mode := .decl (c = '?') (c :: acc) }
  | .tagName acc =>
    if nameUns c then st.unsup
    else if nameChar c then { st with mode := .tagName (c :: acc) }
    else if isS c then st.openTag acc (.tagSpace true)
    else if c = '>' then st.openTag acc (.text 0)
    else if c = '/' then st.openTag acc .emptyClose
    else st.fail
  | .tagSpace sawS =>
    if isS c then { st with mode := .tagSpace true }
    else if c = '>' then { st with mode := .text 0, cr := false }
    else if c = '/' then { st with mode := .emptyClose }
    else if nameUns c then st.unsup
    else if nameStart c then (if sawS then { st with mode := .attrName [c] } else st.fail)
    else st.fail
  | .attrName acc =>
    if nameUns c then st.unsup
    else if nameChar c then { st with mode := .attrName (c :: acc) }
    else if acc.reverse = s "xmlns" then st.unsup
    else if st.dupAttr acc.reverse then st.fail
    else if isS c then { st with mode := .attrEq acc.reverse }
    else if c = '=' then { st with mode := .attrQuote acc.reverse }
    else st.fail
  | .attrEq name =>
    if isS c then st
    else if c = '=' then { st with mode := .attrQuote name }
    else st.fail
  | .attrQuote name =>
    if isS c then st
    else if c = '"' || c = '\'' then { st with mode := .attrVal name c [], cr := false }
    else st.fail
  | .attrVal name q acc =>
    if c = q then st.addAttr name acc.reverse
    else if c = '<' then st.fail
    else if c = '&' then { st with mode := .attrRef name q acc [], cr := false }
    else if c = '\r' then { st with mode := .attrVal name q (' ' :: acc), cr := true }
    else if c = '\n' then (if st.cr then { st with cr := false } else { st with mode := .attrVal name q (' ' :: acc) })
    else if c = '\t' then { st with mode := .attrVal name q (' ' :: acc), cr := false }
    else { st with mode := .attrVal name q (c :: acc), cr := false }
  | .attrRef name q acc ref =>
    if c = ';' then
      (match decodeRef ref.reverse with
       | some ch => { st with mode := .attrVal name q (ch :: acc) }
       | none => st.fail)
    else { st with mode := .attrRef name q acc (c :: ref) }
  | .emptyClose => if c = '>' then st.close else st.fail
  | .text br =>
    if c = '<' then { st with mode := .lt false, cr := false }
    else if c = '&' then { st with mode := .textRef [], cr := false }
    else if c = ']' then { (st.emit [c]) with mode := .text (if br ≥ 2 then 2 else br + 1), cr := false }
    else if c = '>' && br ≥ 2 then st.fail
    else if c = '\r' then { (st.emit ['\n']) with mode := .text 0, cr := true }
    else if c = '\n' && st.cr then { st with mode := .text 0, cr := false }
    else { (st.emit [c]) with mode := .text 0, cr := false }
  | .textRef ref =>
    if c = ';' then
      (match decodeRef ref.reverse with
       | some ch => { (st.emit [ch]) with mode := .text 0 }
       | none => st.fail)
    else { st with mode := .textRef (c :: ref) }
  | .endName acc =>
    if nameUns c then st.unsup
    else if nameChar c then { st with mode := .endName (c :: acc) }
    else if isS c then { st with mode := .endSpace acc.reverse }
    else if c = '>' then
      (match st.stack with
       | f :: _ => if f.tag = acc.reverse then st.close else st.fail
       | [] => st.fail)
    else st.fail
  | .endSpace name =>
    if isS c then st
    else if c = '>' then
      (match st.stack with
       | f :: _ => if f.tag = name then st.close else st.fail
       | [] => st.fail)
    else st.fail

/-- one character: characters outside XML `Char` are an error wherever they occur -/
def step (st : St) (c : Char) : St :=
  match st.mode with
  | .err => st
  | .uns => st
  | _ => if xmlChar c then stepMode st c else st.fail

def run (st : St) (s : Str) : St := s.foldl step st

inductive Res where
  | ok (e : Elem)
  | err
  | uns
deriving DecidableEq, Repr

/-- `parser.close()`: the document must be complete -/
def finish (st : St) : Res :=
  match st.mode with
  | .uns => .uns
  | .misc =>
    match st.done with
    | some e => .ok e
    | none => .err
  | _ => .err

/-- `xml.etree.ElementTree.fromstring` -/
def parseDoc (s : Str) : Res := finish (run init s)

/-! ### the writer -/

/-- decimal digits of a number (what `"&#%d;"` prints) -/
def decDigits (n : Nat) : Str :=
  if n < 10 then [Char.ofNat (48 + n)] else decDigits (n / 10) ++ [Char.ofNat (48 + n % 10)]
termination_by n
decreasing_by omega

def charRef (c : Char) : Str := '&' :: '#' :: decDigits c.toNat ++ [';']

def escTextChar (c : Char) : Str :=
  if c = '&' then s "&amp;" else if c = '<' then s "&lt;" else if c = '>' then s "&gt;"
  else if c.toNat ≥ 128 then charRef c else [c]

def escAttrChar (c : Char) : Str :=
  if c = '&' then s "&amp;" else if c = '<' then s "&lt;" else if c = '>' then s "&gt;"
  else if c = '"' then s "&quot;" else if c = '\r' then s "&#13;" else if c = '\n' then s "&#10;"
  else if c = '\t' then s "&#09;"
  else if c.toNat ≥ 128 then charRef c else [c]

def escText (x : Str) : Str := x.flatMap escTextChar
def escAttr (x : Str) : Str := x.flatMap escAttrChar

def serAttr (kv : Str × Str) : Str := ' ' :: kv.1 ++ '=' :: '"' :: escAttr kv.2 ++ ['"']
def serAttrs (l : List (Str × Str)) : Str := l.flatMap serAttr

def serElem1 (e : Elem1) : Str :=
  '<' :: e.tag ++ serAttrs e.attrs ++
    (if e.text.isEmpty then s " />" else '>' :: escText e.text ++ '<' :: '/' :: e.tag ++ ['>'])

/-- `ET.tostring(elem)` for the two-level elements `to_xml` builds -/
def serElem (e : Elem) : Str :=
  '<' :: e.tag ++ serAttrs e.attrs ++
    (if e.text.isEmpty && e.children.isEmpty then s " />"
     else '>' :: escText e.text ++ e.children.flatMap serElem1 ++ '<' :: '/' :: e.tag ++ ['>'])

/-! ### `from_string`, `to_string` -/

/-- `IndiMessage.from_string`: `ET.fromstring` then `from_xml`; what `Buffer` distinguishes -/
def fromString (reg : Registry) (x : Str) : Except Err Msg :=
  match parseDoc x with
  | .ok e => fromXml reg e
  | .err => .error .parseError
  | .uns => .error .unsupported

/-- `IndiMessage.to_string` (the bytes, as characters) -/
def toString (m : Msg) : Str := Generated.xmlPrefix ++ serElem (toXml m) ++ Generated.xmlSuffix

end Indi.Xml
