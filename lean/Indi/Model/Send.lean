/-
  L2g `Send` — model of the outbound side of a connection handler
  (indi/transport/server/tcp.py, server/tty.py, client/tcp.py):

      message_from_device(msg):  data = msg.to_string(); create_task(self.send(data))
      send(data):                async with self.sender_lock: write(data); await drain()          (TCP)
      _write(data):              async with self.sender_lock: await stdout.write(data); await stdout.flush()   (TTY)

  on top of the asyncio semantics recorded in DESIGN.md: tasks start in creation
  order; `asyncio.Lock` is FIFO (a task that finds the lock held, or other
  waiters queued, queues behind them; release hands the lock to the first
  waiter).  The environment decides when each awaited I/O operation completes.
  Messages are numbered; `out` is the sequence of messages whose bytes the
  output has accepted.
-/
import Indi.Model.Basic

namespace Indi.Send

inductive Transport where
  | tcp      -- write() is synchronous (buffered), then one await: drain()
  | tty      -- two awaits: write() (its effect happens when the thread-pool job runs), then flush()
deriving DecidableEq, Repr

structure Conn where
  transport : Transport
  notStarted : List Nat := []          -- send tasks created but not yet run, in creation order
  waiters : List Nat := []             -- tasks queued on the lock, FIFO
  holder : Option (Nat × Nat) := none  -- (message, awaits still to complete) of the task holding the lock
  out : List Nat := []
deriving DecidableEq, Repr

/-- the task that gets the lock starts writing -/
def acquire (c : Conn) (m : Nat) : Conn :=
  match c.transport with
  | .tcp => { c with holder := some (m, 1), out := c.out ++ [m] }     -- writer.write(data) happens at once
  | .tty => { c with holder := some (m, 2) }                          -- await stdout.write(data) pending

inductive Step where
  | route (m : Nat)        -- the router hands message m to this connection: a send task is created
  | start                  -- the oldest not-yet-started send task runs up to its first await
  | complete               -- the I/O operation the lock holder awaits completes
deriving DecidableEq, Repr

def step (c : Conn) : Step → Conn
  | .route m => { c with notStarted := c.notStarted ++ [m] }
  | .start =>
    match c.notStarted with
    | [] => c
    | m :: rest =>
      let c' := { c with notStarted := rest }
      if c.holder.isNone && c.waiters.isEmpty then acquire c' m else { c' with waiters := c.waiters ++ [m] }
  | .complete =>
    match c.holder with
    | none => c
    | some (m, k) =>
      if k ≥ 2 then
        -- TTY: the write job ran (its bytes are out), now the flush is awaited
        { c with holder := some (m, k - 1), out := c.out ++ [m] }
      else
        -- release; the first waiter gets the lock
        match c.waiters with
        | [] => { c with holder := none }
        | w :: ws => acquire { c with holder := none, waiters := ws } w

def run (c : Conn) (steps : List Step) : Conn := steps.foldl step c

/-- messages routed to the connection by a schedule, in routing order -/
def routed (steps : List Step) : List Nat :=
  steps.filterMap fun s => match s with
    | .route m => some m
    | _ => none

/-- messages handed to the connection whose bytes are not out yet, in the order they will go out -/
def pending (c : Conn) : List Nat :=
  (match c.holder with
   | some (m, k) => if k ≥ 2 then [m] else []
   | none => []) ++ c.waiters ++ c.notStarted

end Indi.Send
