/-
  Re-entrant delivery: endpoints that call `Router.process_message` from inside their handler
  (a driver answering a client message while the router is still fanning it out, a snooping
  client writing from inside `message_from_device`).  Python runs the nested call to completion
  before the outer loop continues, so the log is depth-first; the nested call computes its own
  `is_blob` and reads the policies as they are at that moment.

  A *reaction* is a message an endpoint sends (with itself as sender) the next time it is handed
  a message; reactions are consumed in order.  The fuel bounds the nesting depth only (each
  nested call consumes a reaction, so `reactions.length + 1` always suffices).
-/
import Indi.Model.Rtr

namespace Indi.Rtr

structure Reaction where
  id : Nat
  who : Target
  msg : RMsg
deriving DecidableEq, Repr

/-- one delivery: which message (0 = the outer one, else the reaction's id), to whom; for clients the BLOB-ness of
the delivered message and the policy that was looked up for the decision -/
structure Delivery where
  mid : Nat
  target : Target
  isBlob : Bool
  policy : Policy
deriving DecidableEq, Repr

structure Acc where
  σ : State
  rs : List Reaction
  log : List Delivery
deriving DecidableEq, Repr

def popReaction (t : Target) : List Reaction → Option (Reaction × List Reaction)
  | [] => none
  | r :: rs =>
    if r.who = t then some (r, rs)
    else match popReaction t rs with
      | some (x, rest) => some (x, r :: rest)
      | none => none

def senderOf : Target → Sender
  | .dev i => .dev i
  | .cli i => .cli i

/-- `process_message` with re-entrant endpoints -/
def procR : Nat → Acc → Nat → RMsg → Sender → Acc
  | 0, a, _, _, _ => a
  | fuel + 1, a, mid, m, sender =>
    let a1 : Acc := { a with σ := if m.fromClient && m.isEnableBlob then processEnableBlob a.σ m sender else a.σ }
    let deliver (a : Acc) (t : Target) (p : Policy) : Acc :=
      let a' : Acc := { a with log := a.log ++ [{ mid := mid, target := t, isBlob := m.isBlob, policy := p }] }
      match popReaction t a'.rs with
      | some (r, rs') => procR fuel { a' with rs := rs' } r.id r.msg (senderOf t)
      | none => a'
    let a2 := if m.fromClient then
        a1.σ.devices.foldl (fun a d =>
          if Sender.dev d.id ≠ sender && accepts d m.device then deliver a (.dev d.id) defaultPolicy else a) a1
      else a1
    if m.fromDevice then
      a2.σ.clients.foldl (fun a c =>
        if Sender.cli c ≠ sender && deliverCond m.isBlob (policyLookup a.σ c m.device)
        then deliver a (.cli c) (policyLookup a.σ c m.device) else a) a2
    else a2

/-- a history with a global queue of reactions; the deliveries of every operation -/
def traceR : State → List Reaction → List Op → List (List Delivery)
  | _, _, [] => []
  | σ, rs, op :: rest =>
    match op with
    | .send m s =>
      let a := procR (rs.length + 1) { σ := σ, rs := rs, log := [] } 0 m s
      a.log :: traceR a.σ a.rs rest
    | op => [] :: traceR (step σ op).1 rs rest

end Indi.Rtr
