/-
  Switch rules — model of `SwitchVector.apply_rule`, the `Switch` value /
  `bool_value` setters, `selected_value(s)` and a client's `newSwitchVector`
  (indi/device/properties/instance/{vectors,elements}.py).

  A switch vector is the list of its elements' states in definition order
  (`true` = On).  Every elementary assignment goes through `apply_rule` and
  then publishes the whole vector, so an operation yields the list of
  published snapshots and the final state.
-/
import Indi.Model.Basic

namespace Indi.Switch

inductive Rule where
  | oneOfMany | atMostOne | anyOfMany
deriving DecidableEq, Repr

def countOn (vals : List Bool) : Nat := (vals.filter id).length

/-- is any element other than `i` On? -/
def otherOn (vals : List Bool) (i : Nat) : Bool :=
  (vals.take i).any id || (vals.drop (i + 1)).any id

/-- `element.value = v` for element `i`: `check_value` → `apply_rule`, store -/
def assignAt (rule : Rule) (vals : List Bool) (i : Nat) (v : Bool) : List Bool :=
  if i < vals.length then
    if v then
      match rule with
      | .anyOfMany => vals.set i true
      | _ => (vals.map fun _ => false).set i true
    else
      match rule with
      | .oneOfMany => if otherOn vals i then vals.set i false else vals.set i true
      | _ => vals.set i false
  else vals

inductive Op where
  | assign (i : Nat) (v : Bool)              -- driver: `el.value = On/Off`, `el.bool_value = b`
  | write (children : List (Nat × Bool))     -- client newSwitchVector: one assignment per child, in order
  | select (names : List Nat)                -- `selected_values = [...]` / `selected_value = x`
deriving Repr

/-- a sequence of elementary assignments; each publishes the vector -/
def assignMany (rule : Rule) : List Bool → List (Nat × Bool) → List (List Bool) × List Bool
  | vals, [] => ([], vals)
  | vals, (i, v) :: rest =>
    if i < vals.length then
      let vals' := assignAt rule vals i v
      let r := assignMany rule vals' rest
      (vals' :: r.1, r.2)
    else assignMany rule vals rest          -- unknown element: ignored, nothing published

/-- `selected_values` setter: walk the elements in order, assign where the
current state differs from the wanted one -/
def selectLoop (rule : Rule) (names : List Nat) : Nat → Nat → List Bool → List (List Bool) × List Bool
  | 0, _, vals => ([], vals)
  | fuel + 1, j, vals =>
    let want := names.contains j
    if vals.getD j false != want then
      let vals' := assignAt rule vals j want
      let r := selectLoop rule names fuel (j + 1) vals'
      (vals' :: r.1, r.2)
    else selectLoop rule names fuel (j + 1) vals

def step (rule : Rule) (vals : List Bool) : Op → List (List Bool) × List Bool
  | .assign i v => assignMany rule vals [(i, v)]
  | .write ch => assignMany rule vals ch
  | .select names =>
    -- an unknown name raises before anything is assigned
    if names.all (fun n => n < vals.length) then selectLoop rule names vals.length 0 vals
    else ([], vals)

def run (rule : Rule) : List Bool → List Op → List (List (List Bool) × List Bool)
  | _, [] => []
  | vals, op :: rest =>
    let r := step rule vals op
    r :: run rule r.2 rest

end Indi.Switch
