/-
  Foreign but equivalent spellings of an element (C03 / C02: "attribute order, quote style, indentation, XML declaration,
  compact or indented, explicit or self-closing empty elements"): a writer parametrised by a style, and the element the
  parser reads back from it.
-/
import Indi.Spec.Xml

namespace Indi.Xml
open Indi

/-- a spelling style (one style for the whole document) -/
structure Style where
  attrLead : Str := [' ']          -- white space before every attribute (non-empty)
  eqL : Str := []                  -- white space before `=`
  eqR : Str := []                  -- white space after `=`
  single : Bool := false           -- single instead of double quotes
  tagEnd : Str := []               -- white space before `>` / `/>` of a start tag
  explicitEmpty : Bool := false    -- `<t></t>` instead of `<t/>` for an element without content
  closeWs : Str := []              -- white space in `</t >`
  indent : Str := []               -- white space before every child (when there are children)
  closeIndent : Str := []          -- white space before the root's end tag (when there are children)
  rawGt : Bool := false            -- `>` unescaped in text (`]]>` is then written `]]&gt;`)
  revAttrs : Bool := false         -- attributes in reverse order
deriving DecidableEq, Repr

def Style.ok (sp : Style) : Bool :=
  !sp.attrLead.isEmpty && sp.attrLead.all isS && sp.eqL.all isS && sp.eqR.all isS && sp.tagEnd.all isS &&
  sp.closeWs.all isS && sp.indent.all isS && sp.closeIndent.all isS &&
  !sp.indent.contains '\r'      -- a CR in character data would be normalised to LF: keep it out of what is compared

def quoteOf (sp : Style) : Char := if sp.single then '\'' else '"'

/-- attribute value escaping for the chosen quote: the other quote may stay raw -/
def escAttrCharQ (single : Bool) (c : Char) : Str :=
  if c = '&' then s "&amp;" else if c = '<' then s "&lt;"
  else if c = '"' && !single then s "&quot;" else if c = '\'' && single then s "&apos;"
  else if c = '\r' then s "&#13;" else if c = '\n' then s "&#10;" else if c = '\t' then s "&#9;"
  else [c]

def escAttrQ (single : Bool) (x : Str) : Str := x.flatMap (escAttrCharQ single)

/-- text escaping: `&`, `<` always; `>` either always (`&gt;`) or only where it would complete `]]>` -/
def escTextRaw : Str → Nat → Str
  | [], _ => []
  | c :: cs, br =>
    if c = '&' then s "&amp;" ++ escTextRaw cs 0
    else if c = '<' then s "&lt;" ++ escTextRaw cs 0
    else if c = ']' then c :: escTextRaw cs (br + 1)
    else if c = '>' then (if br ≥ 2 then s "&gt;" else ['>']) ++ escTextRaw cs 0
    else c :: escTextRaw cs 0

def spellText (sp : Style) (t : Str) : Str := if sp.rawGt then escTextRaw t 0 else escText t

def spellAttr (sp : Style) (kv : Str × Str) : Str :=
  sp.attrLead ++ kv.1 ++ sp.eqL ++ ['='] ++ sp.eqR ++ [quoteOf sp] ++ escAttrQ sp.single kv.2 ++ [quoteOf sp]

def ordered (sp : Style) (l : List (Str × Str)) : List (Str × Str) := if sp.revAttrs then l.reverse else l

def spellStart (sp : Style) (tag : Str) (attrs : List (Str × Str)) : Str :=
  '<' :: tag ++ (ordered sp attrs).flatMap (spellAttr sp) ++ sp.tagEnd

def spellEnd (sp : Style) (tag : Str) : Str := '<' :: '/' :: tag ++ sp.closeWs ++ ['>']

def spellElem1 (sp : Style) (e : Elem1) : Str :=
  spellStart sp e.tag e.attrs ++
    (if e.text.isEmpty then (if sp.explicitEmpty then '>' :: spellEnd sp e.tag else ['/', '>'])
     else '>' :: spellText sp e.text ++ spellEnd sp e.tag)

def spellElem (sp : Style) (e : Elem) : Str :=
  spellStart sp e.tag e.attrs ++
    (if e.text.isEmpty && e.children.isEmpty then (if sp.explicitEmpty then '>' :: spellEnd sp e.tag else ['/', '>'])
     else '>' :: spellText sp e.text ++ e.children.flatMap (fun c => sp.indent ++ spellElem1 sp c) ++
          (if e.children.isEmpty then [] else sp.closeIndent) ++ spellEnd sp e.tag)

/-- what the parser reads back from a spelling: attributes in the written order; the indentation before the first child
becomes part of the root's text (later white space lands in tails, which `from_xml` never looks at) -/
def spelled (sp : Style) (e : Elem) : Elem :=
  { tag := e.tag, attrs := ordered sp e.attrs,
    text := e.text ++ (if e.children.isEmpty then [] else sp.indent),
    children := e.children.map fun c => { c with attrs := ordered sp c.attrs } }

/-- a style reproduces the library's own writer -/
def libraryStyle : Style := { tagEnd := [], attrLead := [' '] }

end Indi.Xml
