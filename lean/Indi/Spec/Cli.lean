/-
  Specification side of the client mirror (C15, C16):

  * `refStep` — the INDI client rules as a reference interpreter: a definition
    creates or replaces the property, an update changes only the state and the
    listed known elements of a property of the same kind, a deletion removes the
    named property or — without a name — the whole device, anything else is ignored;
  * `eventsOf` — the events a message must raise, derived from the mirror before it
    (one ValueUpdate per element whose value changes, None → value for every element of
    a definition; StateUpdate iff the state changes; DefinitionUpdate per definition);
  * `track` — the last announced value of an element in an event log (for the chain property).
-/
import Indi.Model.Cli

namespace Indi.Spec.Cli
open Indi Indi.Cli

/-! ### reference interpreter -/

inductive Class where
  | definition (k : VKind)
  | update (k : VKind)
  | deletion
  | other

def classify (m : Msg) : Class :=
  match defKind m.tag, setKind m.tag with
  | some k, _ => .definition k
  | none, some k => .update k
  | none, none => if m.tag = s "delProperty" then .deletion else .other

def onDev (σ : Mirror) (dev : Option Str) (f : CDev → CDev) : Mirror :=
  match olook dev σ with
  | some d => oput dev (f d) σ
  | none => σ

/-- the element list of a definition: one entry per distinct name (position of the first, content of the last) -/
def elemsOfDef : List Part → List (Option Str × CElem)
  | [] => []
  | p :: ps =>
    let name := attr p.fields "name"
    let mine : CElem := { name := name, label := attr p.fields "label", value := textVal p.fields }
    let rest := elemsOfDef ps
    (name, (olook name rest).getD mine) :: odel name rest

def viewOfDef (k : VKind) (m : Msg) : CVec :=
  { kind := k, name := attr m.fields "name", group := attr m.fields "group", label := attr m.fields "label",
    timestamp := attr m.fields "timestamp", message := attr m.fields "message", state := attr m.fields "state",
    elems := elemsOfDef (m.children.getD []) }

/-- the value an update child carries (BLOBs decoded; `none` when the payload is not a well-formed BLOB) -/
def childValue (k : VKind) (p : Part) : Option CVal :=
  match k with
  | .blob => (match blobFromPart p with | .ok v => some v | .error _ => none)
  | _ => some (textVal p.fields)

/-- apply the listed children to the known elements, in order -/
def applyUpdate (k : VKind) (elems : List (Option Str × CElem)) (ps : List Part) : List (Option Str × CElem) :=
  ps.foldl (fun es p =>
    let name := attr p.fields "name"
    match olook name es, childValue k p with
    | some e, some v => oput name { e with value := v } es
    | _, _ => es) elems

def refStep (σ : Mirror) (m : Msg) : Mirror :=
  let dev := attr m.fields "device"
  let name := attr m.fields "name"
  match classify m with
  | .definition k =>
    let d : CDev := (olook dev σ).getD { vecs := [] }
    oput dev { vecs := oput name (viewOfDef k m) d.vecs } σ
  | .update k =>
    onDev σ dev fun d =>
      match olook name d.vecs with
      | some v => if v.kind = k then
          { vecs := oput name { v with state := attr m.fields "state", elems := applyUpdate k v.elems (m.children.getD []) } d.vecs }
        else d
      | none => d
  | .deletion =>
    match name with
    | none => odel dev σ
    | some _ => onDev σ dev fun d => { vecs := odel name d.vecs }
  | .other => σ

/-- is every BLOB child of an update to a known BLOB property well-formed (decodable, size consistent)? -/
def streamOk (σ : Mirror) (m : Msg) : Bool :=
  match classify m with
  | .update .blob =>
    (match olook (attr m.fields "device") σ with
     | some d => (match olook (attr m.fields "name") d.vecs with
       | some v => v.kind != .blob ||
           (m.children.getD []).all fun p => (olook (attr p.fields "name") v.elems).isNone || (childValue .blob p).isSome
       | none => true)
     | none => true)
  | _ => true

/-! ### events -/

/-- the events of an update: the state first, then one ValueUpdate per child that changes the value it meets -/
def updateEvents (k : VKind) (dev name : Option Str) : List (Option Str × CElem) → List Part → List Event
  | _, [] => []
  | es, p :: ps =>
    let en := attr p.fields "name"
    match olook en es, childValue k p with
    | some e, some v =>
      (if v != e.value then [Event.value dev name en e.value v] else []) ++
        updateEvents k dev name (oput en { e with value := v } es) ps
    | _, _ => updateEvents k dev name es ps

def eventsOf (σ : Mirror) (m : Msg) : List Event :=
  let dev := attr m.fields "device"
  let name := attr m.fields "name"
  match classify m with
  | .definition _ =>
    (m.children.getD []).map (fun p => Event.value dev name (attr p.fields "name") .none (textVal p.fields)) ++
      [Event.state dev name none (attr m.fields "state"), Event.definition dev name]
  | .update k =>
    (match olook dev σ with
     | some d => (match olook name d.vecs with
       | some v => if v.kind = k then
           (if attr m.fields "state" != v.state then [Event.state dev name v.state (attr m.fields "state")] else []) ++
             updateEvents k dev name v.elems (m.children.getD [])
         else []
       | none => [])
     | none => [])
  | _ => []

/-- the value last announced for an element in an event log (newest last) -/
def track (log : List Event) (dev vec elem : Option Str) : Option CVal :=
  log.foldl (fun acc ev => match ev with
    | .value d v e _ new => if d = dev && v = vec && e = elem then some new else acc
    | _ => acc) none

/-- C16's chain invariant on a mirror and the log of all events so far: for every element in the mirror the
last announced value is the current value -/
def chainInv (σ : Mirror) (log : List Event) : Bool :=
  σ.all fun (dn, d) => d.vecs.all fun (vn, v) => v.elems.all fun (en, e) => track log dn vn en == some e.value

/-- what each registered callback must have been called with for a list of events -/
def deliveries (cbs : List Callback) (evs : List Event) : List (Nat × Event) :=
  (evs.map fun ev => (cbs.filter fun cb => accepts cb ev).map fun cb => (cb.id, ev)).flatten

/-- the same, grouped by callback (registration order), which is how the harness observes it:
each callback's own log, plain or coroutine -/
def deliveriesByCb (cbs : List Callback) (evs : List Event) : List (Nat × Event) :=
  (cbs.map fun cb => (evs.filter fun ev => accepts cb ev).map fun ev => (cb.id, ev)).flatten

/-- C15 on one observed step -/
def c15Holds (before : Mirror) (m : Msg) (raised : Bool) (after : Mirror) : Option Bool :=
  if streamOk before m then some (!raised && after == refStep before m) else none

/-- C16 on one observed step: events raised (as seen by a catch-all callback), and per-callback deliveries -/
def c16Holds (cbs : List Callback) (before : Mirror) (m : Msg) (observed : List (Nat × Event)) : Option Bool :=
  if streamOk before m then some (observed == deliveriesByCb cbs (eventsOf before m)) else none

end Indi.Spec.Cli

/-! ### C16: a callback removed while an event is being dispatched

  `rmonevent` may be called from inside a callback.  A callback that is removed before its turn — it was registered later
  than the remover — must not see the event in flight nor any later one ("never after it has been removed"); every other
  callback sees every event.  (Removing an earlier or the running callback is the case documented as outside the
  property: the library's dispatch loop then skips the next callback.) -/

namespace Indi.Spec.Cli

/-- `n` callbacks that accept every event, callback `i` removes callback `j` (`i < j < n`) when it is handed the first event;
`logs[k]` = the indices of the events callback `k` was handed, out of `e` events -/
def inflightHolds (n i j e : Nat) (logs : List (List Nat)) : Bool :=
  logs.length == n && decide (i < j) && decide (j < n) &&
  (List.range n).all fun k => logs.getD k [] == (if k = j then [] else List.range e)

end Indi.Spec.Cli
