/-
  Executable side of the framing specification: the parser given as a finite
  table (the candidates the real parser accepted), decidable versions of the
  stream hypotheses, and the per-call deliveries C02 demands.
-/
import Indi.Spec.Buf2

namespace Indi.Buf

/-- a parser given by the finite table of the strings that are complete XML documents:
id 0 = not a valid message, any other id = that message -/
def tableParse (table : List (Str × Nat)) (x : Str) : ParseRes Nat :=
  match alookup x table with
  | none => .notXml
  | some 0 => .invalid
  | some n => .msg n

def hasOpenerB (tags : List Str) (x : Str) : Bool :=
  (List.range (x.length + 1)).any fun i => startsKnown tags (x.drop i)

def noOpenerB (tags : List Str) (g : Str) : Bool := !hasOpenerB tags g

def endingB (body : Str) : Bool :=
  match body.reverse with
  | '>' :: c :: _ => c ≠ '>'
  | _ => false

def admissibleB (table : List (Str × Nat)) (tags : List Str) (body : Str) (m : Nat) : Bool :=
  startsKnown tags body && m != 0 && alookup body table == some m &&
    (List.range body.length).all (fun k => (alookup (body.take k) table).isNone) && endingB body

def fitsB (threshold : Option Nat) (x : Str) : Bool :=
  match threshold with
  | none => true
  | some t => x.length ≤ t

/-- decidable `StreamOk2` (gaps of any length; bodies fit the threshold) plus (A1), (A2) on the table -/
def streamOkB (table : List (Str × Nat)) (tags : List Str) (threshold : Option Nat)
    (segs : List (Seg Nat)) (final : Str) : Bool :=
  segs.all (fun sg => admissibleB table tags sg.body sg.msg && noOpenerB tags sg.gap && fitsB threshold sg.body)
    && noOpenerB tags final
    && table.all (fun kv => kv.2 == 0 || hasOpenerB tags kv.1)          -- (A1) on the table
    && tags.all (fun t => !t.contains '<')                -- (A2)

/-- what each `append; process` call must deliver (C02): the messages whose last character arrived with that piece -/
def expectedCalls (segs : List (Seg Nat)) : Nat → Nat → List Str → List (List Nat)
  | _, _, [] => []
  | seen, done, p :: ps =>
    let seen' := seen + p.length
    let done' := countDone segs seen'
    ((segs.drop done).take (done' - done)).map (·.msg) :: expectedCalls segs seen' done' ps

/-- decidable `Corrupt` for a table parser: no accepted string is a piece of, or an extension of, a suffix of `c` -/
def corruptB (table : List (Str × Nat)) (c : Str) : Bool :=
  (List.range c.length).all fun i =>
    table.all fun kv => !(kv.1.isPrefixOf (c.drop i)) && !((c.drop i).isPrefixOf kv.1)

/-- C11 on one observed session: bounded retention and only genuine deliveries -/
def c11Holds (threshold : Option Nat) (ids : List Nat) (calls : List (List Nat × Nat)) : Bool :=
  calls.all fun (delivered, retained) =>
    delivered.all (fun m => ids.contains m) &&
    match threshold with
    | none => true
    | some t => retained ≤ t

end Indi.Buf

namespace Indi.Buf

/-- `countDone` on lengths alone (for streams too long to hand over as text): segments as (gap length, body length) -/
def countDoneLen : List (Nat × Nat) → Nat → Nat
  | [], _ => 0
  | (g, b) :: rest, n => if g + b ≤ n then 1 + countDoneLen rest (n - (g + b)) else 0

/-- what each `append; process` call must deliver, by message index (1-based), from the lengths alone -/
def expectedCallsLen (segs : List (Nat × Nat)) : Nat → Nat → List Nat → List (List Nat)
  | _, _, [] => []
  | seen, done, p :: ps =>
    let seen' := seen + p
    let done' := countDoneLen segs seen'
    ((List.range done').drop done).map (· + 1) :: expectedCallsLen segs seen' done' ps

end Indi.Buf
