/-
  Specification of `waitforevent` (C17), written declaratively over the whole timed event
  sequence rather than instant by instant: the wait completes with the FIRST event that
  satisfies its condition if that event arrives no later than the timeout instant,
  otherwise it fails at the timeout instant; with no timeout and no match it stays
  pending.  While waiting with polling enabled it re-requests the properties at
  `delay + k·interval` for those instants that lie before completion, and no
  callback of the wait remains once it has completed.
-/
import Indi.Model.Wait

namespace Indi.Spec.Wait
open Indi.Wait

/-- the first matching event of the whole sequence, looking only at batches up to `horizon` (time order) -/
def firstMatch (batches : List Batch) (horizon : Nat) : Option (Nat × Nat) :=
  (List.range (horizon + 1)).findSome? fun t =>
    (batches.filter fun b => b.1 = t).findSome? fun b => (firstTrue b.2 0).map fun i => (t, i)

def effectiveTimeout (cfg : Cfg) : Option Nat :=
  match cfg.timeout with
  | some τ => if τ > 0 then some τ else none
  | none => none

/-- what the wait must have returned by `horizon` -/
def expectedOutcome (cfg : Cfg) (batches : List Batch) (horizon : Nat) : Outcome :=
  match firstMatch batches horizon, effectiveTimeout cfg with
  | some (t, i), some τ => if t ≤ τ then .event t i else if τ ≤ horizon then .timeout τ else .pending
  | some (t, i), none => .event t i
  | none, some τ => if τ ≤ horizon then .timeout τ else .pending
  | none, none => .pending

def completionTime : Outcome → Option Nat
  | .pending => none
  | .event t _ => some t
  | .timeout t => some t

/-- the polling instants that must carry a getProperties: ticks strictly before completion
(and, when the wait times out exactly on its first tick, that tick as well: the polling task was started first) -/
def expectedSends (cfg : Cfg) (batches : List Batch) (horizon : Nat) : List Nat :=
  if !cfg.polling then [] else
  let out := expectedOutcome cfg batches horizon
  (List.range (horizon + 1)).filter fun t =>
    t ≥ cfg.delay && (t - cfg.delay) % cfg.interval = 0 &&
    match out with
    | .pending => true
    | .event tc _ => t < tc
    | .timeout tc => t < tc || (t = tc && t = cfg.delay)

/-- is a callback of the wait still registered at `horizon`? only while it is pending -/
def expectedCbLeft (cfg : Cfg) (batches : List Batch) (horizon : Nat) : Bool :=
  expectedOutcome cfg batches horizon = .pending

/-- C17 on one observed wait -/
def holds (cfg : Cfg) (batches : List Batch) (horizon : Nat) (outcome : Outcome) (sends : List Nat) (cbLeft : Bool) : Bool :=
  outcome == expectedOutcome cfg batches horizon &&
  sends == expectedSends cfg batches horizon &&
  cbLeft == expectedCbLeft cfg batches horizon

end Indi.Spec.Wait
