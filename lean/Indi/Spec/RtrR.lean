/-
  Reference semantics of re-entrant routing, over histories: every `process_message` call — the outer one and every
  call an endpoint makes from inside its handler — delivers to exactly `Spec.Rtr.expected` of the history so far
  (nested sends are appended to the history when they happen), depth-first.
-/
import Indi.Spec.Rtr
import Indi.Model.RtrR

namespace Indi.Spec.Rtr
open Indi.Rtr

structure AccR where
  h : List Op
  rs : List Reaction
  log : List (Nat × Target)

def specR : Nat → AccR → Nat → RMsg → Sender → AccR
  | 0, a, _, _, _ => a
  | fuel + 1, a, mid, m, sender =>
    let h1 := a.h ++ [Op.send m sender]
    let targets := expected h1 (devicesOf a.h) (clientsOf a.h) m sender
    targets.foldl (fun a t =>
      let a' : AccR := { a with log := a.log ++ [(mid, t)] }
      match popReaction t a'.rs with
      | some (r, rs') => specR fuel { a' with rs := rs' } r.id r.msg (senderOf t)
      | none => a') { a with h := h1 }

def expectedTraceR : List Op → List Reaction → List Op → List (List (Nat × Target))
  | _, _, [] => []
  | h, rs, op :: rest =>
    match op with
    | .send m s =>
      let a := specR (rs.length + 1) { h := h, rs := rs, log := [] } 0 m s
      a.log :: expectedTraceR a.h a.rs rest
    | op => [] :: expectedTraceR (h ++ [op]) rs rest

end Indi.Spec.Rtr
