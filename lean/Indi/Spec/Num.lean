/-
  Specification side of C10: an independent reader of number text under the
  INDI conventions, and the resolution of each format.

  `denote` does not follow `str_to_num`: it splits off the sign, splits the
  magnitude at the separators `:` `;` blank into one, two or three fields,
  reads each field as a decimal and weights them 1, 1/60, 1/3600.  The sign
  applies to the whole magnitude.
-/
import Indi.Model.Num

namespace Indi.Spec.Num
open Indi Indi.Num

def isSep (c : Char) : Bool := c = ':' || c = ';' || c = ' '

/-- split at separators (keeps empty fields) -/
def splitFields : Str → List Str
  | [] => [[]]
  | c :: cs =>
    match splitFields cs with
    | [] => [[c]]          -- unreachable
    | f :: fs => if isSep c then [] :: f :: fs else (c :: f) :: fs

/-- a decimal field: digits, optionally a point and more digits; at least one digit -/
def fieldVal (f : Str) : Option Rat :=
  let ip := f.takeWhile pyIsDigit
  let r := f.dropWhile pyIsDigit
  match r with
  | [] => if ip.isEmpty then none else some (digitsVal ip)
  | '.' :: fr =>
    if fr.all pyIsDigit && (!ip.isEmpty || !fr.isEmpty) then some (decimalVal ip fr) else none
  | _ => none

/-- the value a number text denotes under the INDI conventions -/
def denote (x : Str) : Option Rat :=
  let (neg, body) := match x with
    | '-' :: r => (true, r)
    | '+' :: r => (false, r)
    | r => (false, r)
  let mag : Option Rat :=
    match (splitFields body).map fieldVal with
    | [some a] => some a
    | [some a, some b] => some (a + b / 60)
    | [some a, some b, some c] => some (a + b / 60 + c / 3600)
    | _ => none
  mag.map fun m => if neg then -m else m

/-- the sexagesimal formats of the INDI protocol and the number of smallest units per whole they show
(a protocol fact, pinned here: the oracle must not move with the table the model regenerates from the code) -/
def specSexaBase : Nat → Option Nat
  | 3 => some 60          -- :mm
  | 5 => some 600         -- :mm.m
  | 6 => some 3600        -- :mm:ss
  | 8 => some 36000       -- :mm:ss.s
  | 9 => some 360000      -- :mm:ss.ss
  | _ => none

/-- what one unit of the last rendered place is worth -/
def resolution : Fmt → Option Rat
  | .sexa frac => (specSexaBase frac).map fun b => 1 / (b : Rat)
  | .f _ _ prec => some (1 / (10 : Rat) ^ prec)
  | .d _ _ _ => some 1

def absR (x : Rat) : Rat := if x < 0 then -x else x

/-- C10 for one rendering, evaluated on what the implementation produced:
the text is accepted by the validator, denotes `x` within the resolution, and parses back within it -/
def renderHolds (fmt : Fmt) (x : Rat) (text : Str) (validatorAccepts : Bool) (parsedBack : Option Rat) : Bool :=
  match resolution fmt, denote text, parsedBack with
  | some res, some v, some back =>
    validatorAccepts && numberOk text && decide (absR (v - x) ≤ res) && decide (absR (back - x) ≤ res)
  | _, _, _ => false

/-- C10 for one number text a peer may send: accepted by the validator and parsed to the value it denotes
(integers exactly, everything else to within binary64 rounding) -/
def parseHolds (text : Str) (validatorAccepts : Bool) (isInt : Bool) (parsed : Option Rat) : Bool :=
  match denote text, parsed with
  | some v, some got =>
    validatorAccepts && (if isInt then decide (got = v) else decide (absR (got - v) * 2 ^ 52 ≤ absR v))
  | _, _ => false

end Indi.Spec.Num
