/-
  Specification of routing (C04, C05), written over *histories* rather than
  over the router's state:

  * `policyOf h c d` — "the value of client c's most recent accepted
    enableBLOB for device d since c's last registration, else Never";
  * `allows` — Never: everything except BLOB payload updates, Also:
    everything, Only: nothing but BLOB payload updates;
  * `clientsOf h`, `devicesOf h` — who is registered, in registration order.
-/
import Indi.Model.Rtr

namespace Indi.Spec.Rtr
open Indi.Rtr

def allows : Policy → Bool → Bool
  | .never, isBlobUpdate => !isBlobUpdate
  | .also, _ => true
  | .only, isBlobUpdate => isBlobUpdate

/-- is client `c` registered after history `h`?  (the last register/unregister
operation naming `c` decides) -/
def registered : List Op → Nat → Bool
  | [], _ => false
  | op :: rest, c =>
    -- `rest` is the *earlier* part: histories are consumed from the newest operation
    match op with
    | .regCli c' => if c' = c then true else registered rest c
    | .unreg c' => if c' = c then false else registered rest c
    | _ => registered rest c

/-- history function on the reversed history (newest operation first) -/
def policyOfRev : List Op → Nat → Option Str → Policy
  | [], _, _ => .never
  | op :: rest, c, d =>
    match op with
    | .regCli c' => if c' = c then .never else policyOfRev rest c d
    | .unreg c' => if c' = c then .never else policyOfRev rest c d
    | .send m (.cli c') =>
      if m.fromClient && m.isEnableBlob && c' = c && m.device = d && registered rest c then m.value
      else policyOfRev rest c d
    | _ => policyOfRev rest c d

def policyOf (h : List Op) (c : Nat) (d : Option Str) : Policy := policyOfRev h.reverse c d

def devicesOf (h : List Op) : List Dev :=
  h.filterMap fun op => match op with
    | .regDev d => some d
    | _ => none

/-- the API precondition: an endpoint is not registered while it is registered -/
def wellFormedRev : List Op → Bool
  | [] => true
  | op :: rest =>
    wellFormedRev rest &&
    match op with
    | .regCli c => !registered rest c
    | .regDev d => !(devicesOf rest).any fun d' => d'.id = d.id
    | _ => true

def WellFormed (h : List Op) : Prop := wellFormedRev h.reverse = true

/-- C04: the devices a client-originated message must reach -/
def devicesFor (devices : List Dev) (m : RMsg) (sender : Sender) : List Target :=
  (devices.filter fun d => Sender.dev d.id ≠ sender && accepts d m.device).map fun d => Target.dev d.id

/-- C05: the clients a device-originated message must reach -/
def clientsFor (h : List Op) (clients : List Nat) (m : RMsg) (sender : Sender) : List Target :=
  (clients.filter fun c => Sender.cli c ≠ sender && allows (policyOf h c m.device) m.isBlob).map Target.cli

/-- the full expected delivery list of one `process_message` after history `h`
(`h` includes the send itself, so that an enableBLOB takes effect for its own relay) -/
def expected (h : List Op) (devices : List Dev) (clients : List Nat) (m : RMsg) (sender : Sender) : List Target :=
  (if m.fromClient then devicesFor devices m sender else []) ++
  (if m.fromDevice then clientsFor h clients m sender else [])

end Indi.Spec.Rtr

namespace Indi.Spec.Rtr
open Indi.Rtr

/-- registered clients in registration order, as a function of the history -/
def clientsOf (h : List Op) : List Nat :=
  h.foldl (fun cs op => match op with
    | .regCli c => cs ++ [c]
    | .unreg c => removeFirst c cs
    | _ => cs) []

/-- what each operation of a history must deliver, computed from the history alone -/
def expectedTrace (h : List Op) : List (List Target) :=
  (List.range h.length).map fun i =>
    match (h[i]? : Option Op) with
    | some (Op.send m sd) =>
      expected (h.take (i + 1)) (devicesOf (h.take i)) (clientsOf (h.take i)) m sd
    | _ => []

end Indi.Spec.Rtr
