/-
  Specification side of the message layer, written from the INDI protocol
  vocabulary by hand and independently of the class tables.

  `conformant m` is C13's "every constrained field is conformant":
  vocabulary-valued fields are present and members of the protocol's
  vocabularies, required attributes are present, children are of the kind the
  vector requires, number text (when present) has number syntax.
-/
import Indi.Model.Msg

namespace Indi.Spec
open Indi

def states : List Str := [s "Idle", s "Ok", s "Busy", s "Alert"]
def perms : List Str := [s "ro", s "wo", s "rw"]
def rules : List Str := [s "OneOfMany", s "AtMostOne", s "AnyOfMany"]
def switchStates : List Str := [s "On", s "Off"]
def blobModes : List Str := [s "Never", s "Also", s "Only"]

/-- what the protocol demands of the text value of an element -/
inductive ValueReq where
  | free                         -- any text or none
  | vocab (vals : List Str)      -- present and a member
  | numberOrAbsent               -- number syntax when present
deriving DecidableEq, Repr

structure PartReq where
  tag : Str
  required : List Str            -- attributes that must be present
  value : ValueReq
deriving DecidableEq, Repr

structure MsgReq where
  tag : Str
  required : List Str
  vocab : List (Str × List Str)  -- attribute must be present and a member
  value : ValueReq
  childTag : Option Str          -- `none`: the message has no children
deriving DecidableEq, Repr

def partReqs : List PartReq := [
  { tag := s "defText",   required := [s "name"], value := .free },
  { tag := s "defNumber", required := [s "name", s "format", s "min", s "max", s "step"], value := .numberOrAbsent },
  { tag := s "defSwitch", required := [s "name"], value := .vocab switchStates },
  { tag := s "defLight",  required := [s "name"], value := .vocab states },
  { tag := s "defBLOB",   required := [s "name"], value := .free },
  { tag := s "oneText",   required := [s "name"], value := .free },
  { tag := s "oneNumber", required := [s "name"], value := .numberOrAbsent },
  { tag := s "oneSwitch", required := [s "name"], value := .vocab switchStates },
  { tag := s "oneLight",  required := [s "name"], value := .vocab states },
  { tag := s "oneBLOB",   required := [s "name", s "size", s "format"], value := .free }
]

def defReq (tag child : String) (writable : Bool) (hasRule : Bool) : MsgReq :=
  { tag := s tag,
    required := [s "device", s "name"],
    vocab := [(s "state", states)] ++ (if writable then [(s "perm", perms)] else [])
               ++ (if hasRule then [(s "rule", rules)] else []),
    value := .free,
    childTag := some (s child) }

def setReq (tag child : String) : MsgReq :=
  { tag := s tag, required := [s "device", s "name"], vocab := [(s "state", states)],
    value := .free, childTag := some (s child) }

def newReq (tag child : String) : MsgReq :=
  { tag := s tag, required := [s "device", s "name"], vocab := [], value := .free, childTag := some (s child) }

def msgReqs : List MsgReq := [
  defReq "defTextVector" "defText" true false,
  defReq "defNumberVector" "defNumber" true false,
  defReq "defSwitchVector" "defSwitch" true true,
  defReq "defLightVector" "defLight" false false,
  defReq "defBLOBVector" "defBLOB" true false,
  setReq "setTextVector" "oneText",
  setReq "setNumberVector" "oneNumber",
  setReq "setSwitchVector" "oneSwitch",
  setReq "setLightVector" "oneLight",
  setReq "setBLOBVector" "oneBLOB",
  newReq "newTextVector" "oneText",
  newReq "newNumberVector" "oneNumber",
  newReq "newSwitchVector" "oneSwitch",
  newReq "newBLOBVector" "oneBLOB",
  { tag := s "getProperties", required := [s "version"], vocab := [], value := .free, childTag := none },
  { tag := s "enableBLOB", required := [s "device"], vocab := [], value := .vocab blobModes, childTag := none },
  { tag := s "delProperty", required := [s "device"], vocab := [], value := .free, childTag := none },
  { tag := s "message", required := [], vocab := [], value := .free, childTag := none },
  { tag := s "pingRequest", required := [s "uid"], vocab := [], value := .free, childTag := none },
  { tag := s "pingReply", required := [s "uid"], vocab := [], value := .free, childTag := none },
  -- not a protocol message; the library registers it, so its value is held to the light vocabulary
  { tag := s "oneLight", required := [s "name"], vocab := [], value := .vocab states, childTag := none }
]

def present (fields : List (Str × Option Str)) (k : Str) : Bool :=
  match alookup k fields with
  | some (some _) => true
  | _ => false

def member (fields : List (Str × Option Str)) (k : Str) (vals : List Str) : Bool :=
  match alookup k fields with
  | some (some v) => vals.contains v
  | _ => false

def valueOk (fields : List (Str × Option Str)) : ValueReq → Bool
  | .free => true
  | .vocab vals => member fields (s "value") vals
  | .numberOrAbsent =>
    match alookup (s "value") fields with
    | some (some v) => numberOk v
    | _ => true

def findPartReq (tag : Str) : Option PartReq := partReqs.find? fun r => r.tag = tag
def findMsgReq (tag : Str) : Option MsgReq := msgReqs.find? fun r => r.tag = tag

def conformantPart (p : Part) : Bool :=
  match findPartReq p.tag with
  | none => false
  | some r => r.required.all (present p.fields) && valueOk p.fields r.value

def conformant (m : Msg) : Bool :=
  match findMsgReq m.tag with
  | none => false
  | some r =>
    r.required.all (present m.fields) &&
    r.vocab.all (fun (kv : Str × List Str) => member m.fields kv.1 kv.2) &&
    valueOk m.fields r.value &&
    (match r.childTag, m.children with
     | none, none => true
     | none, some _ => false
     | some t, some ps => ps.all fun p => p.tag = t && conformantPart p
     | some _, none => false)

end Indi.Spec
