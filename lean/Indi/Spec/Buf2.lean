/-
  Stronger stream vocabulary: junk gaps of ANY length (only message bodies
  have to fit the threshold), and corrupt prefixes.
-/
import Indi.Spec.Buf

namespace Indi.Buf

variable {M : Type}

/-- like `StreamOk`, but gaps (and the final gap) may be arbitrarily long: only bodies must fit the threshold -/
structure StreamOk2 (parse : Str → ParseRes M) (tags : List Str) (threshold : Option Nat)
    (segs : List (Seg M)) (final : Str) : Prop where
  seg : ∀ sg ∈ segs, Admissible parse tags sg.body sg.msg ∧ NoOpener tags sg.gap ∧ fits threshold sg.body
  final : NoOpener tags final

/-- a corrupt prefix: nothing that starts inside it is ever a complete XML document — neither a
piece of it nor any extension of it by whatever follows -/
def Corrupt (parse : Str → ParseRes M) (c : Str) : Prop :=
  ∀ i, i < c.length → ∀ x, (x <+: c.drop i ∨ c.drop i <+: x) → parse x = .notXml

end Indi.Buf
