/-
  Oracle for C09: the rule invariants evaluated on an *observed* transition
  (state before, the operation, the snapshots published during it, state after).
-/
import Indi.Model.Switch

namespace Indi.Spec.Switch
open Indi.Switch

/-- indices an operation names -/
def named : Op → List Nat
  | .assign i _ => [i]
  | .write ch => ch.map (·.1)
  | .select ns => ns

def unchangedOutside (ns : List Nat) (before s : List Bool) : Bool :=
  s.length == before.length &&
    (List.range before.length).all fun j => ns.contains j || s[j]? == before[j]?

/-- C09 on one observed transition -/
def holds (rule : Rule) (before : List Bool) (op : Op) (snaps : List (List Bool)) (after : List Bool) : Bool :=
  let all := snaps ++ [after]
  (match rule with
   | .anyOfMany =>
     (match op with
      | .select _ => true        -- names the whole vector
      | _ => all.all (unchangedOutside (named op) before))
   | _ => (decide (countOn before ≤ 1) → all.all fun s => decide (countOn s ≤ 1))) &&
  (match rule with
   | .oneOfMany => (decide (countOn before = 1) → all.all fun s => decide (countOn s = 1))
   | _ => true) &&
  (match op with
   | .assign i true => decide (i < before.length) → after[i]? == some true
   | .write [(i, true)] => decide (i < before.length) → after[i]? == some true
   | _ => true)

end Indi.Spec.Switch
