/-
  Vocabulary for the character-level theorems: which elements the writer can serialise so that
  the parser reads them back unchanged ("any text XML can carry", carriage return excluded in
  text — the property's own exclusion; in attribute values it is escaped and survives).
-/
import Indi.Model.Xml

namespace Indi.Xml
open Indi

/-- every character is an XML `Char` -/
def safeChars (x : Str) : Bool := x.all xmlChar

def nodupKeys : List (Str × Str) → Bool
  | [] => true
  | kv :: rest => !(rest.any fun kv' => kv'.1 = kv.1) && nodupKeys rest

/-- attribute list the writer/parser pair preserves: ASCII names other than `xmlns`, no name twice, values over XML `Char` -/
def attrsOk (l : List (Str × Str)) : Bool :=
  l.all (fun kv => isName kv.1 && kv.1 != s "xmlns" && safeChars kv.2) && nodupKeys l

def textOk (t : Str) : Bool := safeChars t && !t.contains '\r'

def elem1Ok (e : Elem1) : Bool := isName e.tag && attrsOk e.attrs && textOk e.text

def elemOk (e : Elem) : Bool := isName e.tag && attrsOk e.attrs && textOk e.text && e.children.all elem1Ok

/-- every `<` of `x` is followed by a character other than `!` and `?` (true of everything the writer produces) -/
def noBangQ : Str → Bool
  | '<' :: c :: rest => c != '!' && c != '?' && noBangQ (c :: rest)
  | _ :: rest => noBangQ rest
  | [] => true

end Indi.Xml
