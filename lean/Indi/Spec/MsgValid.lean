/-
  C03's "valid protocol message", decidably: a wire view whose class is registered, whose
  attributes are those of the class (in `__dict__` order), whose required attributes are
  present and whose guarded attributes pass the guard of their class — i.e. exactly the
  messages the library's constructors produce from arguments a parser could also deliver.
-/
import Indi.Model.Msg
import Indi.Spec.Dev

namespace Indi.Spec.MsgValid
open Indi

def guardOk (g : Guard) (v : Option Str) : Bool :=
  match g, v with
  | .any, _ => true
  | .oneOf vals, v => vals.contains v
  | .number, none => true
  | .number, some t => numberOk t
  | .children _, _ => true

/-- `isPart`: `IndiMessagePart.from_xml` always passes `value` (possibly `None`), so a part's text may be
absent even where the constructor lists `value` as a required keyword (oneBLOB) -/
def fieldOk (isPart : Bool) (c : ClassSpec) (f : FieldSpec) (v : Option Str) : Bool :=
  guardOk f.guard v &&
  (match f.source with
   | some p => !c.required.contains p || v.isSome || (isPart && p = s "value")
   | none => v.isNone)

def scalarSpecs (c : ClassSpec) : List FieldSpec := c.fields.filter fun f => f.name ≠ s "children"

def fieldsOk (isPart : Bool) (c : ClassSpec) (fields : List (Str × Option Str)) : Bool :=
  fields.map Prod.fst == (scalarSpecs c).map (·.name) &&
  ((scalarSpecs c).zip fields).all fun (f, kv) => fieldOk isPart c f kv.2

def childTagsOf (c : ClassSpec) : Option (List Str) :=
  match c.fields.find? fun f => f.name = s "children" with
  | some { guard := .children tags, .. } => some tags
  | _ => none

def validPart (reg : Registry) (p : Part) : Bool :=
  match findClass p.tag reg.parts with
  | none => false
  | some c => c.supported && fieldsOk true c p.fields

def valid (reg : Registry) (m : Msg) : Bool :=
  match findClass m.tag reg.messages with
  | none => false
  | some c =>
    c.supported && fieldsOk false c m.fields &&
    (match childTagsOf c, m.children with
     | none, none => true
     | some tags, some ps => ps.all fun p => tags.contains p.tag && validPart reg p
     | _, _ => false)

end Indi.Spec.MsgValid
