/-
  Specification vocabulary for framing (C02, C11) at the abstract level:
  the parser is arbitrary; a stream is a sequence of (junk gap, message body)
  segments followed by a final gap.
-/
import Indi.Model.Buf

namespace Indi.Buf

variable {M : Type}

/-- some known opener `'<' ++ tag` starts somewhere in `x` -/
def HasOpener (tags : List Str) (x : Str) : Prop := ∃ i, startsKnown tags (x.drop i) = true

/-- junk that does not imitate a protocol element: no known opener starts anywhere in it -/
def NoOpener (tags : List Str) (g : Str) : Prop := ∀ i, startsKnown tags (g.drop i) = false

/-- (A1) whatever parses as a message contains the opener of a known tag
(true of `IndiMessage.from_string`: the root start tag must be spelled out) -/
def ParserNeedsOpener (parse : Str → ParseRes M) (tags : List Str) : Prop :=
  ∀ x m, parse x = .msg m → HasOpener tags x

/-- (A2) no tag contains `'<'` (decidable on the registry) -/
def TagsOk (tags : List Str) : Prop := ∀ t ∈ tags, '<' ∉ t

/-- `body` is an admissible encoding of `m`: it starts with a known opener, parses to `m`,
no proper prefix is a complete XML document, and it ends with `'>'` preceded by some other character -/
structure Admissible (parse : Str → ParseRes M) (tags : List Str) (body : Str) (m : M) : Prop where
  starts : startsKnown tags body = true
  parses : parse body = .msg m
  minimal : ∀ k, k < body.length → parse (body.take k) = .notXml
  ending : ∃ pre c, body = pre ++ [c, '>'] ∧ c ≠ '>'

structure Seg (M : Type) where
  gap : Str
  body : Str
  msg : M

def fits (threshold : Option Nat) (x : Str) : Prop :=
  match threshold with
  | none => True
  | some t => x.length ≤ t

/-- the character stream: gap₁ body₁ gap₂ body₂ … final -/
def encode : List (Seg M) → Str → Str
  | [], final => final
  | sg :: rest, final => sg.gap ++ sg.body ++ encode rest final

/-- how many messages have their last character within the first `n` characters of the stream -/
def countDone : List (Seg M) → Nat → Nat
  | [], _ => 0
  | sg :: rest, n =>
    let len := sg.gap.length + sg.body.length
    if len ≤ n then 1 + countDone rest (n - len) else 0

structure StreamOk (parse : Str → ParseRes M) (tags : List Str) (threshold : Option Nat)
    (segs : List (Seg M)) (final : Str) : Prop where
  seg : ∀ sg ∈ segs, Admissible parse tags sg.body sg.msg ∧ NoOpener tags sg.gap ∧ fits threshold (sg.gap ++ sg.body)
  final : NoOpener tags final ∧ fits threshold final

end Indi.Buf
