/-
  Specification side of the driver framework (C07, C12, C14):

  * `Device.WF` — what a well-formed driver definition/state is (decidable);
  * `expectedDefs` — the definitions a getProperties request must elicit;
  * `norm` / `sameUpToNorm` — C03's normalisation (surrounding whitespace of text
    values is trimmed, empty text equals absent text);
  * `writeContract` — the event contract of C14 as the simplest possible trace
    generator, written without reference to `Dev.assign`.
-/
import Indi.Model.Dev

namespace Indi.Spec.Dev
open Indi Indi.Dev

/-! ### well-formed devices -/

def perms : List Str := [s "ro", s "wo", s "rw"]

def fmtOk (f : Str) : Bool :=
  match Num.parseFmt f with
  | some (.sexa frac) => (Num.sexaBase frac).isSome
  | some _ => true
  | none => false

/-- the value an element holds is of its kind (and, for numbers, finite) -/
def valueOk (k : Kind) (v : Value) : Bool :=
  match k, v with
  | .text, .none => true
  | .text, .text _ => true
  | .number, .none => true
  | .number, .num x _ => !tooBig x
  | .switch, .text t => t = s "On" || t = s "Off"
  | .light, .text t => states.contains t
  | .blob, .none => true
  | .blob, .blob _ _ => true
  | _, _ => false

def elemOk (k : Kind) (e : Dev.Elem) : Bool :=
  valueOk k e.value &&
  (match e.d.refresh with
   | none => true
   | some v => valueOk k v && (k = .text || k = .number)) &&
  (k != .number || fmtOk e.d.format)

def vecOk (v : Vec) : Bool :=
  states.contains v.state &&
  (match v.kind with
   | .light => true
   | .switch => (match v.perm with | some p => perms.contains p | none => false) && v.timeout.isSome && v.rule.isSome
   | _ => (match v.perm with | some p => perms.contains p | none => false) && v.timeout.isSome) &&
  v.elems.all (elemOk v.kind)

/-- distinct property names per device (so that `driver._vectors` holds every vector) -/
def namesDistinct (d : Device) : Bool :=
  let names := (allVecs d).map fun gv => gv.2.name
  decide names.Nodup

def WF (d : Device) : Bool :=
  d.groups.all (fun g => g.vecs.all vecOk) && namesDistinct d

/-! ### C07: the response to getProperties -/

def isDef (m : Msg) : Bool := m.tag.take 3 = s "def"

/-- is this vector asked for? (`name` absent or empty: every property) -/
def wanted (name : Option Str) (v : Vec) : Bool :=
  match name with
  | none => true
  | some n => n.isEmpty || v.name = n

/-- the definitions a request must elicit: one per enabled, wanted property, in definition order -/
def expectedDefs (d : Device) (name : Option Str) : List Msg :=
  (allVecs d).filterMap fun gv =>
    if vecEnabled gv.1 gv.2 && wanted name gv.2 then
      match defMsg d.name gv.1 gv.2 with
      | .ok m => some m
      | .error _ => none
    else none

/-! ### C03 normalisation on wire views -/

def normVal (v : Option Str) : Option Str :=
  match v with
  | none => none
  | some t => let u := pyStrip t; if u.isEmpty then none else some u

def normFields (fs : List (Str × Option Str)) : List (Str × Option Str) :=
  fs.map fun (k, v) => if k = s "value" then (k, normVal v) else (k, v)

def normPart (p : Part) : Part := { p with fields := normFields p.fields }

def norm (m : Msg) : Msg :=
  { m with fields := normFields m.fields, children := m.children.map fun ps => ps.map normPart }

/-- reading a serialised message back gives the same message up to normalisation -/
def readsBack (reg : Registry) (m : Msg) : Bool :=
  match fromXml reg (toXml m) with
  | .ok m' => norm m' == norm m
  | .error _ => false

/-! ### C14: the event contract, as a trace generator -/

structure Contract where
  calls : List Call          -- plain handlers, in order
  tasks : List Call          -- coroutine handlers, in creation order
  stored : Bool              -- did the element take the value?
  published : Nat            -- number of updates published
deriving Repr

/-- what a client write (`set_value`) of `requested` on an element holding `old` must do, given the
subscribed handlers, whether the property is enabled and what the element holds afterwards (`now`:
the requested value as the element accepts it, e.g. after the switch rule) -/
def writeContract (wh : List WriteH) (ch : List ChangeH) (enabled : Bool) (old requested now : Value) : Contract :=
  let w (h : WriteH) : Call := { handler := h.id, kind := .write, old := .none, new := requested,
                                  seen := if h.async then .none else old, task := h.async }
  let c (h : ChangeH) : Call := { handler := h.id, kind := .change, old := old, new := now,
                                   seen := if h.async then .none else now, task := h.async }
  let wPlain := (wh.filter fun h => !h.async).map w
  let wTask := (wh.filter fun h => h.async).map w
  if wh.any (fun h => !h.async && h.veto) then
    { calls := wPlain, tasks := wTask, stored := false, published := 0 }
  else
    let changed := pyNe old now
    { calls := wPlain ++ (if changed then (ch.filter fun h => !h.async).map c else []),
      tasks := wTask ++ (if changed then (ch.filter fun h => h.async).map c else []),
      stored := true, published := if enabled then 1 else 0 }

end Indi.Spec.Dev

namespace Indi.Spec.Dev
open Indi Indi.Dev

/-! ### oracles evaluated on observed behaviour -/

def hasRefresh (e : Dev.Elem) : Bool := e.d.refresh.isSome

/-- two element lists agree except where `free i e` allows a difference (elements with a refreshing Read handler are always free) -/
def elemsAgree (free : Nat → Dev.Elem → Bool) (a b : List Dev.Elem) : Bool :=
  a.length == b.length &&
    (a.zip b).zipIdx.all fun ((x, y), i) => free i x || hasRefresh x || (x.value == y.value && x.enabled == y.enabled)

def vecAgree (free : Nat → Dev.Elem → Bool) (a b : Vec) : Bool :=
  a.state == b.state && a.enabled == b.enabled && elemsAgree free a.elems b.elems

/-- C12 on one observed client message: nothing raised; no group/vector flag or state changed; every element
of every other property is unchanged; in the addressed property only elements named by a child (or, for
switches, their siblings under the rule) may differ -/
def c12Holds (before : Device) (m : Msg) (raised : Bool) (after : Device) : Bool :=
  !raised &&
  before.groups.length == after.groups.length &&
  (before.groups.zip after.groups).all fun (g, g') =>
    g.enabled == g'.enabled && g.vecs.length == g'.vecs.length &&
    (g.vecs.zip g'.vecs).all fun (v, v') =>
      let addressed := m.tag.take 3 = s "new" && (alookup (s "name") m.fields).getD none == some v.name
                        && newTag v.kind == some m.tag
      if addressed then
        let named : List Str := (m.children.getD []).filterMap fun p => (alookup (s "name") p.fields).getD none
        vecAgree (fun _ e => named.contains e.d.name || v.kind == .switch) v v'
      else vecAgree (fun _ _ => false) v v'

/-- C14 on one observed write/assignment of `requested` to the element at `a` -/
def c14Holds (before : Device) (a : Addr) (isWrite : Bool) (requested : Value) (raised : Bool)
    (calls tasks : List Call) (published : Nat) (after : Device) : Option Bool :=
  match getVec before a.g a.v, getVec after a.g a.v with
  | some (g, v), some (_, v') =>
    match v.elems[a.e]?, v'.elems[a.e]? with
    | some e, some e' =>
      if raised || v.elems.any hasRefresh then none     -- the contract speaks about accepted writes without refreshing Read handlers
      else
        let c := writeContract (if isWrite then e.d.writeH else []) e.d.changeH (vecEnabled g v) e.value requested e'.value
        some (c.calls == calls && c.tasks == tasks && c.published == published &&
              (c.stored || (e'.value == e.value)) &&
              -- a stored text/number/BLOB value is the requested one (switches: subject to the rule)
              (!c.stored || v.kind == .switch || !pyNe e'.value requested))
    | _, _ => none
  | _, _ => none

/-- C07 on one observed getProperties: the definitions published are exactly the expected ones, and nothing else
but delProperty notices for disabled properties is published -/
def c07Holds (before : Device) (name : Option Str) (published : List Msg) : Bool :=
  published.filter isDef == expectedDefs before name &&
  published.all fun m => isDef m || m.tag = s "delProperty"

end Indi.Spec.Dev

/-! ### C14 under re-entrancy: handlers that assign from inside a handler

  The contract is per assignment: every accepted driver-side assignment (also one a handler makes while an
  event is being dispatched) whose stored value differs from the previous one is announced to every
  subscribed Change handler exactly once with (old, new); an assignment that changes nothing is
  announced to nobody.  Judged on what was observed: the assignments in the order they were
  performed and the handler invocations (as a multiset). -/

namespace Indi.Spec.Dev
open Indi.Dev

def countCalls (calls : List (Nat × Value × Value)) (h : Nat) (o n : Value) : Nat :=
  (calls.filter fun c => c.1 = h && !pyNe c.2.1 o && !pyNe c.2.2 n).length

def countAssigns (assigns : List (Value × Value)) (o n : Value) : Nat :=
  (assigns.filter fun a => pyNe a.1 a.2 && !pyNe a.1 o && !pyNe a.2 n).length

/-- every changing assignment is announced once to every handler, and nothing else is announced -/
def nestedHolds (handlers : List Nat) (assigns : List (Value × Value)) (calls : List (Nat × Value × Value)) : Bool :=
  calls.all (fun c => handlers.contains c.1 && pyNe c.2.1 c.2.2 &&
    countCalls calls c.1 c.2.1 c.2.2 == countAssigns assigns c.2.1 c.2.2) &&
  assigns.all (fun a => !pyNe a.1 a.2 || handlers.all fun h => countCalls calls h a.1 a.2 == countAssigns assigns a.1 a.2)

end Indi.Spec.Dev

/-! ### the enabled switches of groups and properties, as a function of the history alone

  "Enabled" is what the driver's code last said: `vector.enabled = b` sets that property's own switch, `group.enabled = b`
  the group's; a property is announced while both are on.  This specification does not look at the driver model's
  state evolution at all: the last assignment wins, nothing else touches a switch. -/

namespace Indi.Spec.Dev
open Indi.Dev

def lastGroupFlag (init : Bool) (g : Nat) : List Op → Bool
  | [] => init
  | .enableGroup g' b :: rest => lastGroupFlag (if g' = g then b else init) g rest
  | _ :: rest => lastGroupFlag init g rest

def lastVecFlag (init : Bool) (g v : Nat) : List Op → Bool
  | [] => init
  | .enableVec g' v' b :: rest => lastVecFlag (if g' = g && v' = v then b else init) g v rest
  | _ :: rest => lastVecFlag init g v rest

/-- the observed device carries exactly the switches the history assigned -/
def flagsHold (init : Device) (ops : List Op) (obs : Device) : Bool :=
  obs.groups.length == init.groups.length &&
  (List.range init.groups.length).all fun gi =>
    match init.groups[gi]?, obs.groups[gi]? with
    | some g0, some g1 =>
      g1.enabled == lastGroupFlag g0.enabled gi ops &&
      g1.vecs.length == g0.vecs.length &&
      (List.range g0.vecs.length).all fun vi =>
        match g0.vecs[vi]?, g1.vecs[vi]? with
        | some v0, some v1 => v1.enabled == lastVecFlag v0.enabled gi vi ops
        | _, _ => false
    | _, _ => false

end Indi.Spec.Dev
