/-
  System level (C01, C06, C08): what a client that performed the handshake must see of a
  device, stated as a relation between a driver state (`Dev.Device`) and a client mirror
  (`Cli.Mirror`):

  the client knows exactly the currently enabled properties of the device — each with the
  device's state, label and group and exactly its enabled elements with their labels and
  their current values as they travel on the wire (numbers as the property's format renders
  them, text trimmed, empty text = absent) — and no others.  A BLOB payload is not part of a
  definition: a BLOB element is either still unset in the mirror or equals the device's.
-/
import Indi.Model.Dev
import Indi.Model.Cli
import Indi.Spec.Dev
import Indi.Spec.Num
import Indi.Spec.Rtr
import Indi.Model.Sys

namespace Indi.Spec.Sys
open Indi Indi.Dev Indi.Cli

def vkind : Kind → VKind
  | .text => .text | .number => .number | .switch => .switch | .light => .light | .blob => .blob

/-- the text a value travels as -/
def wireText (k : Kind) (fmt : Str) (v : Value) : Option (Option Str) :=
  match k, v with
  | .number, .num x isInt =>
    -- as the driver renders it: `'%.2f' % n` of a Python int goes through a float first (`Dev.preRound`)
    (match Num.numToStr Num.exactIEEE fmt (preRound fmt isInt x) with
     | .ok t => some (Spec.Dev.normVal (some t))
     | _ => none)
  | .number, .none => some none
  | .blob, _ => none                      -- compared separately
  | _, .text t => some (Spec.Dev.normVal (some t))
  | _, .none => some none
  | _, _ => none

/-- does the mirror's element show the device's element? -/
def elemShown (k : Kind) (e : Dev.Elem) (c : CElem) : Bool :=
  c.name == some e.d.name && c.label == some e.d.label &&
  (match k with
   | .blob =>
     (match c.value, readValue e with
      | .none, _ => true                                        -- not transferred yet (definitions carry no payload)
      | .blob bs f, .blob bs' f' => bs == bs' && f == f'
      | .blob [] (some []), .none => true                       -- an unset BLOB travels as size 0, format ""
      | _, _ => false)
   | _ =>
     -- up to C03's normalisation on both sides (a network client reads trimmed text, an in-process one the object itself)
     (match c.value with
      | .none => wireText k e.d.format (readValue e) == some none
      | .text t => wireText k e.d.format (readValue e) == some (Spec.Dev.normVal (some t))
      | .blob _ _ => false))

/-- does the mirror's property show the device's property? (element order: definition order of the enabled elements) -/
def vecShown (blobs : Bool) (g : Group) (v : Vec) (c : CVec) : Bool :=
  c.kind == vkind v.kind && c.name == some v.name && c.group == some g.name && c.label == some v.label &&
  -- a client that did not enable BLOBs for the device is not sent setBLOBVector at all (the protocol's
  -- enableBLOB Never): of a BLOB property it knows the definition, not the updates
  (if v.kind == .blob && !blobs then
     (let en := v.elems.filter (·.enabled)
      c.elems.length == en.length && (en.zip c.elems).all fun (e, ce) =>
        ce.1 == some e.d.name && ce.2.name == some e.d.name && ce.2.label == some e.d.label)
   else
   c.state == some v.state &&
   (let en := v.elems.filter (·.enabled)
    c.elems.length == en.length && (en.zip c.elems).all fun (e, ce) => ce.1 == some e.d.name && elemShown v.kind e ce.2))

/-- C01: the client sees exactly the enabled properties of the device, each faithfully, and no others -/
def synced (blobs : Bool) (d : Device) (σ : Mirror) : Bool :=
  match olook (some d.name) σ with
  | none => (allVecs d).all fun gv => !vecEnabled gv.1 gv.2
  | some cd =>
    ((allVecs d).all fun gv =>
      if vecEnabled gv.1 gv.2 then
        (match olook (some gv.2.name) cd.vecs with
         | some c => vecShown blobs gv.1 gv.2 c
         | none => false)
      else (olook (some gv.2.name) cd.vecs).isNone) &&
    cd.vecs.all fun nv => (allVecs d).any fun gv => some gv.2.name == nv.1 && vecEnabled gv.1 gv.2

end Indi.Spec.Sys

namespace Indi.Spec.Sys
open Indi Indi.Dev Indi.Cli

/-- the value an element must hold after a client submitted `w` for it (text as it travels; numbers as denoted) -/
def writtenOk (k : Kind) (w : Value) (after : Value) : Bool :=
  match k, w with
  | .text, .text t =>
    (match Spec.Dev.normVal (some t) with
     | some u => after == .text u
     | none => after == .none)
  | .number, .text t =>
    (match Indi.Spec.Num.denote (pyStrip t), after with
     | some q, .num x isInt => if isInt then x == q else decide (Indi.Spec.Num.absR (x - q) * 2 ^ 52 ≤ Indi.Spec.Num.absR q)
     | _, _ => false)
  | .switch, .text _ => true                 -- subject to the rule (C09); checked on the whole vector below
  | .blob, .blob bs f => after == .blob bs f
  | _, _ => false

/-- C06 on one observed client write: exactly the named elements of the addressed property of the addressed
device took the submitted values; nothing else anywhere changed -/
def c06Holds (before : Device) (dname prop : Str) (written : List (Str × Value)) (after : Device) : Bool :=
  if before.name != dname then before == after else
  before.groups.length == after.groups.length &&
  (before.groups.zip after.groups).all fun (g, g') =>
    g.enabled == g'.enabled && g.vecs.length == g'.vecs.length &&
    (g.vecs.zip g'.vecs).all fun (v, v') =>
      v.state == v'.state && v.enabled == v'.enabled && v.elems.length == v'.elems.length &&
      (v.elems.zip v'.elems).all fun (e, e') =>
        e.enabled == e'.enabled &&
        (if v.name == prop then
           (match written.reverse.find? fun nv => nv.1 == e.d.name with
            | some nv => writtenOk v.kind nv.2 e'.value
            | none => v.kind == .switch || e.value == e'.value)
         else e.value == e'.value)

def mirrorElem (σ : Mirror) (dev vec elem : Str) : Option CVal :=
  match olook (some dev) σ with
  | some d => (match olook (some vec) d.vecs with
    | some v => (olook (some elem) v.elems).map (·.value)
    | none => none)
  | none => none

/-- C08 on one observed BLOB publication: a client whose policy allows BLOBs holds identical bytes and format,
any other client's element is as before -/
def c08Holds (allowed : Bool) (dev : Device) (gi vi ei : Nat) (before after : Mirror) : Bool :=
  match getVec dev gi vi with
  | some (g, v) =>
    (match v.elems[ei]? with
     | some e =>
       if !vecEnabled g v || !e.enabled then true else
       let now := mirrorElem after dev.name v.name e.d.name
       if allowed then
         (match readValue e with
          | .blob bs f => now == some (.blob bs f)
          | .none => now == some (.blob [] (some []))
          | _ => false)
       else now == mirrorElem before dev.name v.name e.d.name
     | none => false)
  | none => false

end Indi.Spec.Sys

/-! ### the deployment (Model/Sys.lean) -/

namespace Indi.Spec.Sys
open Indi Indi.Dev Indi.Cli Indi.Sys

/-- C01 for one peer: it sees every device as it is, and no device that does not exist -/
def peerSynced (devs : List Device) (p : Peer) : Bool :=
  (devs.all fun d => synced p.blobs d p.mirror) &&
  p.mirror.all fun nd => devs.any fun d => some d.name == nd.1

/-- C01: every connected peer that performed the handshake sees every device as it is -/
def allSynced (w : World) : Bool := w.peers.all (peerSynced w.devs)

/-- the value a client submitted, as a driver value (C06's `written` list) -/
def asValue : CVal → Value
  | .none => .none
  | .text t => .text t
  | .blob bs f => .blob bs f

end Indi.Spec.Sys
