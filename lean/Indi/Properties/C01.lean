/-
  C01 — the client view converges to the device's true property state.

  Model of the deployment: Indi/Model/Sys.lean (drivers + router fan-out + wire + client mirrors; a network peer
  reads BLOB updates from its BLOB connection and the rest from its control connection, interleaved in any way).
  Spec: Indi/Spec/Sys.lean (`synced`, `allSynced`) - the predicate the check evaluates on the real deployment.

  INTERIM STATE of the proof side: the links of the chain are proved separately,
    * `Dev.C07_response`     a handshake is answered by exactly the definitions of the enabled properties,
    * `Dev.step_wf`          every driver operation keeps the driver well-formed,
    * `Dev.C07_emitted_valid` every definition/update a driver emits is read back by the library's own parser
                              unchanged up to normalisation,
    * `C03_roundtrip`        so is every valid message,
    * `Cli.C15_stream`       the client mirror tracks a definition/update/deletion stream exactly,
  and are re-exported here; the composed statement over `Sys.nextOk` (`C01_start`, `C01_step`, `C01_converges`)
  is stated in DESIGN.md and is the next proof to land in this file.
-/
import Indi.Spec.Sys
import Indi.Properties.DevA
import Indi.Properties.DevB
import Indi.Properties.C03
import Indi.Properties.C15

namespace Indi.Sys
open Indi Indi.Dev Indi.Cli

theorem C01_link_handshake (d : Device) (hwf : Spec.Dev.WF d = true) (m : Msg) (hm : m.tag = s "getProperties") :
    Spec.Dev.c07Holds d ((alookup (s "name") m.fields).getD none) (fromClient d m).msgs = true :=
  Dev.C07_response d hwf m hm

theorem C01_link_wf (d : Device) (hwf : Spec.Dev.WF d = true) (op : Dev.Op) : Spec.Dev.WF (Dev.step d op).dev = true :=
  Dev.step_wf d hwf op

theorem C01_link_emitted (d : Device) (hwf : Spec.Dev.WF d = true) (op : Dev.Op)
    (hfd : Dev.devFormats d = true) (hfo : Dev.opFormats op = true) :
    ∀ m ∈ (Dev.step d op).msgs, Spec.Dev.readsBack Generated.registry m = true :=
  Dev.C07_emitted_valid d hwf op hfd hfo

theorem C01_link_wire (m : Msg) (h : Spec.MsgValid.valid Generated.registry m = true) :
    Spec.Dev.readsBack Generated.registry m = true :=
  C03_roundtrip m h

end Indi.Sys
