/-
  C01 — the client view converges to the device's true property state.

  Model: Indi/Model/Sys.lean (drivers + router fan-out + wire + client mirrors; after every operation all traffic
  is delivered; a network peer reads BLOB updates from its BLOB connection and the rest from its control
  connection, interleaved in any way: `outcomes`, `nextOk`).
  Spec:  Indi/Spec/Sys.lean (`synced`, `peerSynced`, `allSynced`) - the very predicate the check evaluates on the
  real deployment's observed drivers and mirrors.
  Proofs: Indi/Proofs/Sys.lean (Sys1 … Sys12, SysWire, SysB64).

  The theorems are proved for ALL interleavings (`nextOk`).  Relative to the first draft of the statements the
  hypotheses were completed as follows; every addition is needed — the statement without it is false, see the
  counterexamples at the end of this file (each evaluated by the kernel) and NOTES.md:

    worldOk   + BLOB values held by a driver carry a format                     (C01_needs_format)
              + … and consist of bytes                                           (C01_needs_bytes)
              + the enabled elements of a property have distinct names           (C01_needs_distinct_elements)
    opInScope + BLOB values assigned / written carry a format and are bytes      (C01_needs_assign_format,
                                                                                  C01_needs_assign_bytes, C01_needs_write_format)
    peersOk   (new, `C01_step` only) a mirror is a dict of dicts: no property name twice under a device
                                                                                 (C01_needs_dict_mirror)
-/
import Indi.Spec.Sys
import Indi.Generated.Registry
import Indi.Proofs.Sys

namespace Indi.Sys
open Indi Indi.Dev Indi.Cli Indi.Spec.Sys

abbrev reg := Generated.registry

/-- a value that, if it is a BLOB, is a proper `values.BLOB`: its format is a `str` (not `None`) and its content `bytes` -/
def blobOk : Value → Bool
  | .blob bs f => f.isSome && bs.all fun b => decide (b < 256)
  | _ => true

/-- operations in C01's scope: value assignments, state changes, enabling/disabling of properties and groups,
client writes, handshakes (for everything, a device, a property).  Element-level enabling publishes nothing (and is
not in the property); raw client messages enter through `.write` / `.handshake`.
A BLOB value assigned by the driver must be a proper BLOB (`blobOk`: without a format the update it publishes is
not a valid `setBLOBVector` and network clients drop it - `C01_needs_assign_format`; the byte condition is a typing
invariant of the model, Python `bytes` - `C01_needs_assign_bytes`); a BLOB value written by a client must carry a
format (an in-process client hands the message over as an object: `C01_needs_write_format`). -/
def opInScope : Op → Bool
  | .driver _ (.enableElem _ _) => false
  | .driver _ (.client _) => false
  | .driver _ (.assign _ v) => blobOk v
  | .driver _ (.setValue _ v) => blobOk v
  | .write _ _ _ writes => writes.all fun w => match w.2 with | .blob _ none => false | _ => true
  | _ => true

/-- the properties the theorem speaks about -/
def vecOk' (v : Vec) : Bool :=
  -- every BLOB value held carries a format and consists of bytes (else its setBLOBVector is dropped / decoded to
  -- something else by network clients: `C01_needs_format`, `C01_needs_bytes`)
  (v.elems.all fun e => blobOk e.value) &&
  -- the enabled elements have distinct names (the client keeps a dict by name: `C01_needs_distinct_elements`)
  decide ((v.elems.filter (·.enabled)).map (·.d.name)).Nodup

/-- the deployments the theorem speaks about (decidable): -/
def worldOk (devs : List Device) : Bool :=
  -- well-formed drivers (`Spec.Dev.WF`: values of the element's kind, valid states/perms/formats, distinct property names)
  devs.all (fun d => Spec.Dev.WF d) &&
  -- distinct device names
  decide (devs.map (·.name)).Nodup &&
  -- BLOB values are proper BLOBs, enabled elements have distinct names
  devs.all (fun d => d.groups.all fun g => g.vecs.all vecOk')

/-- the mirrors `C01_step` speaks about: Python dicts - a device entry holds a property name at most once
(the model's association lists could hold it twice; then `delProperty` removes one entry only: `C01_needs_dict_mirror`).
Every mirror built by `processMessage` from the empty one is like that (`C01_step` re-establishes it). -/
def peersOk (peers : List Peer) : Bool :=
  peers.all fun p => p.mirror.all fun nd => decide (nd.2.vecs.map (·.1)).Nodup

/-! ### glue between the decidable hypotheses and the lemma library -/

theorem blobOk_iff (v : Value) : blobOk v = true ↔ DevB.hasFormat v = true ∧ SysP.bytesOk v = true := by
  cases v with
  | blob bs f => cases f <;> simp [blobOk, DevB.hasFormat, SysP.bytesOk]
  | _ => simp [blobOk, DevB.hasFormat, SysP.bytesOk]

theorem vecOk'_iff (v : Vec) (hok : Spec.Dev.vecOk v = true) : vecOk' v = true ↔ SysP.VG v := by
  simp only [vecOk', Bool.and_eq_true, List.all_eq_true, decide_eq_true_eq]
  constructor
  · rintro ⟨h1, h2⟩
    refine ⟨hok, ?_, ?_, ?_⟩
    · simp only [DevB.vecFmt, List.all_eq_true]
      exact fun e he => ((blobOk_iff _).1 (h1 e he)).1
    · simp only [SysP.vecBytes, List.all_eq_true]
      exact fun e he => ((blobOk_iff _).1 (h1 e he)).2
    · simp only [SysP.vecNames, SysP.enabledElems]; exact decide_eq_true h2
  · intro h
    refine ⟨?_, ?_⟩
    · intro e he
      have h1 := h.fmt
      have h2 := h.bytes
      simp only [DevB.vecFmt, List.all_eq_true] at h1
      simp only [SysP.vecBytes, List.all_eq_true] at h2
      exact (blobOk_iff _).2 ⟨h1 e he, h2 e he⟩
    · have := h.names
      simp only [SysP.vecNames, SysP.enabledElems] at this; exact of_decide_eq_true this

theorem worldOk_iff (devs : List Device) : worldOk devs = true ↔ SysP.DevsOK devs := by
  simp only [worldOk, Bool.and_eq_true, List.all_eq_true, decide_eq_true_eq, SysP.DevsOK, SysP.DevOK]
  constructor
  · rintro ⟨⟨h1, h2⟩, h3⟩
    refine ⟨fun d hd => ⟨h1 d hd, ?_⟩, h2⟩
    intro gi vi g v hg
    obtain ⟨hgm, hvm⟩ := DevB.getVec_mem hg
    have hg' := List.mem_of_getElem? hgm
    have hv' := List.mem_of_getElem? hvm
    exact (vecOk'_iff v (DevBResp.devOk_of_WF (h1 d hd) gi vi g v hg)).1 (h3 d hd g hg' v hv')
  · rintro ⟨h1, h2⟩
    refine ⟨⟨fun d hd => (h1 d hd).1, h2⟩, ?_⟩
    intro d hd g hg v hv
    obtain ⟨gi, hgi⟩ := List.mem_iff_getElem?.1 hg
    obtain ⟨vi, hvi⟩ := List.mem_iff_getElem?.1 hv
    have hgv : getVec d gi vi = some (g, v) := Dev.getVec_eq_some.2 ⟨hgi, hvi⟩
    exact (vecOk'_iff v (DevBResp.devOk_of_WF (h1 d hd).1 gi vi g v hgv)).2 ((h1 d hd).2 gi vi g v hgv)

theorem peersOk_iff (peers : List Peer) : peersOk peers = true ↔ SysP.PeersWf peers := by
  simp only [peersOk, List.all_eq_true, decide_eq_true_eq, SysP.PeersWf, SysP.VWf]

theorem opInScope_ok {op : Op} (h : opInScope op = true) : SysP.OpOK op := by
  cases op with
  | driver di o =>
    cases o with
    | assign a v =>
      simp only [opInScope] at h
      simp only [SysP.OpOK, SysP.devOpOk, Bool.and_eq_true]
      exact (blobOk_iff v).1 h
    | setValue a v =>
      simp only [opInScope] at h
      simp only [SysP.OpOK, SysP.devOpOk, Bool.and_eq_true]
      exact (blobOk_iff v).1 h
    | state g v st => rfl
    | enableVec g v b => rfl
    | enableGroup g b => rfl
    | enableElem a b => cases h
    | client m => cases h
  | write ci dev prop writes =>
    simp only [opInScope, List.all_eq_true] at h
    intro w hw
    have := h w hw
    cases hv : w.2 with
    | blob bs f => rw [hv] at this; cases f <;> simp_all [SysP.cvalFmt]
    | none => rfl
    | text t => rfl
  | handshake ci dev name => trivial

/-! ### the theorems -/

/-- **C01** (initial convergence): once every peer has connected and performed the getProperties handshake, every
peer sees every device as it is -/
theorem C01_start (devs : List Device) (kinds : List (Bool × Bool × Bool)) (h : worldOk devs = true) :
    allSynced (start reg devs kinds) = true :=
  (SysP.start_synced devs kinds ((worldOk_iff devs).1 h)).1

/-- **C01** (preservation): from a deployment in which every peer sees every device as it is, any operation in
scope, followed by delivery of all traffic under ANY interleaving of each peer's two connections, leads to a
deployment in which every peer again sees every device as it is (and which is again well-formed) -/
theorem C01_step (w w' : World) (op : Op) (hok : worldOk w.devs = true)
    (hm : peersOk w.peers = true)          -- mirrors are dicts (see `peersOk`)
    (hs : allSynced w = true)
    (hop : opInScope op = true) (hn : nextOk reg w op w' = true) :
    allSynced w' = true ∧ worldOk w'.devs = true ∧ peersOk w'.peers = true := by
  obtain ⟨h1, h2, h3⟩ := SysP.world_next ((worldOk_iff _).1 hok) ((peersOk_iff _).1 hm) hs (opInScope_ok hop) hn
  exact ⟨h1, (worldOk_iff _).2 h2, (peersOk_iff _).2 h3⟩

/-- the deployments reachable from the start by operations in scope, under any delivery schedules -/
inductive Reach (devs : List Device) (kinds : List (Bool × Bool × Bool)) : World → Prop
  | start : Reach devs kinds (start reg devs kinds)
  | step (w w' : World) (op : Op) : Reach devs kinds w → opInScope op = true → nextOk reg w op w' = true → Reach devs kinds w'

/-- every reachable deployment is in sync, well-formed, and its mirrors are dicts -/
theorem C01_invariant (devs : List Device) (kinds : List (Bool × Bool × Bool)) (h : worldOk devs = true)
    (w : World) (hr : Reach devs kinds w) :
    allSynced w = true ∧ worldOk w.devs = true ∧ peersOk w.peers = true := by
  induction hr with
  | start =>
    obtain ⟨h1, h2, h3⟩ := SysP.start_synced devs kinds ((worldOk_iff devs).1 h)
    exact ⟨h1, (worldOk_iff _).2 h2, (peersOk_iff _).2 h3⟩
  | step w w' op _ hop hn ih =>
    exact C01_step w w' op ih.2.1 ih.2.2 ih.1 hop hn

/-- **C01**: after ANY sequence of driver-side updates and client-side writes, once all in-flight messages are
delivered, every connected peer sees exactly the device's currently enabled properties, each with the device's
current state, metadata and element values, and no others -/
theorem C01_converges (devs : List Device) (kinds : List (Bool × Bool × Bool)) (h : worldOk devs = true)
    (w : World) (hr : Reach devs kinds w) : allSynced w = true :=
  (C01_invariant devs kinds h w hr).1

/-! ### the hypotheses are satisfiable, and each added one is needed -/

namespace Ex

def elem (n : String) (v : Value) : Dev.Elem := { d := { name := s n, label := s n }, value := v, enabled := true }

def blobVec (v : Value) : Vec :=
  { name := s "B", label := s "B", kind := .blob, perm := some (s "rw"), timeout := some (s "0"), rule := none,
    state := s "Idle", enabled := true, elems := [elem "b" v] }

def textVec (es : List Dev.Elem) : Vec :=
  { name := s "T", label := s "T", kind := .text, perm := some (s "rw"), timeout := some (s "0"), rule := none,
    state := s "Idle", enabled := true, elems := es }

def dev (vs : List Vec) : Device := { name := s "D", groups := [{ name := s "G", enabled := true, vecs := vs }] }

/-- a network client (control + BLOB connection) -/
def net : Bool × Bool × Bool := (true, false, false)
/-- an in-process snooping client -/
def snoop : Bool × Bool × Bool := (false, true, false)

/-- the draft of `worldOk`: well-formed drivers with distinct names -/
def worldOk₀ (devs : List Device) : Bool := devs.all (fun d => Spec.Dev.WF d) && decide (devs.map (·.name)).Nodup

def ok : Str := s "Ok"

/-- a network client that enabled BLOBs on its control connection as well (`enableBLOB Also`) -/
def also : Bool × Bool × Bool := (true, false, true)

/-- one device with a text and a BLOB property -/
def good : Device := dev [textVec [elem "a" (.text (s "x")), elem "c" .none], blobVec (.blob [1, 2, 255] (some (s ".bin")))]

end Ex

open Ex in
/-- the hypotheses are satisfiable by a non-trivial deployment (one device with a text and a BLOB property; a
network peer, a snooping peer and a network peer with `enableBLOB Also`): it starts in sync and stays in sync under
a state change that transfers the BLOB, a client write from the snooping peer and a write of a BLOB from the
network peer (in-order schedule); the operations are in scope -/
example :
    worldOk [good] = true ∧
    allSynced (start reg [good] [net, snoop, also]) = true ∧ peersOk (start reg [good] [net, snoop, also]).peers = true ∧
    opInScope (.driver 0 (.state 0 1 (some ok))) = true ∧
    opInScope (.write 1 (s "D") (s "T") [(s "a", .text (s " y "))]) = true ∧
    opInScope (.write 0 (s "D") (s "B") [(s "b", .blob [7] (some (s ".x")))]) = true ∧
    allSynced (run reg (start reg [good] [net, snoop, also])
      [.driver 0 (.state 0 1 (some ok)), .write 1 (s "D") (s "T") [(s "a", .text (s " y "))],
       .write 0 (s "D") (s "B") [(s "b", .blob [7] (some (s ".x")))]]) = true := by
  decide +kernel

open Ex in
/-- `worldOk` needs "BLOB values carry a format": a driver holding `BLOB(b"\x01", None)` (accepted by `WF`) starts
in sync (definitions carry no payload), but the `setBLOBVector` its next state change publishes has no `format`
attribute, the network client's parser rejects it (`format` is a required keyword of oneBLOB) and the client keeps
state `Idle` while the driver holds `Ok` -/
theorem C01_needs_format :
    let devs := [dev [blobVec (.blob [1] none)]]
    let w := start reg devs [net]
    let op : Op := .driver 0 (.state 0 0 (some ok))
    worldOk₀ devs = true ∧ peersOk w.peers = true ∧ allSynced w = true ∧ opInScope op = true ∧
      nextOk reg w op (step reg w op) = true ∧ allSynced (step reg w op) = false := by
  decide +kernel

open Ex in
/-- `worldOk` needs "BLOB values consist of bytes" (a typing invariant of the model: a Python `bytes` cannot hold
256): `B64.encode [256]` is the text of the byte 252, which is what the client then holds -/
theorem C01_needs_bytes :
    let devs := [dev [blobVec (.blob [256] (some (s ".x")))]]
    let w := start reg devs [net]
    let op : Op := .driver 0 (.state 0 0 (some ok))
    worldOk₀ devs = true ∧ peersOk w.peers = true ∧ allSynced w = true ∧ opInScope op = true ∧
      nextOk reg w op (step reg w op) = true ∧ allSynced (step reg w op) = false := by
  decide +kernel

open Ex in
/-- `worldOk` needs "enabled elements of a property have distinct names": `defTextVector` lists both elements
named `a`, the client's `{ch.name: ch for ch in children}` keeps one - already `C01_start` fails -/
theorem C01_needs_distinct_elements :
    let devs := [dev [textVec [elem "a" (.text (s "x")), elem "a" (.text (s "y"))]]]
    worldOk₀ devs = true ∧ allSynced (start reg devs [net]) = false := by
  decide +kernel

open Ex in
/-- `opInScope` needs "an assigned BLOB value carries a format": the client holds the BLOB transferred before,
the driver assigns `BLOB(b"\x02", None)`, the update is not a valid `setBLOBVector`, the client keeps the old
payload (the same with `set_value`) -/
theorem C01_needs_assign_format :
    let devs := [dev [blobVec (.blob [1] (some (s ".x")))]]
    let w := step reg (start reg devs [net]) (.driver 0 (.state 0 0 (some ok)))
    let op : Op := .driver 0 (.assign ⟨0, 0, 0⟩ (.blob [2] none))
    let op' : Op := .driver 0 (.setValue ⟨0, 0, 0⟩ (.blob [2] none))
    worldOk w.devs = true ∧ peersOk w.peers = true ∧ allSynced w = true ∧
      nextOk reg w op (step reg w op) = true ∧ allSynced (step reg w op) = false ∧
      nextOk reg w op' (step reg w op') = true ∧ allSynced (step reg w op') = false := by
  decide +kernel

open Ex in
/-- `opInScope` needs "an assigned BLOB value consists of bytes" (model typing invariant, as `C01_needs_bytes`) -/
theorem C01_needs_assign_bytes :
    let devs := [dev [blobVec .none]]
    let w := start reg devs [net]
    let op : Op := .driver 0 (.assign ⟨0, 0, 0⟩ (.blob [300] (some (s ".x"))))
    worldOk w.devs = true ∧ peersOk w.peers = true ∧ allSynced w = true ∧
      nextOk reg w op (step reg w op) = true ∧ allSynced (step reg w op) = false := by
  decide +kernel

open Ex in
/-- `opInScope` needs "a BLOB value written by a client carries a format": the in-process (snooping) client
submits `newBLOBVector` with a `oneBLOB` whose format is `None` as an object (no parser in between), the driver
stores `BLOB(b"\x02", None)` and publishes an update the network client cannot parse: it keeps the old payload.
(The same write from the network client is rejected by the router's parser and changes nothing.) -/
theorem C01_needs_write_format :
    let devs := [dev [blobVec (.blob [1] (some (s ".x")))]]
    let w := step reg (start reg devs [net, snoop]) (.driver 0 (.state 0 0 (some ok)))
    let op : Op := .write 1 (s "D") (s "B") [(s "b", .blob [2] none)]
    worldOk w.devs = true ∧ peersOk w.peers = true ∧ allSynced w = true ∧
      nextOk reg w op (step reg w op) = true ∧ allSynced (step reg w op) = false := by
  decide +kernel

open Ex in
/-- `C01_step` needs `peersOk`: a mirror (as an association list) that holds the property `T` twice under the
device is `allSynced` with a driver whose `T` is enabled; when the driver disables `T`, `delProperty` removes one
entry and the other one stays visible.  (A Python dict cannot be in that state; no reachable mirror is.) -/
theorem C01_needs_dict_mirror :
    let c : CVec := { kind := .text, name := some (s "T"), group := some (s "G"), label := some (s "T"),
                      timestamp := none, message := none, state := some (s "Idle"), elems := [] }
    let w : World := { devs := [dev [textVec []]],
                       peers := [{ blobs := true, inproc := false,
                                   mirror := [(some (s "D"), { vecs := [(some (s "T"), c), (some (s "T"), c)] })] }] }
    let op : Op := .driver 0 (.enableVec 0 0 false)
    worldOk w.devs = true ∧ allSynced w = true ∧ opInScope op = true ∧ peersOk w.peers = false ∧
      nextOk reg w op (step reg w op) = true ∧ allSynced (step reg w op) = false := by
  decide +kernel

end Indi.Sys

