/-
  C18 — Every way a connection can end leaves the router clean and the others served.

  Both server transports funnel every way a connection can end — orderly EOF, a read error,
  EOF inside a message, junk then EOF, an exception while one of its messages is handled —
  into the same two actions: close the writer, `Router.unregister_client(self)`
  (`handler_func` / `handle`: `try: await wait_for_messages() except: log` then `close()`).
  That funnel is control flow of the handlers and is tied to the code by the `conn`
  correspondence (fault injection at every step).  What unregistration achieves is proved here
  on the router model, for every history: the connection is in neither `clients` nor
  `blob_routing`, nothing routed afterwards is delivered to it, every other connection keeps its
  registration and its policies, and a peer that reconnects starts from the default policy.
-/
import Indi.Proofs.RtrDeliver
import Indi.Properties.C05

namespace Indi.Rtr
open Indi.Spec.Rtr Indi

/-- after the connection ended (in a history without double registration) the router has forgotten it -/
theorem C18_forgotten (h : List Op) (hwf : WellFormed h) (c : Nat) :
    c ∉ (run (h ++ [.unreg c])).clients ∧ nlookup c (run (h ++ [.unreg c])).blob = none := by
  have hwf' : WellFormed (h ++ [.unreg c]) := by
    unfold WellFormed at *
    simp only [List.reverse_append, List.reverse_cons, List.reverse_nil, List.nil_append, List.cons_append, wellFormedRev,
      Bool.and_true]
    exact hwf
  obtain ⟨_, hmem⟩ := clients_are_registered (h ++ [.unreg c]) hwf'
  constructor
  · rw [hmem]
    simp [registered]
  · have hinv := inv_runRev (h ++ [Op.unreg c]).reverse
    rw [← run_eq_runRev] at hinv
    have := hinv.reg c
    simp only [List.reverse_append, List.reverse_cons, List.reverse_nil, List.nil_append, List.cons_append, registered,
      if_true] at this
    cases hl : nlookup c (run (h ++ [Op.unreg c])).blob with
    | none => rfl
    | some v => rw [hl] at this; simp at this

/-- no message routed afterwards is delivered to it, until it registers again -/
theorem C18_no_delivery_after (h : List Op) (hwf : WellFormed h) (c : Nat) (m : RMsg) (sd : Sender) :
    Target.cli c ∉ (step (run (h ++ [Op.unreg c])) (Op.send m sd)).2 := by
  intro hm
  have h1 := (C05_clients (h ++ [Op.unreg c]) m sd c).mp hm
  exact (C18_forgotten h hwf c).1 h1.2.1

/-- every other connection keeps its registration -/
theorem C18_others_stay (h : List Op) (hwf : WellFormed h) (c c' : Nat) (hne : c' ≠ c) :
    c' ∈ (run (h ++ [.unreg c])).clients ↔ c' ∈ (run h).clients := by
  have hwf' : WellFormed (h ++ [.unreg c]) := by
    unfold WellFormed at *
    simp only [List.reverse_append, List.reverse_cons, List.reverse_nil, List.nil_append, List.cons_append, wellFormedRev,
      Bool.and_true]
    exact hwf
  rw [(clients_are_registered _ hwf').2, (clients_are_registered _ hwf).2]
  have : ¬ c = c' := fun e => hne e.symm
  simp [registered, this]

/-- … and its policies, for every device -/
theorem C18_others_policies (h : List Op) (c c' : Nat) (hne : c' ≠ c) (d : Option Str) :
    policyOf (h ++ [.unreg c]) c' d = policyOf h c' d := by
  have : ¬ c = c' := fun e => hne e.symm
  simp [policyOf, policyOfRev, this]

/-- so what the others receive of later device traffic is what they would have received anyway -/
theorem C18_others_served (h : List Op) (hwf : WellFormed h) (c c' : Nat) (hne : c' ≠ c) (m : RMsg) (sd : Sender)
    (hm : (m.fromClient && m.isEnableBlob) = false) :
    Target.cli c' ∈ (step (run (h ++ [.unreg c])) (.send m sd)).2 ↔ Target.cli c' ∈ (step (run h) (.send m sd)).2 := by
  rw [C05_clients, C05_clients, C18_others_stay h hwf c c' hne,
    policyOf_send_other _ m sd hm, policyOf_send_other _ m sd hm, C18_others_policies h c c' hne]

/-- a peer that reconnects starts from the default settings -/
theorem C18_reconnect_default (h : List Op) (c : Nat) (d : Option Str) :
    policyOf (h ++ [.unreg c, .regCli c]) c d = .never := by
  simp [policyOf, policyOfRev]

/-! non-vacuity -/
example : (run (exHist5 ++ [.unreg 11])).clients = [10, 12] := by decide +kernel
example : (step (run (exHist5 ++ [.unreg 11])) (.send exBlob (.dev 0))).2 = [.cli 12] := by decide +kernel

end Indi.Rtr
