/-
  C14 — Driver event contract: Write, then default update and publication, then Change.
  The theorems `C14_write` and `C14_assign` are in Properties/DevA.lean; the contract itself
  (`Spec.Dev.writeContract`) is in Spec/Dev.lean.
-/
import Indi.Properties.DevA
