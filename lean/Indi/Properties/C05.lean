/-
  C05 — Device messages fan out to every client, subject to its BLOB policy.

  The policy is specified as a *history function* (`Spec.Rtr.policyOf`): the
  value of the client's most recent accepted enableBLOB for that device since
  its last registration, else Never.  The model keeps `blob_routing`; the
  refinement `Inv.pol` (Proofs/Rtr.lean) relates the two for every history.
-/
import Indi.Proofs.RtrDeliver
import Indi.Model.RtrGlue
import Indi.Generated.Registry
import Indi.Generated.Consts

namespace Indi.Rtr
open Indi.Spec.Rtr Indi

/-- the dict lookup the router performs equals the history function, for every history -/
theorem policy_refinement (h : List Op) (c : Nat) (d : Option Str) :
    policyLookup (run h) c d = policyOf h c d := by
  rw [run_eq_runRev]
  exact (inv_runRev h.reverse).pol c d

/-- **C05**: after any history, a device-originated message is delivered to client `c`
exactly when `c` is in the router's client list, is not the sender, and its policy for the
message's device allows the message -/
theorem C05_clients (h : List Op) (m : RMsg) (sd : Sender) (c : Nat) :
    Target.cli c ∈ (step (run h) (.send m sd)).2 ↔
      (m.fromDevice = true ∧ c ∈ (run h).clients ∧ Sender.cli c ≠ sd ∧
        allows (policyOf (h ++ [.send m sd]) c m.device) m.isBlob = true) := by
  rw [process_deliveries]
  simp only [expected, devicesFor, clientsFor, List.mem_append]
  constructor
  · rintro (hm | hm)
    · split at hm
      · obtain ⟨d, _, he⟩ := List.mem_map.mp hm
        cases he
      · cases hm
    · split at hm
      · rename_i hfd
        obtain ⟨c', hc', he⟩ := List.mem_map.mp hm
        simp only [Target.cli.injEq] at he
        subst he
        simp only [List.mem_filter, Bool.and_eq_true, decide_eq_true_eq] at hc'
        exact ⟨hfd, hc'.1, hc'.2.1, hc'.2.2⟩
      · cases hm
  · rintro ⟨hfd, hc, hs, ha⟩
    right
    simp only [hfd, if_true]
    exact List.mem_map.mpr ⟨c, by simp [List.mem_filter, hc, hs, ha], rfl⟩

/-- for a message that is not an enableBLOB the policy in force is that of the history before it -/
theorem policyOf_send_other (h : List Op) (m : RMsg) (sd : Sender) (hne : (m.fromClient && m.isEnableBlob) = false)
    (c : Nat) (d : Option Str) : policyOf (h ++ [.send m sd]) c d = policyOf h c d := by
  simp only [policyOf, List.reverse_append, List.reverse_cons, List.reverse_nil, List.nil_append, List.cons_append]
  cases sd with
  | nobody => simp [policyOfRev]
  | dev i => simp [policyOfRev]
  | cli c0 => simp [policyOfRev, hne]

/-- who is registered: under the API precondition the client list has no duplicates and
contains exactly the clients whose last register/unregister operation was a registration -/
theorem clients_are_registered (h : List Op) (hwf : WellFormed h) :
    (run h).clients.Nodup ∧ ∀ c, c ∈ (run h).clients ↔ registered h.reverse c = true := by
  rw [run_eq_runRev]
  exact clients_registered h.reverse hwf

/-- the three policies mean what the protocol says -/
theorem allows_table :
    (∀ b, allows .never b = !b) ∧ (∀ b, allows .also b = true) ∧ (∀ b, allows .only b = b) := by
  refine ⟨?_, ?_, ?_⟩ <;> intro b <;> cases b <;> rfl

/-- **independence**: an enableBLOB of client `c` for device `d` changes no other client's
policy and no other device's policy of the same client -/
theorem C05_frame (h : List Op) (m : RMsg) (c : Nat) (c' : Nat) (d' : Option Str)
    (hne : c' ≠ c ∨ d' ≠ m.device) :
    policyOf (h ++ [.send m (.cli c)]) c' d' = policyOf h c' d' := by
  simp only [policyOf, List.reverse_append, List.reverse_cons, List.reverse_nil, List.nil_append, List.cons_append]
  simp only [policyOfRev]
  rcases hne with h1 | h1
  · have : ¬ c = c' := fun e => h1 e.symm
    simp [this]
  · have : ¬ m.device = d' := fun e => h1 e.symm
    simp [this]

/-- a registered client's enableBLOB takes effect at once, for itself and that device -/
theorem C05_enable_takes_effect (h : List Op) (m : RMsg) (c : Nat)
    (hm : m.fromClient = true ∧ m.isEnableBlob = true) (hreg : registered h.reverse c = true) :
    policyOf (h ++ [.send m (.cli c)]) c m.device = m.value := by
  simp [policyOf, policyOfRev, hm.1, hm.2, hreg]

/-- re-registration (and unregistration) resets the client's policies to the default -/
theorem C05_reregister_resets (h : List Op) (c : Nat) (d : Option Str) :
    policyOf (h ++ [.regCli c]) c d = .never ∧ policyOf (h ++ [.unreg c]) c d = .never := by
  simp [policyOf, policyOfRev]

/-- the default policy of the repository is Never, as the specification assumes -/
theorem default_policy_is_never : Generated.defaultBlobPolicy = s "Never" := by decide +kernel

/-- the BLOB payload update is setBLOBVector, a device-originated class; every def*/set*
class, delProperty and message are device-originated in the repository's table -/
theorem C05_device_kinds :
    ∀ t ∈ [s "defTextVector", s "defNumberVector", s "defSwitchVector", s "defLightVector", s "defBLOBVector",
           s "setTextVector", s "setNumberVector", s "setSwitchVector", s "setLightVector", s "setBLOBVector",
           s "delProperty", s "message", s "getProperties"],
      ∃ c, findClass t Generated.messageClasses = some c ∧ c.fromDevice = true := by
  decide +kernel

/-! non-vacuity -/

def exHist5 : List Op :=
  [.regCli 10, .regCli 11, .regCli 12,
   .send { fromClient := true, fromDevice := false, isEnableBlob := true, isBlob := false, device := some (s "D"), value := .also } (.cli 11),
   .send { fromClient := true, fromDevice := false, isEnableBlob := true, isBlob := false, device := some (s "D"), value := .only } (.cli 12)]

def exBlob : RMsg := { fromClient := false, fromDevice := true, isEnableBlob := false, isBlob := true,
                       device := some (s "D"), value := .never }
def exText : RMsg := { exBlob with isBlob := false }

example : WellFormed exHist5 := by show wellFormedRev _ = true; decide +kernel
example : (step (run exHist5) (.send exBlob (.dev 0))).2 = [.cli 11, .cli 12] := by decide +kernel
example : (step (run exHist5) (.send exText (.dev 0))).2 = [.cli 10, .cli 11] := by decide +kernel

end Indi.Rtr
