/-
  C20 — Message equality is structural.

  `pyEq` is the model of `other.__class__ == self.__class__ and
  self.to_dict() == other.to_dict()` (indi/message/base.py); `Msg` is the wire
  view: kind, every attribute, text value, the complete ordered child list with
  each child's kind, attributes and value.  The theorem holds for every
  registry passing the decidable well-formedness check `regOk`; the instance
  for the table regenerated from the repository is discharged by `decide`.
-/
import Indi.Proofs.MsgEq
import Indi.Generated.Registry

namespace Indi

theorem class_unique {cs : List ClassSpec} (h : (cs.map (·.tag)).Nodup) {c c' : ClassSpec}
    (hc : c ∈ cs) (hc' : c' ∈ cs) (ht : c.tag = c'.tag) : c = c' := by
  induction cs with
  | nil => cases hc
  | cons x xs ih =>
    simp only [List.map_cons, List.nodup_cons] at h
    rcases List.mem_cons.mp hc with e1 | h1
    · rcases List.mem_cons.mp hc' with e2 | h2
      · rw [e1, e2]
      · subst e1
        exact (h.1 (List.mem_map.mpr ⟨c', h2, ht.symm⟩)).elim
    · rcases List.mem_cons.mp hc' with e2 | h2
      · subst e2
        exact (h.1 (List.mem_map.mpr ⟨c, h1, ht⟩)).elim
      · exact ih h.2 h1 h2

theorem children_not_mem_scalarNames (c : ClassSpec) : s "children" ∉ scalarNames c := by
  unfold scalarNames
  intro h
  obtain ⟨f, hf, hn⟩ := List.mem_map.mp h
  have := (List.mem_filter.mp hf).2
  simp [hn] at this

theorem regOk_parts {reg : Registry} (h : regOk reg = true) :
    (reg.parts.map (·.tag)).Nodup ∧ ∀ c ∈ reg.parts, classOk c = true := by
  simp only [regOk, Bool.and_eq_true, decide_eq_true_eq, List.all_eq_true] at h
  exact ⟨h.1.1.2, h.2⟩

theorem regOk_messages {reg : Registry} (h : regOk reg = true) :
    (reg.messages.map (·.tag)).Nodup ∧ ∀ c ∈ reg.messages, classOk c = true := by
  simp only [regOk, Bool.and_eq_true, decide_eq_true_eq, List.all_eq_true] at h
  exact ⟨h.1.1.1, h.1.2⟩

theorem classOk_names {c : ClassSpec} (h : classOk c = true) :
    (scalarNames c).Nodup ∧ s "_value" ∉ scalarNames c ∧ (childTags c).length ≤ 1 := by
  simp only [classOk, Bool.and_eq_true, decide_eq_true_eq, Bool.not_eq_true', List.contains_eq_mem,
    decide_eq_false_iff_not] at h
  exact ⟨h.1.1.1, h.1.1.2, h.2⟩

/-- two parts of the same kind compare equal exactly when they are equal -/
theorem partDictEq_iff {reg : Registry} (hreg : regOk reg = true) {p q : Part}
    (hp : p.Built reg) (hq : q.Built reg) (ht : p.tag = q.tag) :
    partDictEq p q = true ↔ p = q := by
  obtain ⟨c, hc, hct, hcf⟩ := hp
  obtain ⟨c', hc', hct', hcf'⟩ := hq
  obtain ⟨hnd, hok⟩ := regOk_parts hreg
  have : c = c' := class_unique hnd hc hc' (by rw [hct, hct', ht])
  subst this
  obtain ⟨hn, hv, _⟩ := classOk_names (hok c hc)
  unfold partDictEq
  rw [dictEq_dictOf_iff hcf hcf' hn hv (children_not_mem_scalarNames c)]
  constructor
  · intro h
    cases p; cases q
    simp_all
  · intro h; rw [h]

theorem childDictsEq_iff {reg : Registry} (hreg : regOk reg = true) {t : Str} :
    ∀ (xs ys : List Part), (∀ p ∈ xs, p.tag = t ∧ p.Built reg) → (∀ p ∈ ys, p.tag = t ∧ p.Built reg) →
      (childDictsEq xs ys = true ↔ xs = ys) := by
  intro xs
  induction xs with
  | nil =>
    intro ys _ _
    cases ys <;> simp [childDictsEq]
  | cons x xs ih =>
    intro ys hx hy
    cases ys with
    | nil => simp [childDictsEq]
    | cons y ys =>
      have hx0 := hx x List.mem_cons_self
      have hy0 := hy y List.mem_cons_self
      simp only [childDictsEq, Bool.and_eq_true, List.cons.injEq]
      rw [partDictEq_iff hreg hx0.2 hy0.2 (hx0.1.trans hy0.1.symm),
        ih ys (fun p hp => hx p (List.mem_cons_of_mem _ hp)) (fun p hp => hy p (List.mem_cons_of_mem _ hp))]

/-- **C20** for every well-formed registry: two constructed messages compare
equal exactly when they are of the same kind and agree on every attribute, on
the text value and on the complete ordered sequence of their children -/
theorem C20 {reg : Registry} (hreg : regOk reg = true) (a b : Msg)
    (ha : a.Built reg) (hb : b.Built reg) : pyEq a b = true ↔ a = b := by
  constructor
  · intro h
    simp only [pyEq, Bool.and_eq_true, beq_iff_eq] at h
    obtain ⟨⟨htag, hd⟩, hch⟩ := h
    obtain ⟨c, hc, hct, hcf, hcc, hcp⟩ := ha
    obtain ⟨c', hc', hct', hcf', hcc', hcp'⟩ := hb
    obtain ⟨hnd, hok⟩ := regOk_messages hreg
    have : c = c' := class_unique hnd hc hc' (by rw [hct, hct', htag])
    subst this
    obtain ⟨hn, hv, hlen⟩ := classOk_names (hok c hc)
    have hf := (dictEq_dictOf_iff hcf hcf' hn hv (children_not_mem_scalarNames c)).mp hd
    obtain ⟨ta, fa, cha⟩ := a
    obtain ⟨tb, fb, chb⟩ := b
    simp only at htag hf hch hcp hcp'
    subst htag hf
    cases cha with
    | none =>
      cases chb with
      | none => rfl
      | some y => simp at hch
    | some x =>
      cases chb with
      | none => simp at hch
      | some y =>
        simp only at hch
        -- all children of both messages have the single child tag of the class
        have hone : ∀ t t', t ∈ childTags c → t' ∈ childTags c → t = t' := by
          intro t t' h1 h2
          match hct : childTags c, h1, h2 with
          | [u], h1, h2 =>
            simp only [List.mem_singleton] at h1 h2; rw [h1, h2]
          | [], h1, _ => cases h1
          | _ :: _ :: _, _, _ => rw [hct] at hlen; simp at hlen
        cases x with
        | nil =>
          cases y with
          | nil => rfl
          | cons y0 ys => simp [childDictsEq] at hch
        | cons x0 xs =>
          have hx0 := (hcp _ rfl x0 List.mem_cons_self).1
          have := (childDictsEq_iff hreg (t := x0.tag) (x0 :: xs) y
            (fun p hp => ⟨hone _ _ (hcp _ rfl p hp).1 hx0, (hcp _ rfl p hp).2⟩)
            (fun p hp => ⟨hone _ _ (hcp' _ rfl p hp).1 hx0, (hcp' _ rfl p hp).2⟩)).mp hch
          rw [this]
  · intro h
    subst h
    obtain ⟨c, hc, hct, hcf, hcc, hcp⟩ := ha
    obtain ⟨hnd, hok⟩ := regOk_messages hreg
    obtain ⟨hn, hv, hlen⟩ := classOk_names (hok c hc)
    simp only [pyEq, Bool.and_eq_true, beq_iff_eq, true_and]
    refine ⟨(dictEq_dictOf_iff hcf hcf hn hv (children_not_mem_scalarNames c)).mpr rfl, ?_⟩
    cases hch : a.children with
    | none => rfl
    | some x =>
      simp only
      have hone : ∀ t t', t ∈ childTags c → t' ∈ childTags c → t = t' := by
        intro t t' h1 h2
        match hct : childTags c, h1, h2 with
        | [u], h1, h2 =>
          simp only [List.mem_singleton] at h1 h2; rw [h1, h2]
        | [], h1, _ => cases h1
        | _ :: _ :: _, _, _ => rw [hct] at hlen; simp at hlen
      cases x with
      | nil => rfl
      | cons x0 xs =>
        have hx0 := (hcp _ hch x0 List.mem_cons_self).1
        exact (childDictsEq_iff hreg (t := x0.tag) (x0 :: xs) (x0 :: xs)
          (fun p hp => ⟨hone _ _ (hcp _ hch p hp).1 hx0, (hcp _ hch p hp).2⟩)
          (fun p hp => ⟨hone _ _ (hcp _ hch p hp).1 hx0, (hcp _ hch p hp).2⟩)).mpr rfl

/-- the class table regenerated from the repository is well-formed -/
theorem generated_regOk : regOk Generated.registry = true := by decide +kernel

/-- **C20** on the repository's own class table -/
theorem C20_generated (a b : Msg) (ha : a.Built Generated.registry) (hb : b.Built Generated.registry) :
    pyEq a b = true ↔ a = b := C20 generated_regOk a b ha hb

/-- in particular: messages that differ in any child — not just the last one —
or in the number of children compare unequal -/
theorem C20_children_differ (a b : Msg) (ha : a.Built Generated.registry) (hb : b.Built Generated.registry)
    (h : a.children ≠ b.children) : pyEq a b = false := by
  cases hp : pyEq a b with
  | false => rfl
  | true => exact absurd (congrArg Msg.children ((C20_generated a b ha hb).mp hp)) h

/-! non-vacuity: a concrete two-child `setTextVector` is `Built`, and changing
its *first* child is detected -/

def exA : Msg :=
  { tag := s "setTextVector",
    fields := [(s "device", some (s "D")), (s "name", some (s "P")), (s "state", some (s "Ok")),
               (s "timeout", none), (s "timestamp", none), (s "message", none)],
    children := some [{ tag := s "oneText", fields := [(s "name", some (s "a")), (s "value", some (s "1"))] },
                      { tag := s "oneText", fields := [(s "name", some (s "b")), (s "value", some (s "2"))] }] }

def exB : Msg :=
  { exA with children := some [{ tag := s "oneText", fields := [(s "name", some (s "a")), (s "value", some (s "X"))] },
                               { tag := s "oneText", fields := [(s "name", some (s "b")), (s "value", some (s "2"))] }] }

def builtB (reg : Registry) (m : Msg) : Bool :=
  reg.messages.any fun c => c.tag = m.tag && m.fields.map Prod.fst = scalarNames c &&
    (m.children.isSome = hasChildren c) &&
    (m.children.getD []).all fun p => (childTags c).contains p.tag &&
      reg.parts.any fun pc => pc.tag = p.tag && p.fields.map Prod.fst = scalarNames pc

theorem built_of_builtB {reg : Registry} {m : Msg} (h : builtB reg m = true) : m.Built reg := by
  simp only [builtB, List.any_eq_true, Bool.and_eq_true, decide_eq_true_eq, List.all_eq_true,
    List.contains_eq_mem] at h
  obtain ⟨c, hc, ⟨⟨ht, hf⟩, hch⟩, hp⟩ := h
  refine ⟨c, hc, ht, hf, hch, ?_⟩
  intro ps hps p hpm
  rw [hps] at hp
  obtain ⟨h1, pc, hpc, h2, h3⟩ := hp p (by simpa using hpm)
  exact ⟨h1, pc, hpc, h2, h3⟩

example : exA.Built Generated.registry := built_of_builtB (by decide +kernel)
example : exB.Built Generated.registry := built_of_builtB (by decide +kernel)
example : pyEq exA exB = false := by decide +kernel
example : pyEq exA exA = true := by decide +kernel

end Indi
