/-
  C11 (continued) — junk of any length is transparent, and the receiver
  resynchronises after a truncated or corrupt element.
  Both theorems are proved; the helper lemmas are in Indi/Proofs/Buf2.lean.
-/
import Indi.Spec.Buf2
import Indi.Proofs.Buf
import Indi.Proofs.Buf2

namespace Indi.Buf

variable {M : Type}

/-- **junk never prevents or delays the valid messages around it**: as C02_abstract, but the
opener-free gaps between (before, after) the messages may have any length, also beyond the threshold -/
theorem C11_long_junk_transparent (parse : Str → ParseRes M) (tags : List Str) (threshold : Option Nat)
    (hA1 : ParserNeedsOpener parse tags) (hA2 : TagsOk tags)
    (segs : List (Seg M)) (final : Str) (hok : StreamOk2 parse tags threshold segs final)
    (pieces : List Str) (hpre : pieces.flatten <+: encode segs final) :
    (session parse tags threshold [] pieces).1.flatten =
      (segs.take (countDone segs pieces.flatten.length)).map (·.msg) := by
  have h := session_stream2 parse tags threshold hA1 hA2 final pieces segs hok [] []
    (Or.inl (cleanup_nil tags).symm) (by simpa using hpre)
    (countDone_zero2 parse tags threshold segs final hok)
  simpa using h

/-- **resynchronisation**: with the threshold enabled, after a corrupt prefix `c` (nothing starting
inside it ever parses) every message of the valid stream that follows is delivered, in order, and
nothing else, once the whole stream has arrived — provided the valid stream alone is longer than
the threshold ("once enough further data has arrived") -/
theorem C11_resync (parse : Str → ParseRes M) (tags : List Str) (t : Nat)
    (hA1 : ParserNeedsOpener parse tags) (hA2 : TagsOk tags)
    (c : Str) (hc : Corrupt parse c)
    (segs : List (Seg M)) (final : Str) (hok : StreamOk2 parse tags (some t) segs final)
    (hlong : t < (encode segs final).length)
    (pieces : List Str) (hp : pieces.flatten = c ++ encode segs final) :
    (session parse tags (some t) [] pieces).1.flatten = segs.map (·.msg) := by
  by_cases hcn : c = []
  · subst hcn
    simp only [List.nil_append] at hp
    have h := session_stream2 parse tags (some t) hA1 hA2 final pieces segs hok [] []
      (Or.inl (cleanup_nil tags).symm) (by simp [hp])
      (countDone_zero2 parse tags (some t) segs final hok)
    rw [h, hp]
    simp [countDone_all]
  · have hpos : 0 < c.length := List.length_pos_iff.2 hcn
    exact session_corrupt parse tags t hA1 hA2 c hc segs final hok hlong pieces [] 0 hpos
      (Nat.le_refl _) (by simp) (by simpa using hp)

end Indi.Buf
