/-
  C02 — Stream framing is lossless, ordered and independent of fragmentation
  (abstract level: arbitrary parser, arbitrary tags, both threshold modes).

  `session` is the model of repeated `Buffer.append; Buffer.process`
  (Model/Buf.lean); the stream vocabulary (`Admissible`, `StreamOk`,
  `countDone`) is in Spec/Buf.lean, the lemmas (cleanup absorbs, find on a
  complete body / on a proper prefix, one-shot, session invariant) in
  Proofs/Buf.lean.
-/
import Indi.Spec.Buf
import Indi.Proofs.Buf
import Indi.Generated.Registry
import Indi.Generated.Consts

namespace Indi.Buf

variable {M : Type}

/-- **C02 (abstract)**: feed ANY list of pieces whose concatenation is a prefix of an
admissible stream; the messages delivered so far are exactly the messages whose last
character has arrived — each once, in order, and no later than the `process` call that
follows the arrival of that character (apply the theorem to every prefix of the partition) -/
theorem C02_abstract (parse : Str → ParseRes M) (tags : List Str) (threshold : Option Nat)
    (hA1 : ParserNeedsOpener parse tags) (hA2 : TagsOk tags)
    (segs : List (Seg M)) (final : Str) (hok : StreamOk parse tags threshold segs final)
    (pieces : List Str) (hpre : pieces.flatten <+: encode segs final) :
    (session parse tags threshold [] pieces).1.flatten =
      (segs.take (countDone segs pieces.flatten.length)).map (·.msg) := by
  have h := session_stream parse tags threshold hA1 hA2 final pieces segs hok []
    (by simpa using hpre) (countDone_zero parse tags threshold segs final hok)
  simpa [cleanup_nil] using h

/-- fragmentation independence, as a corollary: two partitions of the same prefix deliver the same sequence -/
theorem C02_fragmentation_independent (parse : Str → ParseRes M) (tags : List Str) (threshold : Option Nat)
    (hA1 : ParserNeedsOpener parse tags) (hA2 : TagsOk tags)
    (segs : List (Seg M)) (final : Str) (hok : StreamOk parse tags threshold segs final)
    (p q : List Str) (hp : p.flatten <+: encode segs final) (hpq : p.flatten = q.flatten) :
    (session parse tags threshold [] p).1.flatten = (session parse tags threshold [] q).1.flatten := by
  rw [C02_abstract parse tags threshold hA1 hA2 segs final hok p hp,
    C02_abstract parse tags threshold hA1 hA2 segs final hok q (hpq ▸ hp), hpq]

/-- (A2) on the repository's class table: no tag contains `'<'` -/
theorem generated_tagsOk : TagsOk (Generated.messageClasses.map (·.tag)) := by
  intro t ht
  revert t
  decide +kernel

/-- the threshold values the theorems are instantiated with: the default of `Buffer`, and `None`
on the client's BLOB connection -/
theorem generated_thresholds : Generated.defaultThreshold = some 2048 ∧ Generated.blobConnThreshold = none := by
  decide

/-! non-vacuity: a toy parser for which a two-message stream with junk is `StreamOk` -/

def toyTags : List Str := [s "a", s "b"]
def toyParse (x : Str) : ParseRes Nat :=
  if x = s "<a/>" then .msg 1 else if x = s "<b>x</b>" then .msg 2 else .notXml

example : (session toyParse toyTags (some 16) [] [s "??<a", s "/>\n<?", s "j?><b>x<", s "/b>zz"]).1 = [[], [1], [], [2]] := by
  decide +kernel

end Indi.Buf
