/-
  C18 / C12 at the connection level: theorems over the server model (Model/Conn.lean) — the handler's control flow
  composed with framing, parsing and routing.
-/
import Indi.Model.Conn
import Indi.Properties.C18
import Indi.Properties.C11

namespace Indi.Conn
open Indi

/-- connection `i` of the server, if any -/
def conn? (sv : Server) (i : Nat) : Option Conn := sv.conns.find? fun c => c.id = i

/-- the events that end connection `i`: end of file, a failing read, an exception while one of its messages is handled
(`raised`: the exception really occurred, i.e. the raiseAt-th message of the chunk exists and reaches the router) -/
def ends (sv : Server) (i : Nat) : Event → Bool
  | .eof j => j = i
  | .readError j => j = i
  | .recv j chunk raiseAt =>
    j = i &&
    (match conn? sv i with
     | some c => (routeAll i sv.router (Buf.feed parseMsg tags Generated.defaultThreshold c.data chunk).1 0 raiseAt).2.2
     | none => false)
  | _ => false

/-- well-formed server: connection ids are distinct, and a connection is served exactly while the router knows it -/
def WF (sv : Server) : Prop :=
  (sv.conns.map (·.id)).Nodup ∧
  (∀ c ∈ sv.conns, c.serving = true ↔ c.id ∈ sv.router.clients) ∧
  (∀ i ∈ sv.router.clients, ∃ c ∈ sv.conns, c.id = i) ∧
  (∀ c ∈ sv.conns, c.serving = false → Rtr.nlookup c.id sv.router.blob = none) ∧
  sv.router.clients.Nodup ∧
  (sv.router.blob.map Prod.fst).Nodup

/-- an event the environment can produce in state `sv`: a new connection gets a fresh id -/
def admissible (sv : Server) : Event → Prop
  | .connect i _ => ∀ c ∈ sv.conns, c.id ≠ i
  | _ => True


/-! ### router facts: what sends preserve -/

/-- `σ'` has the clients of `σ` and the same registered BLOB keys (sends, device registrations) -/
structure Same (σ σ' : Rtr.State) : Prop where
  clients : σ'.clients = σ.clients
  keys : (σ.blob.map Prod.fst).Nodup → (σ'.blob.map Prod.fst).Nodup
  look : ∀ j, Rtr.nlookup j σ'.blob = none ↔ Rtr.nlookup j σ.blob = none

theorem Same.refl (σ : Rtr.State) : Same σ σ := ⟨rfl, id, fun _ => Iff.rfl⟩

theorem Same.trans {a b c : Rtr.State} (h1 : Same a b) (h2 : Same b c) : Same a c :=
  ⟨h2.clients.trans h1.clients, fun h => h2.keys (h1.keys h), fun j => (h2.look j).trans (h1.look j)⟩

theorem processEnableBlob_same (σ : Rtr.State) (m : Rtr.RMsg) (sd : Rtr.Sender) :
    Same σ (Rtr.processEnableBlob σ m sd) := by
  cases sd with
  | nobody => exact Same.refl σ
  | dev d => exact Same.refl σ
  | cli c =>
    simp only [Rtr.processEnableBlob]
    cases hl : Rtr.nlookup c σ.blob with
    | none => exact Same.refl σ
    | some d =>
      refine ⟨rfl, fun h => Rtr.keys_nset _ _ _ h, ?_⟩
      intro j
      simp only [Rtr.nlookup_nset]
      by_cases hj : j = c
      · subst hj; simp [hl]
      · simp [hj]

theorem process_same (σ : Rtr.State) (m : Rtr.RMsg) (sd : Rtr.Sender) : Same σ (Rtr.process σ m sd).1 := by
  simp only [Rtr.process]
  split
  · exact processEnableBlob_same σ m sd
  · exact Same.refl σ

theorem process_deliv (σ : Rtr.State) (m : Rtr.RMsg) (sd : Rtr.Sender) (j : Nat)
    (h : Rtr.Target.cli j ∈ (Rtr.process σ m sd).2) : j ∈ σ.clients := by
  have hs := (process_same σ m sd).clients
  simp only [Rtr.process] at h hs
  rcases List.mem_append.mp h with h | h
  · split at h
    · obtain ⟨d, _, hd⟩ := List.mem_map.mp h
      cases hd
    · cases h
  · split at h
    · obtain ⟨c, hc, hd⟩ := List.mem_map.mp h
      cases hd
      rw [← hs]
      exact (List.mem_filter.mp hc).1
    · cases h

theorem untilFirstDev_sub : ∀ (l : List Rtr.Target) (t : Rtr.Target), t ∈ untilFirstDev l → t ∈ l := by
  intro l
  induction l with
  | nil => intro t h; cases h
  | cons x xs ih =>
    intro t h
    cases x with
    | dev d =>
      simp only [untilFirstDev, List.mem_singleton] at h
      subst h; exact List.mem_cons_self
    | cli c =>
      simp only [untilFirstDev] at h
      rcases List.mem_cons.mp h with e | e
      · subst e; exact List.mem_cons_self
      · exact List.mem_cons_of_mem _ (ih t e)

/-- `routeAll`: the router keeps its clients and its BLOB keys, everything delivered to a client goes to a registered
one, and without an injected exception nothing is raised -/
theorem routeAll_spec (i : Nat) (raiseAt : Option Nat) :
    ∀ (msgs : List Msg) (r : Rtr.State) (k : Nat),
      Same r (routeAll i r msgs k raiseAt).1 ∧
      (∀ ds ∈ (routeAll i r msgs k raiseAt).2.1.deliveries, ∀ j, Rtr.Target.cli j ∈ ds → j ∈ r.clients) ∧
      (raiseAt = none → (routeAll i r msgs k raiseAt).2.2 = false) := by
  intro msgs
  induction msgs with
  | nil =>
    intro r k
    refine ⟨Same.refl r, ?_, fun _ => rfl⟩
    intro ds h; cases h
  | cons m rest ih =>
    intro r k
    simp only [routeAll]
    split
    · exact ih r (k + 1)
    · rename_i rm _
      have hp := process_same r rm (.cli i)
      have hd := process_deliv r rm (.cli i)
      simp only [Rtr.step]
      split
      · rename_i hk
        refine ⟨hp, ?_, ?_⟩
        · intro ds h j hj
          simp only [List.mem_singleton] at h
          subst h
          exact hd j (untilFirstDev_sub _ _ hj)
        · intro hn; rw [hn] at hk; cases hk
      · obtain ⟨h1, h2, h3⟩ := ih (Rtr.process r rm (.cli i)).1 (k + 1)
        refine ⟨hp.trans h1, ?_, h3⟩
        intro ds h j hj
        rcases List.mem_cons.mp h with e | e
        · subst e; exact hd j hj
        · rw [← hp.clients]; exact h2 ds e j hj

/-! ### the server step, case by case -/

/-- `conn.close()` on the connection record -/
def markClosed (i : Nat) (c : Conn) : Conn :=
  if c.id = i then { c with serving := false, writerClosed := c.tcp } else c

/-- the new receive buffer of connection `i` -/
def setData (i : Nat) (rest : Str) (c : Conn) : Conn := if c.id = i then { c with data := rest } else c

theorem markClosed_id (i : Nat) (c : Conn) : (markClosed i c).id = c.id := by
  unfold markClosed; split <;> rfl

theorem setData_id (i : Nat) (rest : Str) (c : Conn) : (setData i rest c).id = c.id := by
  unfold setData; split <;> rfl

theorem setData_serving (i : Nat) (rest : Str) (c : Conn) : (setData i rest c).serving = c.serving := by
  unfold setData; split <;> rfl

theorem closeConn_fst (sv : Server) (i : Nat) :
    (closeConn sv i).1 = { router := (Rtr.step sv.router (.unreg i)).1, conns := sv.conns.map (markClosed i) } := rfl

theorem closeConn_deliveries (sv : Server) (i : Nat) : (closeConn sv i).2.deliveries = [[]] := rfl

theorem step_recv (sv : Server) (i : Nat) (chunk : Str) (ra : Option Nat) (c : Conn)
    (hc : conn? sv i = some c) (hs : c.serving = true) :
    step sv (.recv i chunk ra) =
      if (routeAll i sv.router (Buf.feed parseMsg tags Generated.defaultThreshold c.data chunk).1 0 ra).2.2 = true then
        ((closeConn { router := (routeAll i sv.router (Buf.feed parseMsg tags Generated.defaultThreshold c.data chunk).1 0 ra).1,
                      conns := sv.conns.map (setData i (Buf.feed parseMsg tags Generated.defaultThreshold c.data chunk).2) } i).1,
         { ops := (routeAll i sv.router (Buf.feed parseMsg tags Generated.defaultThreshold c.data chunk).1 0 ra).2.1.ops ++ [.unreg i],
           deliveries := (routeAll i sv.router (Buf.feed parseMsg tags Generated.defaultThreshold c.data chunk).1 0 ra).2.1.deliveries ++ [[]] })
      else
        ({ router := (routeAll i sv.router (Buf.feed parseMsg tags Generated.defaultThreshold c.data chunk).1 0 ra).1,
           conns := sv.conns.map (setData i (Buf.feed parseMsg tags Generated.defaultThreshold c.data chunk).2) },
         (routeAll i sv.router (Buf.feed parseMsg tags Generated.defaultThreshold c.data chunk).1 0 ra).2.1) := by
  unfold conn? at hc
  simp only [step, hc, hs]
  rfl

theorem step_recv_none (sv : Server) (i : Nat) (chunk : Str) (ra : Option Nat)
    (hc : conn? sv i = none) : step sv (.recv i chunk ra) = (sv, {}) := by
  unfold conn? at hc
  simp only [step, hc]

theorem step_recv_ended (sv : Server) (i : Nat) (chunk : Str) (ra : Option Nat) (c : Conn)
    (hc : conn? sv i = some c) (hs : c.serving = false) : step sv (.recv i chunk ra) = (sv, {}) := by
  unfold conn? at hc
  simp [step, hc, hs]

theorem step_eof (sv : Server) (i : Nat) :
    step sv (.eof i) = match conn? sv i with
      | some c => if c.serving then closeConn sv i else (sv, {})
      | none => (sv, {}) := rfl

theorem step_readError (sv : Server) (i : Nat) :
    step sv (.readError i) = match conn? sv i with
      | some c => if c.serving then closeConn sv i else (sv, {})
      | none => (sv, {}) := rfl

/-! ### looking connections up -/

theorem conn?_mem {sv : Server} {i : Nat} {c : Conn} (h : conn? sv i = some c) : c ∈ sv.conns ∧ c.id = i := by
  unfold conn? at h
  exact ⟨List.mem_of_find?_eq_some h, by simpa using List.find?_some h⟩

theorem conn?_map (r r' : Rtr.State) (l : List Conn) (f : Conn → Conn) (hf : ∀ c, (f c).id = c.id) (i : Nat) :
    conn? { router := r', conns := l.map f } i = (conn? { router := r, conns := l } i).map f := by
  unfold conn?
  simp only [List.find?_map]
  congr 2
  funext c
  simp [hf]

theorem conn?_append (r r' : Rtr.State) (l l' : List Conn) (i : Nat) (c : Conn)
    (h : conn? { router := r, conns := l } i = some c) :
    conn? { router := r', conns := l ++ l' } i = some c := by
  unfold conn? at *
  simp only [List.find?_append, h]
  rfl

theorem conn?_router (sv : Server) (r' : Rtr.State) (i : Nat) :
    conn? { router := r', conns := sv.conns } i = conn? sv i := rfl

/-! ### transporting the invariant -/

theorem wf_router {sv : Server} {r' : Rtr.State} (h : WF sv) (hs : Same sv.router r') :
    WF { router := r', conns := sv.conns } := by
  obtain ⟨h1, h2, h3, h4, h5, h6⟩ := h
  refine ⟨h1, ?_, ?_, ?_, ?_, hs.keys h6⟩
  · intro c hc; simp only [hs.clients]; exact h2 c hc
  · intro i hi; simp only [hs.clients] at hi; exact h3 i hi
  · intro c hc hf; exact (hs.look c.id).mpr (h4 c hc hf)
  · simp only [hs.clients]; exact h5

theorem wf_map {sv : Server} (f : Conn → Conn) (h : WF sv) (hid : ∀ c, (f c).id = c.id)
    (hsv : ∀ c, (f c).serving = c.serving) : WF { router := sv.router, conns := sv.conns.map f } := by
  obtain ⟨h1, h2, h3, h4, h5, h6⟩ := h
  have hm : (sv.conns.map f).map (·.id) = sv.conns.map (·.id) := by
    simp only [List.map_map]; congr 1; funext c; exact hid c
  refine ⟨by simpa only [hm] using h1, ?_, ?_, ?_, h5, h6⟩
  · intro c hc
    obtain ⟨c0, hc0, rfl⟩ := List.mem_map.mp hc
    simp only [hid, hsv]; exact h2 c0 hc0
  · intro i hi
    obtain ⟨c0, hc0, e⟩ := h3 i hi
    exact ⟨f c0, List.mem_map.mpr ⟨c0, hc0, rfl⟩, by rw [hid]; exact e⟩
  · intro c hc
    obtain ⟨c0, hc0, rfl⟩ := List.mem_map.mp hc
    simp only [hid, hsv]; exact h4 c0 hc0

theorem wf_close {sv : Server} (i : Nat) (h : WF sv) : WF (closeConn sv i).1 := by
  obtain ⟨h1, h2, h3, h4, h5, h6⟩ := h
  obtain ⟨r1, r2, r3⟩ := Rtr.removeFirst_nodup (c := i) h5
  have hm : (sv.conns.map (markClosed i)).map (·.id) = sv.conns.map (·.id) := by
    simp only [List.map_map]; congr 1; funext c; exact markClosed_id i c
  rw [closeConn_fst]
  simp only [Rtr.step]
  refine ⟨by simpa only [hm] using h1, ?_, ?_, ?_, r1, Rtr.keys_ndel _ _ h6⟩
  · intro c hc
    obtain ⟨c0, hc0, rfl⟩ := List.mem_map.mp hc
    unfold markClosed
    by_cases hi : c0.id = i
    · simp only [hi, if_true]
      constructor
      · intro hh; cases hh
      · intro hh; exact absurd hh r2
    · simp only [hi, if_false]
      rw [r3 _ hi]; exact h2 c0 hc0
  · intro j hj
    obtain ⟨c0, hc0, e⟩ := h3 j (Rtr.mem_removeFirst hj)
    exact ⟨markClosed i c0, List.mem_map.mpr ⟨c0, hc0, rfl⟩, by rw [markClosed_id]; exact e⟩
  · intro c hc
    obtain ⟨c0, hc0, rfl⟩ := List.mem_map.mp hc
    simp only [markClosed_id, Rtr.nlookup_ndel _ _ _ h6]
    intro hf
    by_cases hi : c0.id = i
    · simp [hi]
    · simp only [hi, if_false]
      apply h4 c0 hc0
      simpa [markClosed, hi] using hf

theorem wf_connect {sv : Server} (i : Nat) (tcp : Bool) (h : WF sv) (hfresh : ∀ c ∈ sv.conns, c.id ≠ i) :
    WF { router := (Rtr.step sv.router (.regCli i)).1, conns := sv.conns ++ [{ id := i, tcp := tcp }] } := by
  obtain ⟨h1, h2, h3, h4, h5, h6⟩ := h
  have hni : i ∉ sv.router.clients := by
    intro hi
    obtain ⟨c, hc, e⟩ := h3 i hi
    exact hfresh c hc e
  simp only [Rtr.step]
  refine ⟨?_, ?_, ?_, ?_, ?_, Rtr.keys_nset _ _ _ h6⟩
  · simp only [List.map_append, List.map_cons, List.map_nil]
    rw [List.nodup_append]
    refine ⟨h1, by simp, ?_⟩
    intro a ha b hb
    simp only [List.mem_singleton] at hb
    subst hb
    obtain ⟨c, hc, e⟩ := List.mem_map.mp ha
    intro e2
    exact hfresh c hc (e.trans e2)
  · intro c hc
    rcases List.mem_append.mp hc with hc | hc
    · simp only [List.mem_append, List.mem_singleton]
      rw [h2 c hc]
      constructor
      · exact Or.inl
      · rintro (hh | hh)
        · exact hh
        · exact absurd hh (hfresh c hc)
    · simp only [List.mem_singleton] at hc
      subst hc
      simp
  · intro j hj
    rcases List.mem_append.mp hj with hj | hj
    · obtain ⟨c, hc, e⟩ := h3 j hj
      exact ⟨c, List.mem_append_left _ hc, e⟩
    · simp only [List.mem_singleton] at hj
      subst hj
      exact ⟨_, List.mem_append_right _ List.mem_cons_self, rfl⟩
  · intro c hc hf
    rcases List.mem_append.mp hc with hc | hc
    · simp only [Rtr.nlookup_nset, hfresh c hc, if_false]
      exact h4 c hc hf
    · simp only [List.mem_singleton] at hc
      subst hc
      cases hf
  · rw [List.nodup_append]
    refine ⟨h5, by simp, ?_⟩
    intro a ha b hb
    simp only [List.mem_singleton] at hb
    subst hb
    intro e; subst e; exact hni ha

theorem same_regDev (σ : Rtr.State) (d : Rtr.Dev) : Same σ (Rtr.step σ (.regDev d)).1 :=
  ⟨rfl, id, fun _ => Iff.rfl⟩

theorem wf_init : WF {} := by
  refine ⟨?_, ?_, ?_, ?_, ?_, ?_⟩ <;> simp [Rtr.init]

/-- the state after a receive on a served connection -/
theorem wf_recv {sv : Server} (i : Nat) (chunk : Str) (ra : Option Nat) (c : Conn) (h : WF sv)
    (hc : conn? sv i = some c) (hs : c.serving = true) : WF (step sv (.recv i chunk ra)).1 := by
  rw [step_recv sv i chunk ra c hc hs]
  have hr := (routeAll_spec i ra (Buf.feed parseMsg tags Generated.defaultThreshold c.data chunk).1 sv.router 0).1
  have h1 := wf_router h hr
  have h2 := wf_map (setData i (Buf.feed parseMsg tags Generated.defaultThreshold c.data chunk).2) h1
    (setData_id _ _) (setData_serving _ _)
  split
  · exact wf_close i h2
  · exact h2

/-- well-formedness is an invariant of every admissible event -/
theorem wf_step (sv : Server) (e : Event) (h : WF sv) (ha : admissible sv e) : WF (step sv e).1 := by
  cases e with
  | device d => exact wf_router h (same_regDev _ d)
  | connect i tcp => exact wf_connect i tcp h ha
  | recv i chunk ra =>
    cases hc : conn? sv i with
    | none => rw [step_recv_none sv i chunk ra hc]; exact h
    | some c =>
      cases hs : c.serving with
      | false => rw [step_recv_ended sv i chunk ra c hc hs]; exact h
      | true => exact wf_recv i chunk ra c h hc hs
  | eof i =>
    rw [step_eof]
    split
    · split
      · exact wf_close i h
      · exact h
    · exact h
  | readError i =>
    rw [step_readError]
    split
    · split
      · exact wf_close i h
      · exact h
    · exact h
  | publish m sd => exact wf_router h (process_same _ m sd)

/-! ### closing a connection, seen from that connection and from the others -/

theorem close_cleans {sv : Server} {i : Nat} {c : Conn} (h : WF sv) (hc : conn? sv i = some c) :
    conn? (closeConn sv i).1 i = some { c with serving := false, writerClosed := c.tcp } ∧
      i ∉ (closeConn sv i).1.router.clients ∧ Rtr.nlookup i (closeConn sv i).1.router.blob = none := by
  obtain ⟨_, _, _, _, h5, h6⟩ := h
  rw [closeConn_fst]
  refine ⟨?_, ?_, ?_⟩
  · rw [conn?_map sv.router _ sv.conns _ (markClosed_id i) i]
    show Option.map (markClosed i) (conn? sv i) = _
    rw [hc]
    simp [markClosed, (conn?_mem hc).2]
  · exact (Rtr.removeFirst_nodup h5).2.1
  · simp [Rtr.step, Rtr.nlookup_ndel _ _ _ h6]

theorem close_other {sv : Server} {i j : Nat} {c : Conn} (h : WF sv) (hc : conn? sv i = some c) (hne : i ≠ j) :
    conn? (closeConn sv j).1 i = some c ∧
      (i ∈ (closeConn sv j).1.router.clients ↔ i ∈ sv.router.clients) := by
  obtain ⟨_, _, _, _, h5, h6⟩ := h
  rw [closeConn_fst]
  refine ⟨?_, ?_⟩
  · rw [conn?_map sv.router _ sv.conns _ (markClosed_id j) i]
    show Option.map (markClosed j) (conn? sv i) = _
    rw [hc]
    have : ¬ c.id = j := by rw [(conn?_mem hc).2]; exact hne
    simp [markClosed, this]
  · exact (Rtr.removeFirst_nodup h5).2.2 i hne

/-- the end of a handler: `conn.close()` unless it has ended already -/
def endConn (sv : Server) (j : Nat) : Server × Out :=
  match conn? sv j with
  | some c => if c.serving then closeConn sv j else (sv, {})
  | none => (sv, {})

theorem endConn_other {sv : Server} {i j : Nat} {c : Conn} (h : WF sv) (hc : conn? sv i = some c) (hne : i ≠ j) :
    conn? (endConn sv j).1 i = some c ∧
      (i ∈ (endConn sv j).1.router.clients ↔ i ∈ sv.router.clients) := by
  unfold endConn
  split
  · split
    · exact close_other h hc hne
    · exact ⟨hc, Iff.rfl⟩
  · exact ⟨hc, Iff.rfl⟩

theorem endConn_ended {sv : Server} {i : Nat} {c : Conn} (hc : conn? sv i = some c) (hs : c.serving = false) :
    endConn sv i = (sv, {}) := by
  unfold endConn; simp [hc, hs]

theorem endConn_deliveries (sv : Server) (j : Nat) : ∀ ds ∈ (endConn sv j).2.deliveries, ds = [] := by
  unfold endConn
  split
  · split
    · intro ds hd; rw [closeConn_deliveries] at hd; simpa using hd
    · intro ds hd; cases hd
  · intro ds hd; cases hd

/-- the state right after the messages of a chunk were routed, before the handler possibly ends -/
def afterRoute (sv : Server) (i : Nat) (chunk : Str) (ra : Option Nat) (c : Conn) : Server :=
  { router := (routeAll i sv.router (Buf.feed parseMsg tags Generated.defaultThreshold c.data chunk).1 0 ra).1,
    conns := sv.conns.map (setData i (Buf.feed parseMsg tags Generated.defaultThreshold c.data chunk).2) }

theorem wf_afterRoute {sv : Server} (i : Nat) (chunk : Str) (ra : Option Nat) (c : Conn) (h : WF sv) :
    WF (afterRoute sv i chunk ra c) := by
  have hr := (routeAll_spec i ra (Buf.feed parseMsg tags Generated.defaultThreshold c.data chunk).1 sv.router 0).1
  exact wf_map (setData i (Buf.feed parseMsg tags Generated.defaultThreshold c.data chunk).2) (wf_router h hr)
    (setData_id _ _) (setData_serving _ _)

theorem afterRoute_clients (sv : Server) (i : Nat) (chunk : Str) (ra : Option Nat) (c : Conn) :
    (afterRoute sv i chunk ra c).router.clients = sv.router.clients :=
  (routeAll_spec i ra (Buf.feed parseMsg tags Generated.defaultThreshold c.data chunk).1 sv.router 0).1.clients

theorem afterRoute_conn (sv : Server) (i j : Nat) (chunk : Str) (ra : Option Nat) (c : Conn) :
    conn? (afterRoute sv i chunk ra c) j =
      (conn? sv j).map (setData i (Buf.feed parseMsg tags Generated.defaultThreshold c.data chunk).2) := by
  unfold afterRoute
  rw [conn?_map sv.router _ sv.conns _ (setData_id _ _) j]

theorem step_recv' (sv : Server) (i : Nat) (chunk : Str) (ra : Option Nat) (c : Conn)
    (hc : conn? sv i = some c) (hs : c.serving = true) :
    (step sv (.recv i chunk ra)).1 =
      if (routeAll i sv.router (Buf.feed parseMsg tags Generated.defaultThreshold c.data chunk).1 0 ra).2.2 = true then
        (closeConn (afterRoute sv i chunk ra c) i).1
      else afterRoute sv i chunk ra c := by
  rw [step_recv sv i chunk ra c hc hs]
  unfold afterRoute
  split <;> rfl

theorem step_recv_deliveries (sv : Server) (i : Nat) (chunk : Str) (ra : Option Nat) (c : Conn)
    (hc : conn? sv i = some c) (hs : c.serving = true) :
    ∀ ds ∈ (step sv (.recv i chunk ra)).2.deliveries, ∀ j, Rtr.Target.cli j ∈ ds → j ∈ sv.router.clients := by
  have hr := (routeAll_spec i ra (Buf.feed parseMsg tags Generated.defaultThreshold c.data chunk).1 sv.router 0).2.1
  rw [step_recv sv i chunk ra c hc hs]
  split
  · intro ds hd j hj
    rcases List.mem_append.mp hd with hd | hd
    · exact hr ds hd j hj
    · simp only [List.mem_singleton] at hd
      subst hd; cases hj
  · exact hr

theorem recv_other {sv : Server} {i j : Nat} {c cj : Conn} (chunk : Str) (ra : Option Nat) (h : WF sv)
    (hc : conn? sv i = some c) (hcj : conn? sv j = some cj) (hsj : cj.serving = true) (hne : i ≠ j) :
    conn? (step sv (.recv j chunk ra)).1 i = some c ∧
      (i ∈ (step sv (.recv j chunk ra)).1.router.clients ↔ i ∈ sv.router.clients) := by
  rw [step_recv' sv j chunk ra cj hcj hsj]
  have hci : conn? (afterRoute sv j chunk ra cj) i = some c := by
    rw [afterRoute_conn, hc]
    have : ¬ c.id = j := by rw [(conn?_mem hc).2]; exact hne
    simp [setData, this]
  split
  · have := close_other (wf_afterRoute j chunk ra cj h) hci hne
    rw [afterRoute_clients] at this
    exact this
  · exact ⟨hci, by rw [afterRoute_clients]⟩

theorem step_eof' (sv : Server) (j : Nat) : step sv (.eof j) = endConn sv j := rfl
theorem step_readError' (sv : Server) (j : Nat) : step sv (.readError j) = endConn sv j := rfl

theorem endConn_cleans {sv : Server} {i : Nat} {c : Conn} (h : WF sv) (hc : conn? sv i = some c)
    (hs : c.serving = true) :
    ∃ c', conn? (endConn sv i).1 i = some c' ∧ c'.serving = false ∧ c'.writerClosed = c.tcp ∧
      i ∉ (endConn sv i).1.router.clients ∧ Rtr.nlookup i (endConn sv i).1.router.blob = none := by
  have : endConn sv i = closeConn sv i := by unfold endConn; simp [hc, hs]
  rw [this]
  obtain ⟨h1, h2, h3⟩ := close_cleans h hc
  exact ⟨_, h1, rfl, rfl, h2, h3⟩

/-- **C18**: however connection `i` ends — end of file, read error, or an exception while one of its messages is being
handled, at whatever point of the session — afterwards it is not served any more, its writer is closed (TCP), the router
does not know it and keeps no BLOB settings for it -/
theorem C18_ending_cleans (sv : Server) (e : Event) (i : Nat) (c : Conn) (h : WF sv)
    (hc : conn? sv i = some c) (hs : c.serving = true) (he : ends sv i e = true) :
    ∃ c', conn? (step sv e).1 i = some c' ∧ c'.serving = false ∧ c'.writerClosed = c.tcp ∧
      i ∉ (step sv e).1.router.clients ∧ Rtr.nlookup i (step sv e).1.router.blob = none := by
  cases e with
  | device d => cases he
  | connect j tcp => cases he
  | publish m sd => cases he
  | eof j =>
    have : j = i := by simpa [ends] using he
    subst this
    rw [step_eof']; exact endConn_cleans h hc hs
  | readError j =>
    have : j = i := by simpa [ends] using he
    subst this
    rw [step_readError']; exact endConn_cleans h hc hs
  | recv j chunk ra =>
    simp only [ends, hc, Bool.and_eq_true, decide_eq_true_eq] at he
    obtain ⟨hj, hr⟩ := he
    subst hj
    rw [step_recv' sv j chunk ra c hc hs, if_pos hr]
    have hci : conn? (afterRoute sv j chunk ra c) j =
        some { c with data := (Buf.feed parseMsg tags Generated.defaultThreshold c.data chunk).2 } := by
      rw [afterRoute_conn, hc]
      simp [setData, (conn?_mem hc).2]
    obtain ⟨h1, h2, h3⟩ := close_cleans (wf_afterRoute j chunk ra c h) hci
    exact ⟨_, h1, rfl, rfl, h2, h3⟩

/-- a connection that has ended stays ended, and nothing is ever delivered to it again -/
theorem C18_ended_is_final (sv : Server) (e : Event) (i : Nat) (c : Conn) (h : WF sv) (ha : admissible sv e)
    (hc : conn? sv i = some c) (hs : c.serving = false) :
    conn? (step sv e).1 i = some c ∧ i ∉ (step sv e).1.router.clients ∧
      ∀ ds ∈ (step sv e).2.deliveries, Rtr.Target.cli i ∉ ds := by
  have hmem := conn?_mem hc
  have hni : i ∉ sv.router.clients := by
    intro hi
    have := (h.2.1 c hmem.1).mpr (by rw [hmem.2]; exact hi)
    rw [hs] at this; cases this
  cases e with
  | device d =>
    refine ⟨hc, hni, ?_⟩
    intro ds hd
    simp only [step, Rtr.step, List.mem_singleton] at hd
    subst hd; simp
  | connect j tcp =>
    have hne : i ≠ j := by
      have := ha c hmem.1
      rw [hmem.2] at this; exact this
    refine ⟨conn?_append sv.router _ sv.conns _ i c hc, ?_, ?_⟩
    · simp only [step, Rtr.step, List.mem_append, List.mem_singleton, not_or]
      exact ⟨hni, hne⟩
    · intro ds hd
      simp only [step, Rtr.step, List.mem_singleton] at hd
      subst hd; simp
  | publish m sd =>
    refine ⟨hc, ?_, ?_⟩
    · simp only [step, Rtr.step, (process_same sv.router m sd).clients]; exact hni
    · intro ds hd
      simp only [step, Rtr.step, List.mem_singleton] at hd
      subst hd
      exact fun hm => hni (process_deliv _ _ _ _ hm)
  | eof j =>
    rw [step_eof']
    refine ⟨?_, ?_, ?_⟩
    · by_cases hne : i = j
      · subst hne; rw [endConn_ended hc hs]; exact hc
      · exact (endConn_other h hc hne).1
    · by_cases hne : i = j
      · subst hne; rw [endConn_ended hc hs]; exact hni
      · rw [(endConn_other h hc hne).2]; exact hni
    · intro ds hd; rw [endConn_deliveries sv j ds hd]; simp
  | readError j =>
    rw [step_readError']
    refine ⟨?_, ?_, ?_⟩
    · by_cases hne : i = j
      · subst hne; rw [endConn_ended hc hs]; exact hc
      · exact (endConn_other h hc hne).1
    · by_cases hne : i = j
      · subst hne; rw [endConn_ended hc hs]; exact hni
      · rw [(endConn_other h hc hne).2]; exact hni
    · intro ds hd; rw [endConn_deliveries sv j ds hd]; simp
  | recv j chunk ra =>
    cases hcj : conn? sv j with
    | none =>
      rw [step_recv_none sv j chunk ra hcj]
      exact ⟨hc, hni, fun ds hd => by cases hd⟩
    | some cj =>
      cases hsj : cj.serving with
      | false =>
        rw [step_recv_ended sv j chunk ra cj hcj hsj]
        exact ⟨hc, hni, fun ds hd => by cases hd⟩
      | true =>
        have hne : i ≠ j := by
          intro e; subst e
          rw [hc] at hcj; cases hcj
          rw [hs] at hsj; cases hsj
        obtain ⟨h1, h2⟩ := recv_other chunk ra h hc hcj hsj hne
        refine ⟨h1, by rw [h2]; exact hni, ?_⟩
        intro ds hd hm
        exact hni (step_recv_deliveries sv j chunk ra cj hcj hsj ds hd i hm)

/-- **C12 at the connection level / C18 "the others stay served"**: an event that does not end connection `i` leaves it
served, registered and with its writer open -/
theorem serving_stays (sv : Server) (e : Event) (i : Nat) (c : Conn) (h : WF sv) (ha : admissible sv e)
    (hc : conn? sv i = some c) (hs : c.serving = true) (he : ends sv i e = false) :
    ∃ c', conn? (step sv e).1 i = some c' ∧ c'.serving = true ∧ c'.writerClosed = c.writerClosed ∧
      i ∈ (step sv e).1.router.clients := by
  have hmem := conn?_mem hc
  have hi : i ∈ sv.router.clients := by
    have := (h.2.1 c hmem.1).mp hs
    rw [hmem.2] at this; exact this
  cases e with
  | device d => exact ⟨c, hc, hs, rfl, hi⟩
  | connect j tcp =>
    refine ⟨c, conn?_append sv.router _ sv.conns _ i c hc, hs, rfl, ?_⟩
    simp only [step, Rtr.step, List.mem_append]
    exact Or.inl hi
  | publish m sd =>
    refine ⟨c, hc, hs, rfl, ?_⟩
    simp only [step, Rtr.step, (process_same sv.router m sd).clients]; exact hi
  | eof j =>
    have hne : i ≠ j := by
      intro e; subst e; simp [ends] at he
    rw [step_eof']
    obtain ⟨h1, h2⟩ := endConn_other h hc hne
    exact ⟨c, h1, hs, rfl, h2.mpr hi⟩
  | readError j =>
    have hne : i ≠ j := by
      intro e; subst e; simp [ends] at he
    rw [step_readError']
    obtain ⟨h1, h2⟩ := endConn_other h hc hne
    exact ⟨c, h1, hs, rfl, h2.mpr hi⟩
  | recv j chunk ra =>
    by_cases hne : i = j
    · subst hne
      have hr : (routeAll i sv.router (Buf.feed parseMsg tags Generated.defaultThreshold c.data chunk).1 0 ra).2.2
          = false := by
        simpa [ends, hc] using he
      rw [step_recv' sv i chunk ra c hc hs, hr]
      simp only [Bool.false_eq_true, if_false]
      refine ⟨{ c with data := (Buf.feed parseMsg tags Generated.defaultThreshold c.data chunk).2 }, ?_, hs, rfl, ?_⟩
      · rw [afterRoute_conn, hc]
        simp [setData, hmem.2]
      · rw [afterRoute_clients]; exact hi
    · cases hcj : conn? sv j with
      | none =>
        rw [step_recv_none sv j chunk ra hcj]
        exact ⟨c, hc, hs, rfl, hi⟩
      | some cj =>
        cases hsj : cj.serving with
        | false =>
          rw [step_recv_ended sv j chunk ra cj hcj hsj]
          exact ⟨c, hc, hs, rfl, hi⟩
        | true =>
          obtain ⟨h1, h2⟩ := recv_other chunk ra h hc hcj hsj hne
          exact ⟨c, h1, hs, rfl, h2.mpr hi⟩

/-- in particular no client message whatsoever — any bytes, any number of complete, partial, hostile or junk elements in
a chunk — ends the connection, as long as no device raises -/
theorem C12_any_bytes_keep_serving (sv : Server) (i : Nat) (c : Conn) (chunk : Str) (h : WF sv)
    (hc : conn? sv i = some c) (hs : c.serving = true) :
    ∃ c', conn? (step sv (.recv i chunk none)).1 i = some c' ∧ c'.serving = true ∧
      i ∈ (step sv (.recv i chunk none)).1.router.clients := by
  have he : ends sv i (.recv i chunk none) = false := by
    simp only [ends, hc, decide_true, Bool.true_and]
    exact (routeAll_spec i none _ sv.router 0).2.2 rfl
  obtain ⟨c', h1, h2, _, h4⟩ := serving_stays sv (.recv i chunk none) i c h trivial hc hs he
  exact ⟨c', h1, h2, h4⟩

/-- what the receive buffer of a served connection retains after any chunk is within the junk-recovery threshold -/
theorem retained_bounded (sv : Server) (i : Nat) (c : Conn) (chunk : Str) (t : Nat)
    (ht : Generated.defaultThreshold = some t)
    (hc : conn? sv i = some c) (hs : c.serving = true) :
    ∀ c', conn? (step sv (.recv i chunk none)).1 i = some c' → c'.data.length ≤ t := by
  intro c' hc'
  have hr : (routeAll i sv.router (Buf.feed parseMsg tags Generated.defaultThreshold c.data chunk).1 0 none).2.2
      = false := (routeAll_spec i none _ sv.router 0).2.2 rfl
  rw [step_recv' sv i chunk none c hc hs, hr] at hc'
  simp only [Bool.false_eq_true, if_false] at hc'
  rw [afterRoute_conn, hc] at hc'
  simp only [Option.map_some, Option.some.injEq] at hc'
  subst hc'
  simp only [setData, (conn?_mem hc).2, if_true]
  rw [ht]
  exact Buf.C11_bounded parseMsg tags t (c.data ++ chunk)

/-! ### non-vacuity: a concrete session -/

/-- two drivers, a TCP client (0) and a TTY client (1); client 0 asks for the BLOBs of "A" -/
def exSession : List Event :=
  [.device { id := 0, name := some (s "A") }, .device { id := 1, name := some (s "B") },
   .connect 0 true, .connect 1 false,
   .recv 0 (s "<enableBLOB device=\"A\">Also</enableBLOB>") none]

/-- the request reached the router (the setting is recorded and the message went to driver "A") … -/
example :
    Rtr.nlookup 0 (run {} exSession).1.router.blob = some [(some (s "A"), .also)] ∧
    ((run {} exSession).2.map (·.deliveries)).getLast? = some [[.dev 0]] ∧
    (conn? (run {} exSession).1 0).map (·.serving) = some true := by decide +kernel

/-- … and after the end of file connection 0 is not served, its writer is closed, the router has forgotten it and its
settings, while connection 1 is still served and registered -/
example :
    (conn? (run {} (exSession ++ [.eof 0])).1 0).map (fun c => (c.serving, c.writerClosed)) = some (false, true) ∧
    0 ∉ (run {} (exSession ++ [.eof 0])).1.router.clients ∧
    Rtr.nlookup 0 (run {} (exSession ++ [.eof 0])).1.router.blob = none ∧
    (conn? (run {} (exSession ++ [.eof 0])).1 1).map (fun c => (c.serving, c.writerClosed)) = some (true, false) ∧
    1 ∈ (run {} (exSession ++ [.eof 0])).1.router.clients := by decide +kernel

end Indi.Conn
