/-
  C07 — getProperties is answered with exactly the definitions asked for.
  The theorems `C07_response` and `C07_emitted_valid` are in Properties/DevB.lean
  (2400 lines of lemmas in Proofs/DevB.lean).
-/
import Indi.Properties.DevB
