/-
  C02 at the connection level: what the router is asked to do does not depend on how a client's byte stream was cut into
  reads.  Composition of the framing theorem for the wire format (`C02_wire`, Properties/Wire.lean) with the connection
  model (Model/Conn.lean).

  Result: the router operations (and the final router state) are independent of the fragmentation under exactly the
  hypotheses of the target (`recv_fragmentation_independent_ops`, `_router`).  Equality of the whole final server state
  is FALSE as originally stated (`recv_fragmentation_independent_state_counterexample`: duplicate connection ids, no read
  at all on the left against one empty read on the right); it holds with the extra hypothesis `hrep` of
  `recv_fragmentation_independent`, which follows from distinct ids / `WF sv` (`_nodup`, `_wf`) or from `ms ≠ []` (`_ne`).
-/
import Indi.Properties.Wire
import Indi.Properties.C18b

/-! ### framing: what is retained once a whole stream has been consumed -/

namespace Indi.Buf

variable {M : Type}

theorem cleanup_idem (tags : List Str) (hA2 : TagsOk tags) (x : Str) :
    cleanup tags (cleanup tags x) = cleanup tags x := by
  have := cleanup_absorb tags hA2 x []
  simpa using this

/-- what `Buffer.process` retains is stable under the clean-up -/
theorem processLoop_clean (parse : Str → ParseRes M) (tags : List Str) (T : Option Nat) (hA2 : TagsOk tags)
    (data : Str) (hd : cleanup tags data = data) :
    cleanup tags (processLoop parse tags T data).2 = (processLoop parse tags T data).2 := by
  induction data using processLoop.induct parse tags T with
  | case1 => simp [processLoop_nil, cleanup_nil]
  | case2 data hne m rest hf ih =>
    rw [processLoop_found _ _ _ _ _ _ hf]; exact ih (cleanup_idem tags hA2 _)
  | case3 data hne rest hf ih =>
    rw [processLoop_skip _ _ _ _ _ hf]; exact ih (cleanup_idem tags hA2 _)
  | case4 data hne hf t' ht hgt ih =>
    subst ht
    rw [processLoop_drop _ _ _ _ hf hgt]; exact ih (cleanup_idem tags hA2 _)
  | case5 data hne hf t' ht hle =>
    subst ht
    rw [processLoop_keep _ _ _ _ hf (by simp only [fits]; omega)]
    exact hd
  | case6 data hne hf ht =>
    subst ht
    rw [processLoop_keep _ _ _ _ hf (by simp only [fits])]
    exact hd

theorem feed_clean (parse : Str → ParseRes M) (tags : List Str) (T : Option Nat) (hA2 : TagsOk tags) (B q : Str) :
    cleanup tags (feed parse tags T B q).2 = (feed parse tags T B q).2 := by
  unfold feed process
  exact processLoop_clean parse tags T hA2 _ (cleanup_idem tags hA2 _)

theorem session_clean (parse : Str → ParseRes M) (tags : List Str) (T : Option Nat) (hA2 : TagsOk tags) :
    ∀ (pieces : List Str) (B : Str), cleanup tags B = B →
      cleanup tags (session parse tags T B pieces).2 = (session parse tags T B pieces).2 := by
  intro pieces
  induction pieces with
  | nil => intro B hB; simpa [session] using hB
  | cons q ps ih =>
    intro B _
    simp only [session]
    exact ih _ (feed_clean parse tags T hA2 B q)

/-- the session invariant, carried to the end of a stream that is consumed completely -/
theorem session_final2 (parse : Str → ParseRes M) (tags : List Str) (T : Option Nat)
    (hA1 : ParserNeedsOpener parse tags) (hA2 : TagsOk tags) (final : Str) :
    ∀ (pieces : List Str) (segs : List (Seg M)), StreamOk2 parse tags T segs final →
      ∀ (B tail0 : Str), Inv2 tags final B tail0 segs →
      tail0 ++ pieces.flatten = encode segs final →
      countDone segs tail0.length = 0 →
      Inv2 tags final (session parse tags T B pieces).2 final ([] : List (Seg M)) := by
  intro pieces
  induction pieces with
  | nil =>
    intro segs hok B tail0 hinv hpre h0
    simp only [List.flatten_nil, List.append_nil] at hpre
    have hl : segs.length = 0 := by
      rw [← countDone_all final segs, ← hpre]; exact h0
    have hs : segs = [] := List.eq_nil_of_length_eq_zero hl
    subst hs
    simp only [encode] at hpre
    subst hpre
    simpa [session] using hinv
  | cons q ps ih =>
    intro segs hok B tail0 hinv hpre h0
    simp only [List.flatten_cons] at hpre
    have hx : tail0 ++ q <+: encode segs final := by
      rw [← hpre, ← List.append_assoc]; exact List.prefix_append _ _
    obtain ⟨R, hfeed, hinv'⟩ :=
      feed_stream2 parse tags T hA1 hA2 final segs hok B tail0 q hinv hx
    have hole := off_le segs (tail0 ++ q).length
    have hpre' : (tail0 ++ q).drop (off segs (tail0 ++ q).length) ++ ps.flatten =
        encode (segs.drop (countDone segs (tail0 ++ q).length)) final := by
      rw [← encode_drop]
      have e : encode segs final = (tail0 ++ q) ++ ps.flatten := by
        rw [← hpre]; simp
      rw [e, List.drop_append_of_le_length hole]
    have h0' : countDone (segs.drop (countDone segs (tail0 ++ q).length))
        ((tail0 ++ q).drop (off segs (tail0 ++ q).length)).length = 0 := by
      rw [List.length_drop]
      exact countDone_rem segs _
    have := ih (segs.drop (countDone segs (tail0 ++ q).length))
      (StreamOk2_drop parse tags T segs final _ hok) R _ hinv' hpre' h0'
    simp only [session]
    rw [hfeed]
    exact this

/-- after a whole `StreamOk2` stream whose final junk has no `'<'`, fed from an empty buffer in any pieces,
nothing is retained -/
theorem session_final_nil (parse : Str → ParseRes M) (tags : List Str) (T : Option Nat)
    (hA1 : ParserNeedsOpener parse tags) (hA2 : TagsOk tags) (final : Str) (hfin : '<' ∉ final)
    (segs : List (Seg M)) (hok : StreamOk2 parse tags T segs final)
    (pieces : List Str) (hflat : pieces.flatten = encode segs final) :
    (session parse tags T [] pieces).2 = [] := by
  have h0 : countDone segs ([] : Str).length = 0 := countDone_zero2 parse tags T segs final hok
  have hinv := session_final2 parse tags T hA1 hA2 final pieces segs hok [] []
    (Or.inl (cleanup_nil tags).symm) (by simpa using hflat) h0
  have hcl := session_clean parse tags T hA2 pieces [] (cleanup_nil tags)
  rcases hinv with h | ⟨hsuf, -⟩
  · rw [h]; exact (cleanup_eq_nil_iff tags final).2 hfin
  · rw [← hcl]
    apply (cleanup_eq_nil_iff tags _).2
    intro hm
    exact hfin (hsuf.subset hm)

end Indi.Buf

namespace Indi.Conn
open Indi Indi.Xml Indi.Spec.MsgValid Indi.Buf

/-- the router operations a list of events amounts to, from state `sv` -/
def opsOf (sv : Server) (evs : List Event) : List Rtr.Op := history (run sv evs).2

/-! ### the wire side: any partition of a whole `to_string` stream delivers every normal form and retains nothing -/

theorem parseMsg_eq : parseMsg = Xml.parseMsg Generated.registry := rfl
theorem tags_eq : tags = Xml.tagsOf Generated.registry := rfl

theorem segsOf_length : ∀ (first : Bool) (ms : List Msg), (segsOf first ms).length = ms.length
  | _, [] => rfl
  | _, m :: rest => by simp [segsOf, segsOf_length false rest]

theorem xmlSuffix_noLt : '<' ∉ Generated.xmlSuffix := by decide

theorem toString_ne_nil (m : Msg) : toString m ≠ [] := by
  intro h
  have h1 := congrArg List.length h
  rw [toString_length] at h1
  have h2 : Generated.xmlPrefix.length = 22 := by decide
  simp only [List.length_nil] at h1
  omega

theorem streamOf_eq_nil {ms : List Msg} (h : streamOf ms = []) : ms = [] := by
  cases ms with
  | nil => rfl
  | cons m rest =>
    rw [streamOf_cons] at h
    exact absurd (List.append_eq_nil_iff.1 h).1 (toString_ne_nil m)

theorem streamOk_segsOf (ms : List Msg) (hne : ms ≠ [])
    (hv : ∀ m ∈ ms, valid Generated.registry m = true ∧ wireSafe m = true ∧ fits Generated.defaultThreshold (toString m)) :
    StreamOk (Xml.parseMsg Generated.registry) (tagsOf Generated.registry) Generated.defaultThreshold
      (segsOf true ms) Generated.xmlSuffix := by
  cases ms with
  | nil => exact absurd rfl hne
  | cons m rest =>
    have hfin : fits Generated.defaultThreshold Generated.xmlSuffix := by
      refine fits_mono _ _ _ (hv m (List.mem_cons_self ..)).2.2 ?_
      rw [toString_length]; omega
    exact ⟨segsOf_ok _ true (m :: rest) hv, gap_final_noOpener, hfin⟩

/-- every partition of the whole stream delivers the normal forms of all the messages, in order -/
theorem session_whole_delivered (ms : List Msg)
    (hv : ∀ m ∈ ms, valid Generated.registry m = true ∧ wireSafe m = true ∧ fits Generated.defaultThreshold (toString m))
    (pieces : List Str) (hflat : pieces.flatten = streamOf ms) :
    (session parseMsg tags Generated.defaultThreshold [] pieces).1.flatten = ms.map C03.canon := by
  rw [parseMsg_eq, tags_eq, C02_wire' _ ms hv pieces (by rw [hflat]; exact List.prefix_refl _), hflat]
  congr 1
  apply List.take_of_length_le
  by_cases hne : ms = []
  · subst hne; simp
  · rw [← encode_segsOf ms hne, countDone_all, segsOf_length]
    exact Nat.le_refl _

/-- every partition of the whole stream leaves the receive buffer empty -/
theorem session_whole_retained (ms : List Msg)
    (hv : ∀ m ∈ ms, valid Generated.registry m = true ∧ wireSafe m = true ∧ fits Generated.defaultThreshold (toString m))
    (pieces : List Str) (hflat : pieces.flatten = streamOf ms) :
    (session parseMsg tags Generated.defaultThreshold [] pieces).2 = [] := by
  rw [parseMsg_eq, tags_eq]
  by_cases hne : ms = []
  · subst hne
    refine session_final_nil _ _ _ (parseMsg_needsOpener Generated.registry) generated_tagsOk [] (by simp) []
      ⟨fun sg hsg => (by cases hsg), fun i => by rw [List.drop_nil]; exact startsKnown_nil _⟩ pieces ?_
    simpa [streamOf, encode] using hflat
  · refine session_final_nil _ _ _ (parseMsg_needsOpener Generated.registry) generated_tagsOk Generated.xmlSuffix
      xmlSuffix_noLt (segsOf true ms) (streamOk_segsOf ms hne hv).toStreamOk2 pieces ?_
    rw [encode_segsOf ms hne]; exact hflat

/-! ### the router side: `routeAll` without an injected exception -/

theorem routeAll_none_index (i : Nat) : ∀ (msgs : List Msg) (r : Rtr.State) (k : Nat),
    routeAll i r msgs k none = routeAll i r msgs 0 none := by
  intro msgs
  induction msgs with
  | nil => intro r k; rfl
  | cons m rest ih =>
    intro r k
    simp only [routeAll]
    split
    · rw [ih r (k + 1), ih r (0 + 1)]
    · simp only [reduceCtorEq, if_false]
      rw [ih _ (k + 1), ih _ (0 + 1)]

theorem routeAll_append (i : Nat) : ∀ (a b : List Msg) (r : Rtr.State),
    (routeAll i r (a ++ b) 0 none).1 = (routeAll i (routeAll i r a 0 none).1 b 0 none).1 ∧
    (routeAll i r (a ++ b) 0 none).2.1.ops =
      (routeAll i r a 0 none).2.1.ops ++ (routeAll i (routeAll i r a 0 none).1 b 0 none).2.1.ops := by
  intro a
  induction a with
  | nil => intro b r; simp [routeAll]
  | cons m rest ih =>
    intro b r
    simp only [List.cons_append, routeAll]
    split
    · rw [routeAll_none_index i (rest ++ b), routeAll_none_index i rest]
      exact ih b r
    · simp only [reduceCtorEq, if_false]
      rw [routeAll_none_index i (rest ++ b), routeAll_none_index i rest]
      obtain ⟨h1, h2⟩ := ih b (Rtr.step r (.send _ (.cli i))).1
      exact ⟨h1, by simp only [h2, List.cons_append]⟩

/-! ### the server side: a run of receives threads the buffer like `session` and routes the flattened deliveries -/

theorem step_recv_plain (sv : Server) (i : Nat) (chunk : Str) (c : Conn)
    (hc : conn? sv i = some c) (hs : c.serving = true) :
    step sv (.recv i chunk none) =
      ({ router := (routeAll i sv.router (feed parseMsg tags Generated.defaultThreshold c.data chunk).1 0 none).1,
         conns := sv.conns.map (setData i (feed parseMsg tags Generated.defaultThreshold c.data chunk).2) },
       (routeAll i sv.router (feed parseMsg tags Generated.defaultThreshold c.data chunk).1 0 none).2.1) := by
  rw [step_recv sv i chunk none c hc hs, (routeAll_spec i none _ sv.router 0).2.2 rfl]
  simp

theorem setData_setData (i : Nat) (a b : Str) : setData i b ∘ setData i a = setData i b := by
  funext c
  simp only [Function.comp, setData]
  split <;> simp_all

theorem server_eq {a b : Server} (h1 : a.router = b.router) (h2 : a.conns = b.conns) : a = b := by
  cases a; cases b; simp_all

theorem run_recvs (i : Nat) : ∀ (pieces : List Str) (sv : Server) (c : Conn),
    conn? sv i = some c → c.serving = true →
    (run sv (pieces.map fun p => Event.recv i p none)).1.router =
      (routeAll i sv.router (session parseMsg tags Generated.defaultThreshold c.data pieces).1.flatten 0 none).1 ∧
    history (run sv (pieces.map fun p => Event.recv i p none)).2 =
      (routeAll i sv.router (session parseMsg tags Generated.defaultThreshold c.data pieces).1.flatten 0 none).2.1.ops ∧
    (pieces ≠ [] → (run sv (pieces.map fun p => Event.recv i p none)).1.conns =
      sv.conns.map (setData i (session parseMsg tags Generated.defaultThreshold c.data pieces).2)) := by
  intro pieces
  induction pieces with
  | nil =>
    intro sv c _ _
    exact ⟨rfl, rfl, fun h => absurd rfl h⟩
  | cons p ps ih =>
    intro sv c hc hs
    have hstep := step_recv_plain sv i p c hc hs
    generalize hF : feed parseMsg tags Generated.defaultThreshold c.data p = F at hstep
    have hc' : conn? { router := (routeAll i sv.router F.1 0 none).1, conns := sv.conns.map (setData i F.2) } i =
        some { c with data := F.2 } := by
      rw [conn?_map sv.router _ sv.conns _ (setData_id i F.2) i]
      show Option.map _ (conn? sv i) = _
      rw [hc]
      simp [setData, (conn?_mem hc).2]
    obtain ⟨h1, h2, h3⟩ := ih _ _ hc' hs
    obtain ⟨a1, a2⟩ := routeAll_append i F.1
      (session parseMsg tags Generated.defaultThreshold F.2 ps).1.flatten sv.router
    simp only [List.map_cons, run, hstep, session, hF, List.flatten_cons, history, List.flatMap_cons]
    refine ⟨?_, ?_, fun _ => ?_⟩
    · rw [a1]; exact h1
    · rw [a2]; congr 1
    · cases ps with
      | nil => rfl
      | cons q qs =>
        rw [h3 (by simp), List.map_map, setData_setData]

/-! ### the two runs -/

section
variable (sv : Server) (i : Nat) (c : Conn)
  (hc : conn? sv i = some c) (hs : c.serving = true) (hd : c.data = [])
  (ms : List Msg)
  (hv : ∀ m ∈ ms, valid Generated.registry m = true ∧ wireSafe m = true ∧ fits Generated.defaultThreshold (toString m))
  (pieces : List Str) (hflat : pieces.flatten = streamOf ms)
include hc hs hd hv hflat

/-- what any partition of the stream asks of the router: the normal forms of the messages, one after the other -/
theorem recv_ops_eq :
    opsOf sv (pieces.map fun p => Event.recv i p none) = (routeAll i sv.router (ms.map C03.canon) 0 none).2.1.ops := by
  have h := (run_recvs i pieces sv c hc hs).2.1
  rw [hd, session_whole_delivered ms hv pieces hflat] at h
  exact h

theorem recv_router_eq :
    (run sv (pieces.map fun p => Event.recv i p none)).1.router = (routeAll i sv.router (ms.map C03.canon) 0 none).1 := by
  have h := (run_recvs i pieces sv c hc hs).1
  rw [hd, session_whole_delivered ms hv pieces hflat] at h
  exact h

theorem recv_conns_eq (hne : pieces ≠ []) :
    (run sv (pieces.map fun p => Event.recv i p none)).1.conns = sv.conns.map (setData i []) := by
  have h := (run_recvs i pieces sv c hc hs).2.2 hne
  rw [hd, session_whole_retained ms hv pieces hflat] at h
  exact h

/-- **fragmentation independence, end to end — the router operations** (the first conjunct of the target, under exactly
its hypotheses): a served connection with an empty receive buffer is sent the serialisations of ANY list of valid
wire-safe messages (each within the threshold), cut into ANY pieces; the router is handed exactly the same operations, in
the same order, as when the whole stream arrives in one read -/
theorem recv_fragmentation_independent_ops :
    opsOf sv (pieces.map fun p => Event.recv i p none) = opsOf sv [Event.recv i (streamOf ms) none] := by
  rw [recv_ops_eq sv i c hc hs hd ms hv pieces hflat]
  exact (recv_ops_eq sv i c hc hs hd ms hv [streamOf ms] (by simp)).symm

/-- … and the router ends in the same state (also under exactly the hypotheses of the target) -/
theorem recv_fragmentation_independent_router :
    (run sv (pieces.map fun p => Event.recv i p none)).1.router = (run sv [Event.recv i (streamOf ms) none]).1.router := by
  rw [recv_router_eq sv i c hc hs hd ms hv pieces hflat]
  exact (recv_router_eq sv i c hc hs hd ms hv [streamOf ms] (by simp)).symm

/-- the second conjunct of the target — equal final server states — under the one extra hypothesis it needs: when there
is no read at all (`pieces = []`, hence `ms = []`), the single empty read of the right-hand side rewrites the buffer of
EVERY connection record with id `i`, so all of them must be empty already (automatic when ids are distinct) -/
theorem recv_fragmentation_independent_state
    (hrep : pieces = [] → ∀ c' ∈ sv.conns, c'.id = i → c'.data = []) :
    (run sv (pieces.map fun p => Event.recv i p none)).1 = (run sv [Event.recv i (streamOf ms) none]).1 := by
  apply server_eq (recv_fragmentation_independent_router sv i c hc hs hd ms hv pieces hflat)
  have hR := recv_conns_eq sv i c hc hs hd ms hv [streamOf ms] (by simp) (by simp)
  simp only [List.map_cons, List.map_nil] at hR
  rw [hR]
  by_cases hne : pieces = []
  · subst hne
    show sv.conns = _
    have hall := hrep rfl
    have hm : sv.conns.map (setData i []) = sv.conns.map id := by
      apply List.map_congr_left
      intro c' hc'
      unfold setData
      split
      · rename_i hi
        have := hall c' hc' hi
        cases c'
        simp_all
      · rfl
    rw [hm, List.map_id]
  · exact recv_conns_eq sv i c hc hs hd ms hv pieces hflat hne

end

/-- with distinct connection ids the record found for `i` is the only one with that id -/
theorem conn?_unique {sv : Server} {i : Nat} {c : Conn} (hnd : (sv.conns.map (·.id)).Nodup)
    (hc : conn? sv i = some c) : ∀ c' ∈ sv.conns, c'.id = i → c' = c := by
  unfold conn? at hc
  generalize sv.conns = l at hnd hc
  induction l with
  | nil => intro c' h; cases h
  | cons x xs ih =>
    intro c' hc' hi
    simp only [List.map_cons, List.nodup_cons] at hnd
    simp only [List.find?_cons] at hc
    by_cases hx : x.id = i
    · simp only [hx, decide_true] at hc
      cases hc
      rcases List.mem_cons.mp hc' with e | e
      · exact e
      · exact absurd (List.mem_map.mpr ⟨c', e, hi.trans hx.symm⟩) hnd.1
    · simp only [hx, decide_false] at hc
      rcases List.mem_cons.mp hc' with e | e
      · subst e; exact absurd hi hx
      · exact ih hnd.2 hc c' e hi

/-- the target as originally stated (no extra hypothesis) is FALSE in its second conjunct: a server holding two records
with the same id (not reachable from `{}` by admissible events, but not excluded by the hypotheses), the second with a
non-empty buffer; no message, no read.  The left run leaves the server alone; the right run is one empty read, which
rewrites the buffer of both records. -/
theorem recv_fragmentation_independent_state_counterexample :
    ∃ (sv : Server) (i : Nat) (c : Conn) (ms : List Msg) (pieces : List Str),
      conn? sv i = some c ∧ c.serving = true ∧ c.data = [] ∧
      (∀ m ∈ ms, valid Generated.registry m = true ∧ wireSafe m = true ∧
        fits Generated.defaultThreshold (toString m)) ∧
      pieces.flatten = streamOf ms ∧
      (run sv (pieces.map fun p => Event.recv i p none)).1 ≠ (run sv [Event.recv i (streamOf ms) none]).1 := by
  refine ⟨{ conns := [{ id := 0 }, { id := 0, data := s "x" }] }, 0, { id := 0 }, [], [], rfl, rfl, rfl,
    fun m hm => (by cases hm), rfl, ?_⟩
  intro h
  have h2 := congrArg Server.conns h
  have hR := recv_conns_eq { conns := [{ id := 0 }, { id := 0, data := s "x" }] } 0 { id := 0 } rfl rfl rfl []
    (fun m hm => by cases hm) [streamOf []] (by simp) (by simp)
  simp only [List.map_cons, List.map_nil] at hR
  rw [hR] at h2
  revert h2
  decide

/-- **fragmentation independence, end to end**: a served connection with an empty receive buffer is sent the serialisations
of ANY list of valid wire-safe messages (each within the threshold), cut into ANY pieces; the router is handed exactly the
same operations, in the same order, as when the whole stream arrives in one read — and the server ends in the same state.

REPAIRED STATEMENT: the one extra hypothesis `hrep` (needed for the second conjunct only, and only when there is no read
at all; see `recv_fragmentation_independent_state_counterexample`).  It follows from distinct connection ids
(`recv_fragmentation_independent_wf`), and is vacuous when `pieces ≠ []`, in particular when `ms ≠ []`
(`recv_fragmentation_independent_ne`). -/
theorem recv_fragmentation_independent (sv : Server) (i : Nat) (c : Conn)
    (hc : conn? sv i = some c) (hs : c.serving = true) (hd : c.data = [])
    (ms : List Msg)
    (hv : ∀ m ∈ ms, valid Generated.registry m = true ∧ wireSafe m = true ∧ fits Generated.defaultThreshold (toString m))
    (pieces : List Str) (hflat : pieces.flatten = streamOf ms)
    (hrep : pieces = [] → ∀ c' ∈ sv.conns, c'.id = i → c'.data = []) :
    opsOf sv (pieces.map fun p => Event.recv i p none) = opsOf sv [Event.recv i (streamOf ms) none] ∧
    (run sv (pieces.map fun p => Event.recv i p none)).1 = (run sv [Event.recv i (streamOf ms) none]).1 :=
  ⟨recv_fragmentation_independent_ops sv i c hc hs hd ms hv pieces hflat,
   recv_fragmentation_independent_state sv i c hc hs hd ms hv pieces hflat hrep⟩

/-- the original conclusion for every server with distinct connection ids — in particular every well-formed server
(`WF`, an invariant of all admissible events from `{}`: `wf_init`, `wf_step`) -/
theorem recv_fragmentation_independent_nodup (sv : Server) (i : Nat) (c : Conn)
    (hnd : (sv.conns.map (·.id)).Nodup)
    (hc : conn? sv i = some c) (hs : c.serving = true) (hd : c.data = [])
    (ms : List Msg)
    (hv : ∀ m ∈ ms, valid Generated.registry m = true ∧ wireSafe m = true ∧ fits Generated.defaultThreshold (toString m))
    (pieces : List Str) (hflat : pieces.flatten = streamOf ms) :
    opsOf sv (pieces.map fun p => Event.recv i p none) = opsOf sv [Event.recv i (streamOf ms) none] ∧
    (run sv (pieces.map fun p => Event.recv i p none)).1 = (run sv [Event.recv i (streamOf ms) none]).1 :=
  recv_fragmentation_independent sv i c hc hs hd ms hv pieces hflat
    (fun _ c' hc' hi => by rw [conn?_unique hnd hc c' hc' hi]; exact hd)

theorem recv_fragmentation_independent_wf (sv : Server) (i : Nat) (c : Conn) (hwf : WF sv)
    (hc : conn? sv i = some c) (hs : c.serving = true) (hd : c.data = [])
    (ms : List Msg)
    (hv : ∀ m ∈ ms, valid Generated.registry m = true ∧ wireSafe m = true ∧ fits Generated.defaultThreshold (toString m))
    (pieces : List Str) (hflat : pieces.flatten = streamOf ms) :
    opsOf sv (pieces.map fun p => Event.recv i p none) = opsOf sv [Event.recv i (streamOf ms) none] ∧
    (run sv (pieces.map fun p => Event.recv i p none)).1 = (run sv [Event.recv i (streamOf ms) none]).1 :=
  recv_fragmentation_independent_nodup sv i c hwf.1 hc hs hd ms hv pieces hflat

/-- the original conclusion for every server whatsoever, as soon as at least one message is sent -/
theorem recv_fragmentation_independent_ne (sv : Server) (i : Nat) (c : Conn)
    (hc : conn? sv i = some c) (hs : c.serving = true) (hd : c.data = [])
    (ms : List Msg) (hne : ms ≠ [])
    (hv : ∀ m ∈ ms, valid Generated.registry m = true ∧ wireSafe m = true ∧ fits Generated.defaultThreshold (toString m))
    (pieces : List Str) (hflat : pieces.flatten = streamOf ms) :
    opsOf sv (pieces.map fun p => Event.recv i p none) = opsOf sv [Event.recv i (streamOf ms) none] ∧
    (run sv (pieces.map fun p => Event.recv i p none)).1 = (run sv [Event.recv i (streamOf ms) none]).1 :=
  recv_fragmentation_independent sv i c hc hs hd ms hv pieces hflat
    (fun hp => by
      subst hp
      exact absurd (streamOf_eq_nil (by simpa using hflat.symm)) hne)



/-! ### the hypotheses are satisfiable, and the conclusion says something -/

section Example
open Indi.Xml

/-- a server with one device and two connected clients -/
def exampleServer : Server :=
  (step (step (step {} (.device { id := 7, name := s "D" })).1 (.connect 0 true)).1 (.connect 1 false)).1

example : WF exampleServer :=
  wf_step _ _ (wf_step _ _ (wf_step _ _ wf_init trivial) (by unfold admissible; decide +kernel)) (by unfold admissible; decide +kernel)

def exampleStream : Str := streamOf [exampleMsg, exampleMsg]
def examplePieces : List Str :=
  [exampleStream.take 40, (exampleStream.drop 40).take 100, (exampleStream.drop 140).take 102]

/-- two messages for the device, cut inside the first element, inside the declaration of the second and before the
final newline: the router is asked to route both, in order, exactly as for one read -/
example :
    opsOf exampleServer (examplePieces.map fun p => Event.recv 0 p none) =
      opsOf exampleServer [Event.recv 0 exampleStream none] ∧
    (opsOf exampleServer [Event.recv 0 exampleStream none]).length = 2 := by
  refine ⟨?_, by decide +kernel⟩
  have hv : ∀ m ∈ [exampleMsg, exampleMsg], valid Generated.registry m = true ∧ wireSafe m = true ∧
      fits Generated.defaultThreshold (toString m) := by
    intro m hm
    simp only [List.mem_cons, List.not_mem_nil, or_false, or_self] at hm
    subst hm
    exact ⟨by decide +kernel, by decide +kernel, by simp only [fits, Generated.defaultThreshold]; decide +kernel⟩
  have hflat : examplePieces.flatten = streamOf [exampleMsg, exampleMsg] := by decide +kernel
  exact recv_fragmentation_independent_ops exampleServer 0 { id := 0 } (by decide +kernel) rfl rfl
    [exampleMsg, exampleMsg] hv examplePieces hflat

end Example

end Indi.Conn
