/-
  The decision expressions regenerated from the repository's source on every run (Generated/Decisions.lean, translated by
  tools/extract_decisions.py) agree with the decisions the hand-written models make — one file per area under
  Properties/Dec/, each imported by the audits of exactly the properties that rest on it; this file only collects them.
-/
import Indi.Properties.Dec.Router
import Indi.Properties.Dec.Buffer
import Indi.Properties.Dec.Callback
import Indi.Properties.Dec.Switch
import Indi.Properties.Dec.Vector
import Indi.Properties.Dec.Wait
import Indi.Properties.Dec.Driver

namespace Indi.Decisions
open Indi

/-- how many of the twenty-three sites the translator followed on this tree -/
def translatedSites : Nat :=
  [Generated.routerDeliver?.isSome, Generated.routerIsBlob?.isSome, Generated.driverAccepts?.isSome,
   Generated.bufLoopGuard?.isSome, Generated.bufCleanupDue?.isSome, Generated.callbackAccepts?.isSome,
   Generated.routerToDevice?.isSome, Generated.routerToClient?.isSome, Generated.bufSkip?.isSome,
   Generated.switchTurnsOn?.isSome, Generated.switchClearsOthers?.isSome, Generated.switchKeepsLast?.isSome,
   Generated.switchIsOtherOn?.isSome, Generated.switchNoOtherOn?.isSome, Generated.vectorEnabled?.isSome,
   Generated.waitRelease?.isSome, Generated.waitPollGuard?.isSome, Generated.waitTimeoutGuard?.isSome,
   Generated.waitTimeoutArmed?.isSome, Generated.setValueDefault?.isSome, Generated.toSetSilent?.isSome,
   Generated.toDefDeletes?.isSome, Generated.driverGetAll?.isSome].count true

end Indi.Decisions
