/-
  The decision expressions regenerated from the repository's source on every run (Generated/Decisions.lean, translated by
  tools/extract_decisions.py) agree, on their whole domain, with the decisions the hand-written models make.

  Each generated definition is `some f` (the translated Python expression) or `none` (the translator could not follow a
  restructured source: the statement then holds vacuously and that site is tied by the correspondence alone).
-/
import Indi.Generated.Decisions
import Indi.Generated.Registry
import Indi.Model.Rtr
import Indi.Model.RtrGlue
import Indi.Model.Buf
import Indi.Model.Cli

namespace Indi.Decisions
open Indi

def policyStr : Rtr.Policy → Str
  | .never => s "Never"
  | .also => s "Also"
  | .only => s "Only"

/-- the delivery condition of `Router.process_message` is the model's `deliverCond`, for both kinds of message and all
three policies -/
theorem routerDeliver_agrees (f : Bool → Str → Bool) (h : Generated.routerDeliver? = some f) (b : Bool) (p : Rtr.Policy) :
    f b (policyStr p) = Rtr.deliverCond b p := by
  unfold Generated.routerDeliver? at h
  cases h
  all_goals (cases b <;> cases p <;> decide +kernel)

/-- `is_blob` is true exactly for `setBLOBVector` among the registered message classes (what `Rtr.rmsgOf` assumes) -/
theorem routerIsBlob_agrees (f : Str → Bool) (h : Generated.routerIsBlob? = some f) :
    ∀ c ∈ Generated.messageClasses, f c.tag = (c.tag == s "setBLOBVector") := by
  unfold Generated.routerIsBlob? at h
  cases h
  all_goals decide +kernel

/-- `Driver.accepts` is the model's `accepts` for a named device -/
theorem driverAccepts_agrees (f : Option Str → Str → Bool) (h : Generated.driverAccepts? = some f)
    (i : Nat) (name : Str) (device : Option Str) :
    f device name = Rtr.accepts ⟨i, some name⟩ device := by
  unfold Generated.driverAccepts? at h
  cases h
  all_goals (cases device <;> simp [Rtr.accepts])

/-- the loop guard of `_find_message_in_buffer`: at least one more character after position `pos`
(the model's `scan` stops when fewer than two characters are left: `cs.length < 2`) -/
theorem bufLoopGuard_agrees (f : Nat → Nat → Bool) (h : Generated.bufLoopGuard? = some f) (pos len : Nat) :
    f pos len = decide (pos + 1 < len) := by
  unfold Generated.bufLoopGuard? at h
  cases h
  all_goals (simp only [decide_eq_decide]; omega)

/-- junk recovery is due exactly when a threshold is set and more than that is retained (the model's `processLoop`) -/
theorem bufCleanupDue_agrees (f : Option Nat → Nat → Bool) (h : Generated.bufCleanupDue? = some f) (T : Option Nat) (n : Nat) :
    f T n = (match T with | some t => decide (n > t) | none => false) := by
  unfold Generated.bufCleanupDue? at h
  cases h
  all_goals (cases T <;> simp)

/-- `_CallbackConfig.accepts_event` is the model's `Cli.accepts` -/
theorem callbackAccepts_agrees
    (f : Option Str → Option Str → Option Str → Option Str → Option Str → Option Str → Bool → Bool)
    (h : Generated.callbackAccepts? = some f) (cb : Cli.Callback) (ev : Cli.Event) :
    f cb.device cb.vector cb.element (Cli.evDev ev) (Cli.evVec ev) (Cli.evElem ev) (Cli.evIs cb.evType ev) = Cli.accepts cb ev := by
  unfold Generated.callbackAccepts? at h
  cases h
  all_goals (simp only [Cli.accepts]; cases cb.device <;> cases cb.vector <;> cases cb.element <;> simp [Option.isNone])

/-- how many of the six sites the translator followed on this tree -/
def translatedSites : Nat :=
  [Generated.routerDeliver?.isSome, Generated.routerIsBlob?.isSome, Generated.driverAccepts?.isSome,
   Generated.bufLoopGuard?.isSome, Generated.bufCleanupDue?.isSome, Generated.callbackAccepts?.isSome].count true

end Indi.Decisions
