/-
  C10, continued: the arithmetic assumption of `C10_sexa_roundtrip` is discharged for the arithmetic the
  executable model uses (`exactIEEE`: binary64 round-to-nearest-even in the normal range, `Num.flIEEE`),
  so the round trip holds for the model as it runs in the correspondence, not only for an abstract
  correctly-rounding arithmetic.
  (Separate file: the accuracy proof builds on estimates in Proofs/Sys06.lean, which itself uses Properties/C10.)
-/
import Indi.Properties.C10
import Indi.Proofs.NumIEEE

namespace Indi.Num
open Indi Indi.Spec.Num

/-- the model's binary64 rounding has relative error at most 2⁻⁵³ -/
theorem exactIEEE_accurate : Arith.Accurate exactIEEE := fun q => flIEEE_accurate53 q

/-- (c) round trip with the model's own arithmetic: parsing what was rendered gives the value back within the
resolution -/
theorem C10_sexa_roundtrip_ieee (frac base : Nat) (hb : sexaBase frac = some base)
    (x : Rat) (hx : absR x ≤ 10 ^ 9) (text : Str) (h : render exactIEEE (.sexa frac) x = .ok text) :
    ∃ v, strToNum exactIEEE text = .ok (.float v) ∧ absR (v - x) * base ≤ 1 :=
  C10_sexa_roundtrip exactIEEE exactIEEE_accurate frac base hb x hx text h

end Indi.Num
