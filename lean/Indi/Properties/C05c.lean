/-
  C05 and the router's configurable default (`Router.DEFAULT_BLOB_POLICY` is a class attribute an application may override):
  the policy table never depends on the default, and what a client that has set its own policy for a device receives from that
  device is the same under every default.  (The statement behind the differential oracle `run_defaults` of tools/comp_router.py.)
-/
import Indi.Model.Rtr

namespace Indi.Rtr

/-- `self.blob_routing.get(client, {}).get(device_name, self.DEFAULT_BLOB_POLICY)` with the default as a parameter -/
def policyLookupD (dflt : Policy) (σ : State) (c : Nat) (device : Option Str) : Policy :=
  match nlookup c σ.blob with
  | none => dflt
  | some d => (olookup device d).getD dflt

/-- `process_message` on a router whose default policy is `dflt` -/
def processD (dflt : Policy) (σ : State) (m : RMsg) (sender : Sender) : State × List Target :=
  let σ1 := if m.fromClient && m.isEnableBlob then processEnableBlob σ m sender else σ
  let devs := if m.fromClient then
      (σ1.devices.filter fun d => Sender.dev d.id ≠ sender && accepts d m.device).map fun d => Target.dev d.id
    else []
  let clis := if m.fromDevice then
      (σ1.clients.filter fun c => Sender.cli c ≠ sender && deliverCond m.isBlob (policyLookupD dflt σ1 c m.device)).map Target.cli
    else []
  (σ1, devs ++ clis)

def stepD (dflt : Policy) (σ : State) : Op → State × List Target
  | .send m s => processD dflt σ m s
  | op => step σ op

def runD (dflt : Policy) (h : List Op) : State := h.foldl (fun σ op => (stepD dflt σ op).1) init

/-- the library's router is the instance with the default `Never` -/
theorem processD_default (σ : State) (m : RMsg) (s : Sender) : processD defaultPolicy σ m s = process σ m s := rfl

/-- the state a history leads to (devices, clients, policy table) does not depend on the default -/
theorem stepD_state (d1 d2 : Policy) (σ : State) (op : Op) : (stepD d1 σ op).1 = (stepD d2 σ op).1 := by
  cases op <;> rfl

theorem runD_independent (d1 d2 : Policy) (h : List Op) : runD d1 h = runD d2 h := by
  unfold runD
  generalize init = σ
  induction h generalizing σ with
  | nil => rfl
  | cons op rest ih =>
    simp only [List.foldl_cons]
    rw [stepD_state d1 d2 σ op]
    exact ih _

/-- a client with its own setting for the device: the looked-up policy is that setting, whatever the default -/
theorem explicit_policy (dflt : Policy) (σ : State) (c : Nat) (device : Option Str) (t : List (Option Str × Policy)) (p : Policy)
    (h1 : nlookup c σ.blob = some t) (h2 : olookup device t = some p) : policyLookupD dflt σ c device = p := by
  simp [policyLookupD, h1, h2]

/-- **explicit settings do not depend on the router's default**: a device message is delivered to a client that has its own
setting for that device under default `d1` iff it is under default `d2` -/
theorem C05_explicit_independent_of_default (d1 d2 : Policy) (σ : State) (m : RMsg) (sender : Sender) (c : Nat)
    (t : List (Option Str × Policy)) (p : Policy)
    (hnc : (m.fromClient && m.isEnableBlob) = false)
    (h1 : nlookup c σ.blob = some t) (h2 : olookup m.device t = some p) :
    (Target.cli c ∈ (processD d1 σ m sender).2) ↔ (Target.cli c ∈ (processD d2 σ m sender).2) := by
  have e1 := explicit_policy d1 σ c m.device t p h1 h2
  have e2 := explicit_policy d2 σ c m.device t p h1 h2
  unfold processD
  simp only [hnc, Bool.false_eq_true, if_false]
  cases hfc : m.fromClient <;> cases hfd : m.fromDevice <;>
    simp [List.mem_append, List.mem_map, List.mem_filter, e1, e2]

end Indi.Rtr
