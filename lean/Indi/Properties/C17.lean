/-
  C17 — Waiting for an event returns the first match or times out, whatever the timing.

  `Wait.run` is the operational model of `waitforevent` (instant by instant: synchronous
  deliveries, then the polling and timeout task steps in timer-creation order, then the
  waiter); `Spec.Wait` states the result declaratively over the whole timed sequence.
  All three statements are proved (invariant over instants, Proofs/Wait.lean).
-/
import Indi.Spec.Wait
import Indi.Proofs.Wait

namespace Indi.Wait
open Indi.Spec.Wait

/-- **C17**: for every configuration, every timed sequence of event batches (any number of batches, any number
of events per batch, any arrival instants ≥ 1, also coinciding with polling ticks or the timeout instant) and
every observation horizon, the operational model returns what the specification demands: the first matching
event if it arrives no later than the timeout instant, else a timeout exactly at the timeout instant, else it is
still pending; getProperties was sent exactly at the polling instants before completion; and a callback of the
wait is left iff it is still pending -/
theorem C17 (cfg : Cfg) (hd : 1 ≤ cfg.delay) (hi : 1 ≤ cfg.interval)
    (batches : List Batch) (hb : ∀ b ∈ batches, 1 ≤ b.1) (horizon : Nat) :
    holds cfg batches horizon (run cfg batches horizon).outcome (run cfg batches horizon).sends.reverse
      (run cfg batches horizon).cbRegistered = true := by
  have inv := inv_run cfg hd hi batches hb horizon
  simp [holds, expectedCbLeft, inv.outcome, inv.sends, inv.cb]

/-- never both, never neither: the outcome is an event only if a matching event arrived (at that instant, at
that index), a timeout only at the configured instant and only if no matching event arrived up to it -/
theorem C17_event_is_genuine (cfg : Cfg) (hd : 1 ≤ cfg.delay) (hi : 1 ≤ cfg.interval)
    (batches : List Batch) (hb : ∀ b ∈ batches, 1 ≤ b.1) (horizon t i : Nat)
    (h : (run cfg batches horizon).outcome = .event t i) :
    firstMatch batches horizon = some (t, i) ∧ (∀ τ, effectiveTimeout cfg = some τ → t ≤ τ) := by
  have inv := inv_run cfg hd hi batches hb horizon
  rw [inv.outcome] at h
  unfold expectedOutcome at h
  cases hm : firstMatch batches horizon with
  | none =>
    rw [hm] at h
    cases he : effectiveTimeout cfg with
    | none => simp [he] at h
    | some τ =>
      simp only [he] at h
      split at h <;> simp at h
  | some p =>
    obtain ⟨t', i'⟩ := p
    rw [hm] at h
    cases he : effectiveTimeout cfg with
    | none =>
      simp only [he] at h
      simp at h
      simp [h.1, h.2]
    | some τ =>
      simp only [he] at h
      split at h
      · simp at h
        obtain ⟨rfl, rfl⟩ := h
        simpa
      · split at h <;> simp at h

theorem C17_timeout_is_genuine (cfg : Cfg) (hd : 1 ≤ cfg.delay) (hi : 1 ≤ cfg.interval)
    (batches : List Batch) (hb : ∀ b ∈ batches, 1 ≤ b.1) (horizon t : Nat)
    (h : (run cfg batches horizon).outcome = .timeout t) :
    effectiveTimeout cfg = some t ∧ t ≤ horizon ∧
      (∀ tm i, firstMatch batches horizon = some (tm, i) → t < tm) := by
  have inv := inv_run cfg hd hi batches hb horizon
  rw [inv.outcome] at h
  unfold expectedOutcome at h
  cases hm : firstMatch batches horizon with
  | none =>
    rw [hm] at h
    cases he : effectiveTimeout cfg with
    | none => simp [he] at h
    | some τ =>
      simp only [he] at h
      split at h
      · simp at h
        subst h
        simpa
      · simp at h
  | some p =>
    obtain ⟨t', i'⟩ := p
    rw [hm] at h
    cases he : effectiveTimeout cfg with
    | none => simp [he] at h
    | some τ =>
      simp only [he] at h
      split at h
      · simp at h
      · split at h
        · simp at h
          subst h
          refine ⟨rfl, by assumption, ?_⟩
          intro tm i hh
          simp at hh
          omega
        · simp at h

end Indi.Wait
