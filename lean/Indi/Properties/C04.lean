/-
  C04 — Client messages reach exactly the addressed devices.

  `Rtr.step/process` is the model of `Router.process_message`
  (indi/routing/router.py); histories are arbitrary lists of register-device /
  register-client / unregister-client / send operations (enableBLOB is a send).
-/
import Indi.Proofs.RtrDeliver
import Indi.Model.RtrGlue
import Indi.Generated.Registry

namespace Indi.Rtr
open Indi.Spec.Rtr Indi

/-- **C04 (devices)**: after any history `h`, a client-originated message is handed to
exactly the registered devices (registration order) that are not its sender and accept its
device name; a message that is not client-originated reaches no device -/
theorem C04_devices (h : List Op) (m : RMsg) (sd : Sender) (i : Nat) :
    Target.dev i ∈ (step (run h) (.send m sd)).2 ↔
      (m.fromClient = true ∧ ∃ d ∈ devicesOf h, d.id = i ∧ Sender.dev i ≠ sd ∧ accepts d m.device = true) := by
  rw [process_deliveries, devices_eq]
  simp only [expected, devicesFor, clientsFor, List.mem_append]
  constructor
  · rintro (hm | hm)
    · split at hm
      · rename_i hfc
        obtain ⟨d, hd, he⟩ := List.mem_map.mp hm
        simp only [Target.dev.injEq] at he
        subst he
        simp only [List.mem_filter, Bool.and_eq_true, decide_eq_true_eq] at hd
        exact ⟨hfc, d, hd.1, rfl, hd.2.1, hd.2.2⟩
      · cases hm
    · split at hm
      · obtain ⟨c, _, he⟩ := List.mem_map.mp hm
        cases he
      · cases hm
  · rintro ⟨hfc, d, hd, rfl, hs, ha⟩
    left
    simp only [hfc, if_true]
    exact List.mem_map.mpr ⟨d, by simp [List.mem_filter, hd, hs, ha], rfl⟩

/-- the device part of the delivery list, in order: registration order, each device once
per registration -/
theorem C04_device_order (h : List Op) (m : RMsg) (sd : Sender) (hfc : m.fromClient = true)
    (hnd : m.fromDevice = false) :
    (step (run h) (.send m sd)).2 = devicesFor (devicesOf h) m sd := by
  rw [process_deliveries, devices_eq]
  simp [expected, hfc, hnd]

/-- exactly once: under the API precondition (no endpoint registered twice) no target
appears twice in the delivery list -/
theorem deliveries_nodup (h : List Op) (hwf : WellFormed h) (m : RMsg) (sd : Sender) :
    (step (run h) (.send m sd)).2.Nodup := by
  rw [process_deliveries, devices_eq]
  have hc := (clients_registered h.reverse hwf).1
  rw [← run_eq_runRev] at hc
  have hd := device_ids_nodup h.reverse hwf
  rw [List.reverse_reverse] at hd
  simp only [expected, devicesFor, clientsFor]
  rw [List.nodup_append]
  refine ⟨?_, ?_, ?_⟩
  · split
    · have : (List.map (fun d => d.id) (List.filter (fun d => decide (Sender.dev d.id ≠ sd) && accepts d m.device) (devicesOf h))).Nodup :=
        hd.sublist (List.Sublist.map _ List.filter_sublist)
      have h2 : (List.map (fun d : Dev => Target.dev d.id) (List.filter (fun d => decide (Sender.dev d.id ≠ sd) && accepts d m.device) (devicesOf h)))
          = (List.map (fun d => d.id) (List.filter (fun d => decide (Sender.dev d.id ≠ sd) && accepts d m.device) (devicesOf h))).map Target.dev := by
        simp
      rw [h2]
      exact List.Pairwise.map Target.dev (fun a b hab e => hab (by cases e; rfl)) this
    · simp
  · split
    · exact List.Pairwise.map Target.cli (fun a b hab e => hab (by cases e; rfl)) (hc.sublist List.filter_sublist)
    · simp
  · intro a ha b hb e
    subst e
    split at ha
    · split at hb
      · obtain ⟨d, _, e1⟩ := List.mem_map.mp ha
        obtain ⟨c, _, e2⟩ := List.mem_map.mp hb
        rw [← e1] at e2; cases e2
      · cases hb
    · cases ha

/-- never handed back to its sender -/
theorem C04_not_to_sender (h : List Op) (m : RMsg) (i : Nat) :
    Target.dev i ∉ (step (run h) (.send m (.dev i))).2 := by
  intro hm
  have := (C04_devices h m (.dev i) i).mp hm
  obtain ⟨_, d, _, _, hne, _⟩ := this
  exact hne rfl

/-- **C04 (no relay of device-bound messages)**: another client receives a
client-originated message only if its class is also device-originated ... -/
theorem C04_clients_only_if_fromDevice (h : List Op) (m : RMsg) (sd : Sender) (c : Nat)
    (hm : Target.cli c ∈ (step (run h) (.send m sd)).2) : m.fromDevice = true := by
  rw [process_deliveries] at hm
  simp only [expected, devicesFor, clientsFor, List.mem_append] at hm
  rcases hm with hm | hm
  · split at hm
    · obtain ⟨d, _, he⟩ := List.mem_map.mp hm
      cases he
    · cases hm
  · split at hm
    · assumption
    · cases hm

/-- ... and in the repository's class table the only client-originated class that is also
device-originated is getProperties (so new*Vector and enableBLOB are never forwarded to
other clients, and getProperties is relayed for snooping) -/
theorem C04_only_getProperties_is_relayed :
    ∀ c ∈ Generated.messageClasses, c.fromClient = true → c.fromDevice = true → c.tag = s "getProperties" := by
  decide +kernel

theorem C04_getProperties_is_relayed :
    (Generated.messageClasses.any fun c => c.tag = s "getProperties" && c.fromClient && c.fromDevice) = true := by
  decide +kernel

theorem C04_device_bound_kinds :
    ∀ t ∈ [s "newTextVector", s "newNumberVector", s "newSwitchVector", s "newBLOBVector", s "enableBLOB"],
      ∃ c, findClass t Generated.messageClasses = some c ∧ c.fromClient = true ∧ c.fromDevice = false := by
  decide +kernel

/-! non-vacuity: a concrete well-formed history with two devices, a catch-all and two clients -/

def exHist : List Op :=
  [.regDev ⟨0, some (s "A")⟩, .regDev ⟨1, some (s "B")⟩, .regDev ⟨2, none⟩, .regCli 10, .regCli 11]

def exNew : RMsg := { fromClient := true, fromDevice := false, isEnableBlob := false, isBlob := false,
                      device := some (s "A"), value := .never }

example : WellFormed exHist := by show wellFormedRev _ = true; decide +kernel
example : (step (run exHist) (.send exNew (.cli 10))).2 = [.dev 0, .dev 2] := by decide +kernel

end Indi.Rtr
