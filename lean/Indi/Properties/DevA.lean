/-
  C07, C12, C14 — theorems about the driver-framework model (Model/Dev.lean)
  against the executable specification (Spec/Dev.lean).  The specification
  predicates `c07Holds`, `c12Holds`, `c14Holds`, `readsBack` are the very
  oracles the checks evaluate on the implementation's observed behaviour.
  All statements are proved in this file from the lemmas of the Proofs directory.
-/
import Indi.Spec.Dev
import Indi.Generated.Registry
import Indi.Proofs.DevA

namespace Indi.Dev
open Indi Indi.Spec.Dev

/-- every reachable state of a well-formed driver is well-formed: each operation preserves `WF` -/
theorem step_wf (d : Device) (hwf : WF d = true) (op : Op) : WF (step d op).dev = true := by
  cases op with
  | assign a v =>
    exact (assign_rel (F := fun _ _ _ _ => True) d a v (fun _ _ _ _ _ => ⟨fun _ _ => trivial, trivial⟩)).wf' hwf
  | setValue a v =>
    exact (setValue_rel (F := fun _ _ _ _ => True) d a v (fun _ _ _ _ _ => ⟨fun _ _ => trivial, trivial⟩)).wf' hwf
  | state g v st => exact (setState_rel d g v st).wf hwf
  | enableVec g v b => exact (enableVec_rel d g v b).wf hwf
  | enableGroup g b => exact enableGroup_wf d hwf g b
  | enableElem a b => exact (enableElem_rel d a b).wf hwf
  | client m =>
    obtain ⟨F, h, _⟩ := fromClient_rel d m
    exact h.wf' hwf

/-- **C12**: no client message, whatever it names or carries, raises out of message handling -/
theorem C12_no_raise (d : Device) (hwf : WF d = true) (m : Msg) : (fromClient d m).exc = none := by
  unfold fromClient
  repeat' split
  all_goals first
    | exact sendDefs_exc _ d hwf
    | exact applyChildren_exc _ _ _ d
    | rfl

/-- **C12**: a client message changes nothing but the elements it validly names (switch siblings under the
rule, and elements with a refreshing Read handler, excepted) -/
theorem C12_frame (d : Device) (hwf : WF d = true) (m : Msg) :
    c12Holds d m false (fromClient d m).dev = true := by
  have _ := hwf
  obtain ⟨F, h, hF⟩ := fromClient_rel d m
  exact c12_of_rel d _ m F h hF

def countSets (ms : List Msg) : Nat := (ms.filter fun m => m.tag.take 3 = s "set").length

/-- **C14**: a client write (`set_value`) that is accepted obeys the event contract: every Write handler once
with the requested value (plain ones before any state change, coroutines as tasks); unless vetoed the element takes
the value, exactly one update is published iff the property is enabled, Change handlers once with (old, new) iff the
value changed; a vetoed write changes and publishes nothing -/
theorem C14_write (d : Device) (a : Addr) (val : Value) (g : Group) (v : Vec)
    (hv : getVec d a.g a.v = some (g, v)) (he : a.e < v.elems.length)
    (hnr : v.elems.any hasRefresh = false) (hok : (setValue d a val).exc = none) :
    c14Holds d a true val false (setValue d a val).calls (setValue d a val).tasks
      (countSets (setValue d a val).msgs) (setValue d a val).dev = some true := by
  exact c14_write_core d a val g v hv he hnr hok

/-- **C14**: a driver-side assignment behaves the same but raises no Write event -/
theorem C14_assign (d : Device) (a : Addr) (val : Value) (g : Group) (v : Vec)
    (hv : getVec d a.g a.v = some (g, v)) (he : a.e < v.elems.length)
    (hnr : v.elems.any hasRefresh = false) (hok : (assign d a val).exc = none) :
    c14Holds d a false val false (assign d a val).calls (assign d a val).tasks
      (countSets (assign d a val).msgs) (assign d a val).dev = some true := by
  exact c14_assign_core d a val g v hv he hnr hok

end Indi.Dev
