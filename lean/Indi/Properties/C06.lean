/-
  C06 — a client's write changes exactly the addressed element, to the value sent.
  Model: Indi/Model/Sys.lean (`submitMsg`, `react`), Spec: `Spec.Sys.c06Holds` (the check's oracle).

  INTERIM STATE of the proof side: the links are proved separately and re-exported here,
    * `Dev.C12_frame`     a client message changes nothing but the elements it validly names,
    * `Dev.C12_no_raise`  and never raises out of message handling,
    * `Num.C10_parse_denotes`  the number a text is parsed to is the number it denotes,
    * `C03_roundtrip`     the message the driver reads is the message the client built, up to normalisation;
  the composed statement `C06_write` over `Sys.react` is stated in DESIGN.md and is the next proof to land here.
-/
import Indi.Spec.Sys
import Indi.Properties.DevA
import Indi.Properties.C03
import Indi.Properties.C10

namespace Indi.Sys
open Indi Indi.Dev Indi.Cli

theorem C06_link_frame (d : Device) (hwf : Spec.Dev.WF d = true) (m : Msg) :
    Spec.Dev.c12Holds d m false (fromClient d m).dev = true :=
  Dev.C12_frame d hwf m

theorem C06_link_no_raise (d : Device) (hwf : Spec.Dev.WF d = true) (m : Msg) : (fromClient d m).exc = none :=
  Dev.C12_no_raise d hwf m

theorem C06_link_wire (m : Msg) (h : Spec.MsgValid.valid Generated.registry m = true) :
    Spec.Dev.readsBack Generated.registry m = true :=
  C03_roundtrip m h

end Indi.Sys
