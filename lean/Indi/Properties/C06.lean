/-
  C06 — a client's write changes exactly the addressed element, to the value sent.
  Model: Indi/Model/Sys.lean (`submitMsg`, `react`), Spec: `Spec.Sys.c06Holds` (the check's oracle).
  Helper lemmas and the side conditions `worldOk06`, `writesOkFor`: Proofs/Sys06.lean.

  `C06_write_for` is the theorem with the side condition on the writes depending on the kind of the submitting
  peer (in-process or network); `C06_write` is the statement in the drafted shape, with the peer-independent
  `writesOk`.  Every conjunct of the side conditions is justified by a kernel-checked counterexample below.
-/
import Indi.Spec.Sys
import Indi.Generated.Registry
import Indi.Proofs.Sys06

namespace Indi.Sys
open Indi Indi.Dev Indi.Cli Indi.Spec.Sys

/-- the submitted values are in the addressed property's domain, whoever submits them: `writesOkFor`
(Proofs/Sys06.lean) for an in-process peer (text must already be trimmed and non-empty, since the object is
handed over as it is) and for a network peer (a BLOB must carry a format, since `oneBLOB` requires it on the
wire).  The conjuncts of `writesOkFor inproc d prop writes`:
  * `prop` names a property of `d` (found as the driver finds it), which is enabled and not a light property;
  * no enabled element of it has a refreshing Read handler;
  * every `(name, value)`: exactly one element of the property has the name; it is enabled; none of its plain
    Write handlers vetoes; and the value is in the domain (`valOk06`): text as said above; a number text that
    `checks.number` accepts and whose value is finite (`check_value`); `On`/`Off`; bytes `< 256`. -/
def writesOk (d : Device) (prop : Str) (writes : List (Str × CVal)) : Bool :=
  writesOkFor true d prop writes && writesOkFor false d prop writes

/-- **C06** (by kind of peer): when peer `ci`, which sees the deployment as it is, submits new values for some
elements of one property of one device, every driver ends up as `c06Holds` demands -/
theorem C06_write_for (w : World) (ci : Nat) (dev prop : Str) (writes : List (Str × CVal))
    (hok : Indi.Sys.worldOk06 w.devs = true) (hs : allSynced w = true) (p : Peer) (hp : w.peers[ci]? = some p)
    (hw : ∀ d ∈ w.devs, d.name = dev → writesOkFor p.inproc d prop writes = true) :
    let ds' := (react Generated.registry w (.write ci dev prop writes)).1
    ds'.length = w.devs.length ∧
    ∀ p ∈ w.devs.zip ds', c06Holds p.1 dev prop (writes.map fun nv => (nv.1, asValue nv.2)) p.2 = true :=
  write_core w ci dev prop writes hok hs p hp hw

/-- **C06**: when peer `ci`, which sees the deployment as it is, submits new values for some elements of one
property of one device, every driver ends up as `c06Holds` demands: exactly those elements of that device take
the submitted values (text as it travels, numbers numerically equal, BLOBs byte for byte; switches subject to
the rule), nothing else anywhere changes -/
theorem C06_write (w : World) (ci : Nat) (dev prop : Str) (writes : List (Str × CVal))
    (hok : Indi.Sys.worldOk06 w.devs = true) (hs : allSynced w = true) (hci : ci < w.peers.length)
    (hw : ∀ d ∈ w.devs, d.name = dev → writesOk d prop writes = true) :
    let ds' := (react Generated.registry w (.write ci dev prop writes)).1
    ds'.length = w.devs.length ∧
    ∀ p ∈ w.devs.zip ds', c06Holds p.1 dev prop (writes.map fun nv => (nv.1, asValue nv.2)) p.2 = true := by
  have hp : w.peers[ci]? = some w.peers[ci] := List.getElem?_eq_getElem hci
  apply C06_write_for w ci dev prop writes hok hs _ hp
  intro d hd hn
  have := hw d hd hn
  simp only [writesOk, Bool.and_eq_true] at this
  cases w.peers[ci].inproc
  · exact this.2
  · exact this.1

end Indi.Sys

/-! ## satisfiability of the hypotheses, and the counterexamples that justify them (all kernel-checked) -/

namespace Indi.Sys.Ex06
open Indi Indi.Dev Indi.Cli Indi.Spec.Sys Indi.Sys

def reg := Generated.registry

def el (n : String) (v : Value) (en : Bool := true) (fmt : String := "") (veto : Bool := false)
    (refresh : Option Value := none) : Dev.Elem :=
  { d := { name := s n, label := s n, format := s fmt, min := s "0", max := s "0", step := s "0",
           writeH := if veto then [{ id := 1, async := false, veto := true }] else [], refresh := refresh },
    value := v, enabled := en }

def vec (n : String) (k : Kind) (elems : List Dev.Elem) (en : Bool := true) : Vec :=
  { name := s n, label := s n, kind := k, perm := some (s "rw"), timeout := some (s "60"),
    rule := if k = .switch then some .oneOfMany else none, state := s "Ok", enabled := en, elems := elems }

def dev (n : String) (vecs : List Vec) : Device := { name := s n, groups := [{ name := s "Main", enabled := true, vecs := vecs }] }

/-- peers: network with BLOBs, network without, in-process -/
def kinds : List (Bool × Bool × Bool) := [(true, false, false), (false, false, false), (false, true, false)]

/-- the conclusion of `C06_write` fails -/
def fails (w : World) (ci : Nat) (dv prop : String) (writes : List (Str × CVal)) : Bool :=
  (w.devs.zip (react reg w (.write ci (s dv) (s prop) writes)).1).any fun p =>
    !c06Holds p.1 (s dv) (s prop) (writes.map fun nv => (nv.1, asValue nv.2)) p.2

/-- all hypotheses of `C06_write` hold -/
def hyps (w : World) (ci : Nat) (dv prop : String) (writes : List (Str × CVal)) : Bool :=
  worldOk06 w.devs && allSynced w && decide (ci < w.peers.length) &&
  w.devs.all fun d => d.name != s dv || writesOk d (s prop) writes

/-! ### a non-trivial instance: two drivers, all four writable kinds, network and in-process peers -/

def mount : Device := dev "mount"
  [vec "COORD" .number [el "ra" (.num 1 false) true "%9.6m", el "dec" (.num 2 false) true "%5.2f", el "hid" (.num 0 true) false "%d"],
   vec "NAME" .text [el "site" (.text (s "home")), el "obs" .none],
   vec "TRACK" .switch [el "on" (.text (s "Off")), el "off" (.text (s "On"))],
   vec "FW" .blob [el "image" .none]]

def cam : Device := dev "cam" [vec "NAME" .text [el "site" (.text (s "x"))]]

def w0 : World := start reg [mount, cam] kinds

example :
    hyps w0 0 "mount" "COORD" [(s "ra", .text (s "12:30:15.5")), (s "dec", .text (s "-3.25")), (s "ra", .text (s "7"))] = true ∧
    hyps w0 2 "mount" "COORD" [(s "dec", .text (s "+.5\n"))] = true ∧
    hyps w0 2 "mount" "NAME" [(s "obs", .text (s "me and you"))] = true ∧
    hyps w0 1 "mount" "TRACK" [(s "on", .text (s "On"))] = true ∧
    hyps w0 0 "mount" "FW" [(s "image", .blob [1, 2, 255] (some (s ".bin")))] = true := by
  decide +kernel


/-! ### counterexamples: what goes wrong without each conjunct (every world below is synchronised by the real
handshake, `allSynced`, and the conclusion of `C06_write` fails) -/

def base (w : World) : Bool := allSynced w

/-- `worldOk06` (distinct property names): the driver has two enabled properties named `P` with the same content;
a client sees one property `P`.  It writes `x := "new"`: `driver._vectors["P"]` is the second one, which takes the
value; the first keeps `"old"`. -/
def wNames : World := start reg [dev "d" [vec "P" .text [el "x" (.text (s "old"))], vec "P" .text [el "x" (.text (s "old"))]]] kinds
theorem C06_needs_distinct_property_names :
    base wNames = true ∧ worldOk06 wNames.devs = false ∧
    (wNames.devs.all fun d => writesOk d (s "P") [(s "x", .text (s "new"))]) = true ∧
    fails wNames 0 "d" "P" [(s "x", .text (s "new"))] = true := by decide +kernel

/-- exactly one element has the name: the property has an enabled element `x` and a disabled element also named
`x`.  The client knows the enabled one and writes it; `vector._elements_by_name["x"]` is the later, disabled one,
which takes the value; the enabled one keeps `"old"`. -/
def wDup : World := start reg [dev "d" [vec "P" .text [el "x" (.text (s "old")), el "x" (.text (s "hidden")) false]]] kinds
theorem C06_needs_unique_element_name :
    base wDup = true ∧ worldOk06 wDup.devs = true ∧ fails wDup 0 "d" "P" [(s "x", .text (s "new"))] = true := by
  decide +kernel

/-- the element is enabled: a disabled element is not in the client's mirror; assigning to it raises (KeyError)
and nothing is sent. -/
def wDis : World := start reg [dev "d" [vec "P" .text [el "x" (.text (s "old")), el "y" (.text (s "old")) false]]] kinds
theorem C06_needs_enabled_element :
    base wDis = true ∧ worldOk06 wDis.devs = true ∧ fails wDis 0 "d" "P" [(s "y", .text (s "new"))] = true := by
  decide +kernel

/-- the property is enabled: a disabled property is not in the client's mirror. -/
def wDisP : World := start reg [dev "d" [vec "P" .text [el "x" (.text (s "old"))] false]] kinds
theorem C06_needs_enabled_property :
    base wDisP = true ∧ worldOk06 wDisP.devs = true ∧ fails wDisP 0 "d" "P" [(s "x", .text (s "new"))] = true := by
  decide +kernel

/-- no vetoing Write handler: a plain Write handler that calls `prevent_default` keeps the old value (by design). -/
def wVeto : World := start reg [dev "d" [vec "P" .text [el "x" (.text (s "old")) true "" true]]] kinds
theorem C06_needs_no_veto :
    base wVeto = true ∧ worldOk06 wVeto.devs = true ∧ fails wVeto 0 "d" "P" [(s "x", .text (s "new"))] = true := by
  decide +kernel

/-- no refreshing Read handler on an enabled element: the sibling `y` holds `"a"` but its Read handler resets it to
`"b"` whenever it is read.  The write to `x` publishes the property, which reads `y`: `y` changes although it was not
written.  (The peers were synchronised by the handshake, which already showed them `"b"`; the driver's stored value
was still `"a"`.) -/
def wRefresh : World :=
  { devs := [dev "d" [vec "P" .text [el "x" (.text (s "old")), el "y" (.text (s "a")) true "" false (some (.text (s "b")))]]],
    peers := (start reg [dev "d" [vec "P" .text [el "x" (.text (s "old")), el "y" (.text (s "a")) true "" false (some (.text (s "b")))]]] kinds).peers }
theorem C06_needs_no_refresh :
    base wRefresh = true ∧ worldOk06 wRefresh.devs = true ∧ fails wRefresh 0 "d" "P" [(s "x", .text (s "new"))] = true := by
  decide +kernel

def wText : World := start reg [dev "d" [vec "P" .text [el "x" (.text (s "old"))]]] kinds

/-- text from an in-process peer must be trimmed: the object is handed over as it is, the element takes `" a "`,
while `c06Holds` (text as it travels) expects `"a"`; likewise `""` is stored as `""`, not as absent. -/
theorem C06_needs_trimmed_text_inproc :
    base wText = true ∧ worldOk06 wText.devs = true ∧
    fails wText 2 "d" "P" [(s "x", .text (s " a "))] = true ∧ fails wText 2 "d" "P" [(s "x", .text [])] = true ∧
    -- the same writes by the network peer are fine
    fails wText 0 "d" "P" [(s "x", .text (s " a "))] = false ∧ fails wText 0 "d" "P" [(s "x", .text [])] = false := by
  decide +kernel

/-- blank text over the network: `" "` is serialised, read back by `from_xml` as `""` (C03's finding) and stored as
`""`, while the normalisation `c06Holds` uses says absent (`None`). -/
theorem C06_needs_nonblank_text_network :
    fails wText 0 "d" "P" [(s "x", .text (s " "))] = true := by decide +kernel

def wNum : World := start reg [dev "d" [vec "N" .number [el "x" (.num 1 false) true "%f"]]] kinds

/-- a number text must pass `checks.number` (else `OneNumber(...)` raises in `submit()` and nothing is sent) and
denote a finite value (else `check_value` raises and the element keeps its value) -/
theorem C06_needs_number_domain :
    base wNum = true ∧ worldOk06 wNum.devs = true ∧
    fails wNum 0 "d" "N" [(s "x", .text (s " 3 "))] = true ∧
    fails wNum 0 "d" "N" [(s "x", .text (s "1e5"))] = true ∧
    fails wNum 0 "d" "N" [(s "x", .text ('1' :: List.replicate 400 '0'))] = true ∧
    fails wNum 0 "d" "N" [(s "x", .text (s "3"))] = false := by
  decide +kernel

def wBlob : World := start reg [dev "d" [vec "B" .blob [el "x" .none]]] kinds

/-- a BLOB written by a network peer must carry a format (`oneBLOB` without `format`: `from_xml` raises TypeError,
the message is dropped); the in-process peer's write is fine.  Bytes must be bytes (a model artefact: `300` is
encoded as `"/A=="` and comes back as `252`). -/
theorem C06_needs_blob_domain :
    base wBlob = true ∧ worldOk06 wBlob.devs = true ∧
    fails wBlob 0 "d" "B" [(s "x", .blob [1] none)] = true ∧
    fails wBlob 2 "d" "B" [(s "x", .blob [1] none)] = false ∧
    fails wBlob 0 "d" "B" [(s "x", .blob [300] (some (s ".bin")))] = true := by
  decide +kernel

def wLight : World := start reg [dev "d" [vec "L" .light [el "x" (.text (s "Ok"))]]] kinds

/-- lights cannot be written -/
theorem C06_needs_writable_kind :
    base wLight = true ∧ worldOk06 wLight.devs = true ∧ fails wLight 0 "d" "L" [(s "x", .text (s "Busy"))] = true := by
  decide +kernel


def wSwitch : World := start reg [dev "d" [vec "S" .switch [el "a" (.text (s "On")), el "b" (.text (s "Off"))]]] kinds

/-- REMARK (no counterexample): for switch properties `c06Holds` demands nothing of the values (they are subject
to the rule, C09), so a rejected value (`OneSwitch(value="Maybe")` raises in `submit()`, nothing is sent) does not
falsify the statement.  `valOk06` nevertheless asks for `On`/`Off`: it is what makes the part accepted, and the
proof goes through the submitted message. -/
theorem C06_switch_values_remark :
    base wSwitch = true ∧ fails wSwitch 0 "d" "S" [(s "a", .text (s "Maybe"))] = false ∧
    fails wSwitch 0 "d" "S" [(s "b", .text (s "On"))] = false := by
  decide +kernel

end Indi.Sys.Ex06
