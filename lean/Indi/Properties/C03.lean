/-
  C03 — Serialize-then-parse is the identity on protocol messages (message level).

  `toXml` is the model of `to_xml` (attributes of a message sorted by name, of a part in
  `__dict__` order, `None` attributes omitted, the text value, the children), `fromXml` the
  model of `from_xml` over the class table regenerated from the repository.  The character
  level (ElementTree's writer, expat) is tied by the `xml`/`codec` correspondence.

  Proofs: `Indi/Proofs/C03.lean` (generic in the class table; the table itself enters through
  one kernel-checked well-formedness fact, `Indi.C03.regW_generated`).

  `C03_roundtrip` and `C03_parsed_valid` are proved as originally stated.  `C03_fixed_point`
  as originally stated (without `hblank`) is FALSE — see `C03_fixed_point_counterexample`
  below and `COUNTEREXAMPLE_C03.md` — and is proved with the extra hypothesis `noBlankText m`.
-/
import Indi.Spec.MsgValid
import Indi.Generated.Registry
import Indi.Proofs.C03

namespace Indi
open Indi.Spec.MsgValid Indi.Spec.Dev

/-- **C03**: every valid message of every registered kind (all 22, including plain `message` notices), with any
combination of optional attributes, any number of children and any text, is read back as a message of the same
kind with the same attributes and the same children in the same order with the same values, up to the
normalisation that surrounding whitespace of text values is trimmed and empty text equals absent text -/
theorem C03_roundtrip (m : Msg) (h : valid Generated.registry m = true) :
    readsBack Generated.registry m = true :=
  C03.readsBack_of_valid C03.regW_generated h

/-- the text value of a wire view is not *blank*: non-empty but consisting of whitespace only
(absent and empty text are fine) -/
def textNotBlank (fields : List (Str × Option Str)) : Bool :=
  match valueOf fields with
  | some t => t.isEmpty || !(pyStrip t).isEmpty
  | none => true

/-- EXTRA HYPOTHESIS of `C03_fixed_point`: neither the message nor any of its children carries blank text -/
def noBlankText (m : Msg) : Bool :=
  textNotBlank m.fields && (m.children.getD []).all fun p => textNotBlank p.fields

/-- serializing the parsed message again and parsing that gives the very same message (so the bytes are
identical from the second serialisation on): parse ∘ serialize is idempotent.

`hblank` is NOT part of the original statement; without it the statement is false
(`C03_fixed_point_counterexample`): blank text `" "` is parsed to the empty string `""`
(`from_xml`: `xml.text.strip()`), an empty string is serialised as no text, and no text is parsed to `None`;
`""` and `None` are different attribute values (they differ in `to_dict`, hence for `==`). -/
theorem C03_fixed_point (m m' : Msg) (h : valid Generated.registry m = true)
    (hblank : noBlankText m = true)   -- extra hypothesis, see above
    (hp : fromXml Generated.registry (toXml m) = .ok m') :
    fromXml Generated.registry (toXml m') = .ok m' := by
  simp only [noBlankText, Bool.and_eq_true, List.all_eq_true] at hblank
  have key : ∀ fs : List (Str × Option Str), textNotBlank fs = true →
      ∀ t, valueOf fs = some t → t ≠ [] → pyStrip t ≠ [] := by
    intro fs hfs t ht hne
    simp only [textNotBlank, ht, Bool.or_eq_true, Bool.not_eq_true'] at hfs
    rcases hfs with h1 | h1
    · cases t with
      | nil => exact absurd rfl hne
      | cons _ _ => cases h1
    · intro e; rw [e] at h1; cases h1
  refine C03.fixed_point C03.regW_generated h (key _ hblank.1) ?_ hp
  intro ps hps p hpm
  rw [hps] at hblank
  exact key _ (hblank.2 p hpm)

/-- the original statement of `C03_fixed_point` (without `hblank`) does not hold: a `newTextVector` whose
`oneText` child has the text `" "` is valid, is read back with the child's value `""`, and that message is read
back with the child's value `None` -/
theorem C03_fixed_point_counterexample :
    ∃ m m' : Msg, valid Generated.registry m = true ∧
      fromXml Generated.registry (toXml m) = .ok m' ∧
      fromXml Generated.registry (toXml m') ≠ .ok m' := by
  let child (v : Str) : Part := { tag := s "oneText", fields := [(s "name", some (s "n")), (s "value", some v)] }
  let msg (v : Str) : Msg :=
    { tag := s "newTextVector",
      fields := [(s "device", some (s "d")), (s "name", some (s "p")), (s "timestamp", none)],
      children := some [child v] }
  have h1 : valid Generated.registry (msg (s " ")) = true := by decide +kernel
  have h2 : C03.canon (msg (s " ")) = msg [] := by decide +kernel
  have h3 : valid Generated.registry (msg []) = true := by decide +kernel
  have h4 : C03.canon (msg []) ≠ msg [] := by decide +kernel
  refine ⟨msg (s " "), msg [], h1, ?_, ?_⟩
  · rw [C03.msg_canon C03.regW_generated h1, h2]
  · rw [C03.msg_canon C03.regW_generated h3]
    intro e
    exact h4 (Except.ok.inj e)

/-- what is read back is itself valid -/
theorem C03_parsed_valid (x : Elem) (m : Msg) (hp : fromXml Generated.registry x = .ok m) :
    valid Generated.registry m = true :=
  C03.msg_parsed_valid C03.regW_generated hp

end Indi
