/-
  Pins: source literals the hand-written recognisers were written for.  A pin is a change detector, not a property
  obligation: the recogniser itself is tied to the code by the correspondence (`num check`: every string over the number
  alphabet up to a length, random strings of the grammar, hostile texts).  When a pin no longer holds the check does NOT
  report a broken proof - an equivalent rewrite of a regular expression is harmless - it escalates to the thorough
  correspondence depth for the affected recogniser (tools/check.py).
-/
import Indi.Model.Msg
import Indi.Generated.Consts

namespace Indi

/-- the number recogniser the model uses is the one written for exactly these
regular expressions of `checks.number` (pin; a change of the literals shows up here) -/
theorem number_regexps_pinned :
    Generated.numberRegexps =
      [s "^[\\-+]?\\d+$", s "^[\\-+]?\\d+\\.\\d+$", s "^[\\-+]?\\d+\\.$", s "^[\\-+]?\\.\\d+$",
       s "^[\\-+]?\\d+[:; ]\\d{2}$", s "^[\\-+]?\\d+[:; ]\\d{2}\\.\\d+$",
       s "^[\\-+]?\\d+[:; ]\\d{2}[:; ]\\d{2}$", s "^[\\-+]?\\d+[:; ]\\d{2}[:; ]\\d{2}\\.\\d+$"] := by
  decide +kernel

end Indi
