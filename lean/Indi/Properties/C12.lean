/-
  C12 — No client message can take a driver, a connection or the server down.

  The driver-level theorems are in Properties/DevA.lean (shared with C14):
  `step_wf` (every reachable state of a well-formed driver is well-formed),
  `C12_no_raise` (no client message raises out of `message_from_client`, whatever it names
  or carries), `C12_frame` (only validly named elements may change).  The router part
  (an enableBLOB from anybody never raises; nothing is handed back to the sender) is
  C04/C05's model, whose `process` is total with no error outcome.
-/
import Indi.Properties.DevA
import Indi.Properties.C04

namespace Indi.Dev
open Indi Indi.Spec.Dev

/-- a whole session of client messages: nothing is ever raised and the driver stays well-formed, so every
later valid message is processed normally -/
theorem C12_session (d : Device) (hwf : WF d = true) (ms : List Msg) :
    (∀ pre m, pre ++ [m] <+: ms → (fromClient (pre.foldl (fun d m => (fromClient d m).dev) d) m).exc = none) ∧
      WF (ms.foldl (fun d m => (fromClient d m).dev) d) = true := by
  have hgen : ∀ (l : List Msg) (d0 : Device), WF d0 = true → WF (l.foldl (fun d m => (fromClient d m).dev) d0) = true := by
    intro l
    induction l with
    | nil => intro d0 h; simpa using h
    | cons m rest ih =>
      intro d0 h
      simp only [List.foldl_cons]
      exact ih _ (by simpa [step] using step_wf d0 h (.client m))
  exact ⟨fun pre m _ => C12_no_raise _ (hgen pre d hwf) m, hgen ms d hwf⟩

end Indi.Dev
