/-
  C13 — The parser accepts only protocol-conformant messages.

  `fromXml` is the model of `IndiMessage.from_xml` (class lookup, children via
  `IndiMessagePart.from_xml`, keyword construction with the guards of the class
  table); `Spec.conformant` is written by hand from the INDI vocabulary.  The
  statement quantifies over *all* XML elements, so there is nothing to
  enumerate: whatever reaches a guarded field must be in the accepted set the
  translator probed, and `generated_regConf` (re-decided by the kernel on every
  run over the regenerated table) says that set is inside the protocol
  vocabulary.
-/
import Indi.Proofs.Conformance
import Indi.Generated.Registry

namespace Indi

/-- instance obligation: the guards of the class table regenerated from the
repository imply the protocol requirements -/
theorem generated_regConf : regConf Generated.registry = true := by decide +kernel

/-- **C13**: for any XML element, parsing either fails or yields a conformant message -/
theorem C13 (x : Elem) (m : Msg) (h : fromXml Generated.registry x = .ok m) :
    Spec.conformant m = true :=
  fromXml_conformant generated_regConf x m h

/-! non-vacuity: a well-formed element is accepted (the hypothesis of C13 is
satisfiable), and hostile ones are rejected -/

def exElem : Elem :=
  { tag := s "defSwitchVector",
    attrs := [(s "device", s "D"), (s "name", s "P"), (s "state", s "Ok"), (s "perm", s "rw"), (s "rule", s "OneOfMany")],
    text := s "\n  ",
    children := [{ tag := s "defSwitch", attrs := [(s "name", s "a")], text := s " On " }] }

def errIs (r : Except Err Msg) (e : Err) : Bool :=
  match r with
  | .error e' => e' == e
  | .ok _ => false

example : (fromXml Generated.registry exElem).isOk = true := by decide +kernel
example : (match fromXml Generated.registry exElem with | .ok m => Spec.conformant m | _ => false) = true := by
  decide +kernel
example : errIs (fromXml Generated.registry
    { exElem with attrs := [(s "device", s "D"), (s "name", s "P"), (s "state", s "indi.message.const"),
                            (s "perm", s "rw"), (s "rule", s "OneOfMany")] }) .valueError = true := by
  decide +kernel
example : errIs (fromXml Generated.registry
    { exElem with children := [{ tag := s "defSwitch", attrs := [(s "name", s "a")], text := [] }] }) .valueError = true := by
  decide +kernel

end Indi
