/-
  The wire format, end to end, at the character level:

  * C03 (bytes): `from_string (to_string m)` is `from_xml (to_xml m)` — so the element-level theorems of
    Properties/C03.lean hold for the very bytes on the wire, and the bytes are identical from the second
    serialisation on.
  * C02 (concrete): the library's own serialisations are admissible encodings for the library's own parser, so the
    abstract framing theorem applies to every stream of `to_string` outputs under every fragmentation.
-/
import Indi.Proofs.XmlDoc
import Indi.Spec.MsgValid
import Indi.Properties.C03
import Indi.Spec.Buf
import Indi.Spec.BufRun
import Indi.Proofs.Buf
import Indi.Properties.C02
import Indi.Generated.Registry

namespace Indi.Xml
open Indi Indi.Spec.MsgValid Indi.Buf Indi.Xml.Doc

/-- a message whose strings XML can carry: names are ASCII names (true of every registered class, checked on the
regenerated table by `wireNames_generated` below for tags; attribute names are the constructors' field names),
values are over XML `Char`, text has no carriage return -/
def wireSafe (m : Msg) : Bool := elemOk (toXml m)

theorem parseDoc_toString (m : Msg) (hs : wireSafe m = true) : parseDoc (toString m) = .ok (toXml m) :=
  parseDoc_wrapped (toXml m) hs _ _ generated_prefix_ok generated_suffix_ok

/-- **C03, bytes**: parsing the bytes `to_string` writes is parsing the element `to_xml` builds -/
theorem fromString_toString (reg : Registry) (m : Msg) (hs : wireSafe m = true) :
    fromString reg (toString m) = fromXml reg (toXml m) := by
  unfold fromString
  rw [parseDoc_toString m hs]

/-! ### normalisation and wire safety -/

namespace Props

theorem presentAttrs_canonFields (fs : List (Str × Option Str)) :
    presentAttrs (C03.canonFields fs) = presentAttrs fs := by
  induction fs with
  | nil => rfl
  | cons kv rest ih =>
    obtain ⟨k, v⟩ := kv
    simp only [C03.canonFields, List.map_cons, presentAttrs, List.filterMap_cons] at ih ⊢
    rw [ih]
    by_cases hk : k = s "value"
    · simp [hk]
    · simp [C03.cv, hk]

theorem alookup_canonFields (fs : List (Str × Option Str)) :
    alookup (s "value") (C03.canonFields fs) = (alookup (s "value") fs).map C03.canonVal := by
  induction fs with
  | nil => rfl
  | cons kv rest ih =>
    obtain ⟨k, v⟩ := kv
    simp only [C03.canonFields, List.map_cons, alookup] at ih ⊢
    by_cases hk : k = s "value"
    · simp [hk, C03.cv]
    · simp [hk, ih]

theorem valueOf_canonFields (fs : List (Str × Option Str)) :
    valueOf (C03.canonFields fs) = C03.canonVal (valueOf fs) := by
  simp only [valueOf, alookup_canonFields]
  cases alookup (s "value") fs with
  | none => rfl
  | some o =>
    cases o with
    | none => rfl
    | some t =>
      simp only [Option.map_some, C03.canonVal]
      by_cases ht : t.isEmpty = true <;> simp [ht]

theorem mem_dropSpaces {c : Char} : ∀ {x : Str}, c ∈ dropSpaces x → c ∈ x
  | [], h => by simp [dropSpaces] at h
  | d :: ds, h => by
    simp only [dropSpaces] at h
    split at h
    · exact List.mem_cons_of_mem _ (mem_dropSpaces h)
    · exact h

theorem mem_pyStrip {c : Char} {x : Str} (h : c ∈ pyStrip x) : c ∈ x := by
  simp only [pyStrip, List.mem_reverse] at h
  have := mem_dropSpaces h
  simp only [List.mem_reverse] at this
  exact mem_dropSpaces this

theorem textOk_iff (t : Str) : textOk t = true ↔ ∀ c ∈ t, xmlChar c = true ∧ c ≠ '\r' := by
  simp only [textOk, safeChars, Bool.and_eq_true, List.all_eq_true, Bool.not_eq_true', List.contains_eq_mem,
    decide_eq_false_iff_not]
  constructor
  · rintro ⟨h1, h2⟩ c hc
    exact ⟨h1 c hc, fun e => h2 (e ▸ hc)⟩
  · intro h
    exact ⟨fun c hc => (h c hc).1, fun hc => (h _ hc).2 rfl⟩

theorem textOk_canonVal (v : Option Str) (h : textOk (v.getD []) = true) : textOk ((C03.canonVal v).getD []) = true := by
  cases v with
  | none => exact h
  | some t =>
    simp only [C03.canonVal]
    split
    · rfl
    · simp only [Option.getD_some] at h ⊢
      rw [textOk_iff] at h ⊢
      exact fun c hc => h c (mem_pyStrip hc)

theorem partToXml_canonPart (p : Part) :
    partToXml (C03.canonPart p) =
      { partToXml p with text := (C03.canonVal (valueOf p.fields)).getD [] } := by
  simp only [partToXml, C03.canonPart, presentAttrs_canonFields, valueOf_canonFields]

theorem elem1Ok_canonPart (p : Part) (h : elem1Ok (partToXml p) = true) :
    elem1Ok (partToXml (C03.canonPart p)) = true := by
  rw [partToXml_canonPart]
  simp only [elem1Ok, Bool.and_eq_true] at h ⊢
  exact ⟨h.1, textOk_canonVal _ h.2⟩

end Props
open Props

/-- normalisation keeps a message wire-safe (trimming only removes characters) -/
theorem wireSafe_canon (m : Msg) (hs : wireSafe m = true) : wireSafe (C03.canon m) = true := by
  obtain ⟨tag, fields, ch⟩ := m
  simp only [wireSafe, elemOk, toXml, C03.canon, Bool.and_eq_true, presentAttrs_canonFields,
    valueOf_canonFields] at hs ⊢
  refine ⟨⟨hs.1.1, textOk_canonVal _ hs.1.2⟩, ?_⟩
  have hk := hs.2
  cases ch with
  | none => rfl
  | some ps =>
    simp only [Option.map_some, Option.getD_some, List.all_map, List.all_eq_true, Function.comp] at hk ⊢
    exact fun p hp => elem1Ok_canonPart p (hk p hp)

/-- **C03, bytes, fixed point**: the second and the third serialisation are identical byte for byte -/
theorem toString_fixed_point (m m' m'' : Msg) (h : valid Generated.registry m = true) (hs : wireSafe m = true)
    (hblank : noBlankText m = true)
    (h1 : fromString Generated.registry (toString m) = .ok m')
    (h2 : fromString Generated.registry (toString m') = .ok m'') :
    toString m'' = toString m' := by
  rw [fromString_toString _ m hs] at h1
  have hc := C03.msg_canon C03.regW_generated h
  have hm' : m' = C03.canon m := by
    rw [hc] at h1
    exact (Except.ok.inj h1).symm
  have hs' : wireSafe m' = true := hm' ▸ wireSafe_canon m hs
  rw [fromString_toString _ m' hs', C03_fixed_point m m' h hblank h1] at h2
  rw [Except.ok.inj h2]

/-! ### framing -/

/-- the parser parameter of the buffer model, instantiated with the character-level parser:
`ET.fromstring` raising `ParseError` / `from_string` raising / a message -/
def parseMsg (reg : Registry) (x : Str) : ParseRes Msg :=
  match parseDoc x with
  | .ok e =>
    match fromXml reg e with
    | .ok m => .msg m
    | .error _ => .invalid
  | _ => .notXml

def tagsOf (reg : Registry) : List Str := reg.messages.map (·.tag)

/-- (A1) for the real parser: whatever parses as a message spells out the opener of a registered tag -/
theorem parseMsg_needsOpener (reg : Registry) : ParserNeedsOpener (parseMsg reg) (tagsOf reg) := by
  intro x m h
  unfold parseMsg at h
  split at h
  · rename_i e he
    split at h
    · rename_i m' hm
      have htag : e.tag ∈ tagsOf reg := by
        unfold fromXml at hm
        split at hm
        · cases hm
        · rename_i c hc
          obtain ⟨hmem, ht⟩ := C03.findClass_spec hc
          exact List.mem_map.2 ⟨c, hmem, ht⟩
      obtain ⟨i, hi⟩ := parseDoc_opener x e he
      exact ⟨i, List.any_eq_true.2 ⟨e.tag, htag, hi⟩⟩
    · cases h
  · cases h

theorem nameChar_ne_gt {c : Char} (h : nameChar c = true) : c ≠ '>' := by
  rintro rfl; revert h; decide

theorem serElem_starts (e : Elem) : ('<' :: e.tag) <+: serElem e := by
  unfold serElem
  rw [List.append_assoc]
  exact List.prefix_append _ _

/-- a serialised element ends with `'>'` preceded by `/` or by the last character of a name -/
theorem serElem_ending (e : Elem) (h : elemOk e = true) : ∃ pre c, serElem e = pre ++ [c, '>'] ∧ c ≠ '>' := by
  simp only [elemOk, Bool.and_eq_true] at h
  obtain ⟨⟨⟨ht, -⟩, -⟩, -⟩ := h
  unfold serElem
  split
  · exact ⟨'<' :: e.tag ++ serAttrs e.attrs ++ [' '], '/', by simp [s_emptyTag], by decide⟩
  · have hne : e.tag ≠ [] := by
      intro he; rw [he] at ht; simp [isName] at ht
    have hall := isName_all e.tag ht
    obtain ⟨ini, last, hl⟩ : ∃ ini last, e.tag = ini ++ [last] :=
      ⟨e.tag.dropLast, e.tag.getLast hne, (List.dropLast_concat_getLast hne).symm⟩
    have hlast : nameChar last = true := List.all_eq_true.1 hall _ (by rw [hl]; simp)
    refine ⟨'<' :: e.tag ++ serAttrs e.attrs ++ ('>' :: escText e.text ++ e.children.flatMap serElem1 ++
      '<' :: '/' :: ini), last, ?_, nameChar_ne_gt hlast⟩
    rw [hl]
    simp

/-- the element `to_string` writes for a valid, wire-safe message is an admissible encoding of its normal form -/
theorem admissible_serElem (m : Msg) (h : valid Generated.registry m = true) (hs : wireSafe m = true) :
    Admissible (parseMsg Generated.registry) (tagsOf Generated.registry) (serElem (toXml m)) (C03.canon m) := by
  refine ⟨?_, ?_, ?_, ?_⟩
  · -- starts
    have htag : m.tag ∈ tagsOf Generated.registry := by
      unfold valid at h
      split at h
      · cases h
      · rename_i c hc
        obtain ⟨hmem, ht⟩ := C03.findClass_spec hc
        exact List.mem_map.2 ⟨c, hmem, ht⟩
    refine List.any_eq_true.2 ⟨m.tag, htag, ?_⟩
    rw [List.isPrefixOf_iff_prefix]
    exact serElem_starts (toXml m)
  · -- parses
    simp only [parseMsg, parseDoc_serElem (toXml m) hs, C03.msg_canon C03.regW_generated h]
  · -- minimal
    intro k hk
    have := parseDoc_prefix (toXml m) hs k hk
    unfold parseMsg
    split
    · rename_i e he
      exact absurd he (this e)
    · rfl
  · -- ending
    exact serElem_ending (toXml m) hs

/-- the stream of `to_string` outputs of a list of messages, as segments: the gap before each element is the XML
declaration (preceded by the previous message's trailing newline), the body the element itself -/
def segsOf : Bool → List Msg → List (Seg Msg)
  | _, [] => []
  | first, m :: rest =>
    { gap := (if first then [] else Generated.xmlSuffix) ++ Generated.xmlPrefix, body := serElem (toXml m), msg := C03.canon m }
      :: segsOf false rest

def streamOf (ms : List Msg) : Str := (ms.map toString).flatten

theorem streamOf_cons (m : Msg) (ms : List Msg) : streamOf (m :: ms) = toString m ++ streamOf ms := by
  simp [streamOf]

theorem encode_segsOf_false (ms : List Msg) :
    encode (segsOf false ms) Generated.xmlSuffix = Generated.xmlSuffix ++ streamOf ms := by
  induction ms with
  | nil => simp [segsOf, encode, streamOf]
  | cons m rest ih =>
    simp only [segsOf, encode, ih, streamOf_cons, toString, Bool.false_eq_true, if_false, List.append_assoc]

theorem encode_segsOf (ms : List Msg) (hne : ms ≠ []) :
    encode (segsOf true ms) Generated.xmlSuffix = streamOf ms := by
  cases ms with
  | nil => exact absurd rfl hne
  | cons m rest =>
    simp only [segsOf, encode, encode_segsOf_false, streamOf_cons, toString, if_true, List.nil_append,
      List.append_assoc]

/-! ### the gaps between the elements of a `to_string` stream contain no opener -/

theorem noOpener_of_noOpenerB (tags : List Str) (g : Str) (h : noOpenerB tags g = true) : NoOpener tags g := by
  intro i
  by_cases hi : i ≤ g.length
  · simp only [noOpenerB, hasOpenerB, Bool.not_eq_true', List.any_eq_false, List.mem_range] at h
    have := h i (by omega)
    simpa using this
  · rw [List.drop_eq_nil_of_le (by omega)]
    exact startsKnown_nil tags

theorem tagsOf_generated : tagsOf Generated.registry = Generated.messageClasses.map (·.tag) := rfl

theorem gap_first_noOpener : NoOpener (tagsOf Generated.registry) Generated.xmlPrefix :=
  noOpener_of_noOpenerB _ _ (by decide +kernel)

theorem gap_next_noOpener : NoOpener (tagsOf Generated.registry) (Generated.xmlSuffix ++ Generated.xmlPrefix) :=
  noOpener_of_noOpenerB _ _ (by decide +kernel)

theorem gap_final_noOpener : NoOpener (tagsOf Generated.registry) Generated.xmlSuffix :=
  noOpener_of_noOpenerB _ _ (by decide +kernel)

/-- the tags of the regenerated class table are ASCII names -/
theorem wireNames_generated : (tagsOf Generated.registry).all isName = true := by
  decide +kernel

theorem toString_length (m : Msg) :
    (toString m).length = Generated.xmlPrefix.length + (serElem (toXml m)).length + Generated.xmlSuffix.length := by
  simp only [toString, List.length_append]

theorem segsOf_ok (threshold : Option Nat) : ∀ (first : Bool) (ms : List Msg),
    (∀ m ∈ ms, valid Generated.registry m = true ∧ wireSafe m = true ∧ fits threshold (toString m)) →
    ∀ sg ∈ segsOf first ms,
      Admissible (parseMsg Generated.registry) (tagsOf Generated.registry) sg.body sg.msg ∧
        NoOpener (tagsOf Generated.registry) sg.gap ∧ fits threshold (sg.gap ++ sg.body)
  | _, [], _, sg, hsg => by simp [segsOf] at hsg
  | first, m :: rest, hv, sg, hsg => by
    simp only [segsOf, List.mem_cons] at hsg
    rcases hsg with rfl | hsg
    · obtain ⟨h1, h2, h3⟩ := hv m (List.mem_cons_self ..)
      refine ⟨admissible_serElem m h1 h2, ?_, ?_⟩
      · cases first
        · exact gap_next_noOpener
        · exact gap_first_noOpener
      · refine fits_mono threshold _ _ h3 ?_
        rw [toString_length]
        cases first <;> simp <;> omega
    · exact segsOf_ok threshold false rest (fun m' hm' => hv m' (List.mem_cons_of_mem _ hm')) sg hsg

/-- **C02, concrete**: feed the concatenated `to_string` outputs of ANY list of valid wire-safe messages, each no longer
than the threshold (any length when it is disabled), in ANY pieces: what has been delivered after the pieces fed so far
is exactly the normal forms of the messages whose last character has arrived, in order, each once -/
theorem C02_wire (threshold : Option Nat) (ms : List Msg)
    (hv : ∀ m ∈ ms, valid Generated.registry m = true ∧ wireSafe m = true ∧ fits threshold (toString m))
    (pieces : List Str) (hpre : pieces.flatten <+: streamOf ms) :
    (session (parseMsg Generated.registry) (tagsOf Generated.registry) threshold [] pieces).1.flatten =
      ((segsOf true ms).take (countDone (segsOf true ms) pieces.flatten.length)).map (·.msg) := by
  cases ms with
  | nil =>
    -- the empty stream: every piece is empty; the abstract theorem with no segments and an empty final gap
    have hok : StreamOk (parseMsg Generated.registry) (tagsOf Generated.registry) threshold [] [] :=
      by
        refine ⟨fun sg hsg => ?_, fun i => ?_, ?_⟩
        · cases hsg
        · rw [List.drop_nil]; exact startsKnown_nil _
        · cases threshold <;> simp [fits]
    exact C02_abstract _ _ threshold (parseMsg_needsOpener Generated.registry) generated_tagsOk [] [] hok pieces
      (by simpa [streamOf, encode] using hpre)
  | cons m rest =>
    have hfin : fits threshold Generated.xmlSuffix := by
      refine fits_mono threshold _ _ (hv m (List.mem_cons_self ..)).2.2 ?_
      rw [toString_length]; omega
    have hok : StreamOk (parseMsg Generated.registry) (tagsOf Generated.registry) threshold
        (segsOf true (m :: rest)) Generated.xmlSuffix :=
      ⟨segsOf_ok threshold true (m :: rest) hv, gap_final_noOpener, hfin⟩
    exact C02_abstract _ _ threshold (parseMsg_needsOpener Generated.registry) generated_tagsOk _ _ hok pieces
      (by rw [encode_segsOf _ (by simp)]; exact hpre)

/-! ### stated over the messages themselves -/

theorem segsOf_take_msg (k : Nat) : ∀ (first : Bool) (ms : List Msg),
    ((segsOf first ms).take k).map (·.msg) = (ms.take k).map C03.canon := by
  induction k with
  | zero => intros; rfl
  | succ k ih =>
    intro first ms
    cases ms with
    | nil => rfl
    | cons m rest => simp only [segsOf, List.take_succ_cons, List.map_cons, ih false rest]

/-- **C02, concrete**, over the messages: what has been delivered is the list of normal forms of the first `k`
messages, `k` the number of messages whose last character has arrived -/
theorem C02_wire' (threshold : Option Nat) (ms : List Msg)
    (hv : ∀ m ∈ ms, valid Generated.registry m = true ∧ wireSafe m = true ∧ fits threshold (toString m))
    (pieces : List Str) (hpre : pieces.flatten <+: streamOf ms) :
    (session (parseMsg Generated.registry) (tagsOf Generated.registry) threshold [] pieces).1.flatten =
      (ms.take (countDone (segsOf true ms) pieces.flatten.length)).map C03.canon := by
  rw [C02_wire threshold ms hv pieces hpre, segsOf_take_msg]

/-! ### non-vacuity: a concrete valid, wire-safe message with text that needs escaping -/

def exampleMsg : Msg :=
  { tag := s "newTextVector",
    fields := [(s "device", some (s "D")), (s "name", some (s "P")), (s "timestamp", none)],
    children := some [{ tag := s "oneText", fields := [(s "name", some (s "n")), (s "value", some (s "a<b&c é"))] }] }

example : valid Generated.registry exampleMsg = true := by decide +kernel
example : wireSafe exampleMsg = true := by decide +kernel
example : noBlankText exampleMsg = true := by decide +kernel

/-- the bytes on the wire (the non-ASCII `é` leaves as a character reference) -/
example : toString exampleMsg =
    s "<?xml version=\"1.0\"?>\n<newTextVector device=\"D\" name=\"P\"><oneText name=\"n\">a&lt;b&amp;c &#233;</oneText></newTextVector>\n" := by
  decide +kernel

theorem except_ok_of_toOption {ε α : Type} {x : Except ε α} {a : α} (h : x.toOption = some a) : x = .ok a := by
  cases x with
  | error e => cases h
  | ok b => cases h; rfl

/-- the character-level parser, run by the kernel on those bytes, gives the normal form -/
example : fromString Generated.registry (toString exampleMsg) = .ok (C03.canon exampleMsg) :=
  except_ok_of_toOption (by decide +kernel)

/-- the same, through the theorems -/
example : fromString Generated.registry (toString exampleMsg) = .ok (C03.canon exampleMsg) := by
  rw [fromString_toString _ _ (by decide +kernel)]
  exact C03.msg_canon C03.regW_generated (by decide +kernel)

/-- framing on a two-message stream cut inside the first element, inside the declaration of the second,
and before the final newline -/
example :
    (session (parseMsg Generated.registry) (tagsOf Generated.registry) (some 2048) []
      [(streamOf [exampleMsg, exampleMsg]).take 40,
       ((streamOf [exampleMsg, exampleMsg]).drop 40).take 100,
       ((streamOf [exampleMsg, exampleMsg]).drop 140).take 101]).1.flatten =
      [C03.canon exampleMsg, C03.canon exampleMsg] := by
  have hv : ∀ m ∈ [exampleMsg, exampleMsg], valid Generated.registry m = true ∧ wireSafe m = true ∧
      fits (some 2048) (toString m) := by
    intro m hm
    simp only [List.mem_cons, List.not_mem_nil, or_false, or_self] at hm
    subst hm
    exact ⟨by decide +kernel, by decide +kernel, by simp only [fits]; decide +kernel⟩
  rw [C02_wire' (some 2048) [exampleMsg, exampleMsg] hv _ (by decide +kernel)]
  decide +kernel

end Indi.Xml
