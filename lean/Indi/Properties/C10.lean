/-
  C10 — Number rendering and parsing are mutually inverse and follow the INDI conventions.

  `render`/`numToStr` and `strToNum` are the models of `num_to_str` / `str_to_num`
  (Model/Num.lean), `numberOk` the model of `checks.number` (Model/Msg.lean),
  `Spec.Num.denote` an independent reader of number text under the INDI
  conventions (Spec/Num.lean).  Floating point enters only through `Arith.fl`;
  the theorems hold for every arithmetic that is as accurate as binary64.
  Helper lemmas: Proofs/Num.lean.
-/
import Indi.Spec.Num
import Indi.Proofs.Num

namespace Indi.Num
open Indi Indi.Spec.Num

/-- the arithmetic rounds like binary64: relative error at most 2⁻⁵³ -/
def Arith.Accurate (A : Arith) : Prop := ∀ q : Rat, absR (A.fl q - q) * 2 ^ 53 ≤ absR q

/-- exact arithmetic is accurate (non-vacuity of the hypothesis) -/
theorem exact_accurate : Arith.Accurate { fl := fun q => q } := by
  intro q
  show absR (q - q) * 2 ^ 53 ≤ absR q
  rw [sub_self, absR_of_nonneg (le_refl 0), zero_mul]
  exact absR_nonneg q

/-- (a) whatever `num_to_str` renders, for every format of the family and EVERY value, is accepted by the validator -/
theorem C10_render_valid (A : Arith) (fmt : Fmt) (x : Rat) (text : Str)
    (h : render A fmt x = .ok text) : numberOk text = true := by
  apply numberOk_of_core
  cases fmt with
  | sexa frac =>
    cases hb : sexaBase frac with
    | none => simp [render, hb] at h
    | some base => exact (render_sexa_text hb h).1
  | f fl width prec => exact (render_f_text h).1
  | d fl width prec => exact (render_d_text h).1

/-- (b) sexagesimal: the text denotes the value to within the format's resolution (one unit of the last
place; in fact half of it, for EVERY value: the fields are computed exactly), the sign applying to the whole magnitude -/
theorem C10_sexa_denotes (A : Arith) (frac base : Nat) (hb : sexaBase frac = some base)
    (x : Rat) (text : Str) (h : render A (.sexa frac) x = .ok text) :
    ∃ v, denote text = some v ∧ absR (v - x) * (2 * base) ≤ 1 := by
  obtain ⟨_, h2, _⟩ := render_sexa_text hb h
  exact ⟨_, h2, sexa_exact hb x _ rfl⟩

/-- (b) `%[flags][width][.prec]f`: within half a unit of the last decimal -/
theorem C10_f_denotes (A : Arith) (fl : Flags) (width prec : Nat) (x : Rat) (text : Str)
    (h : render A (.f fl width prec) x = .ok text) :
    ∃ v, denote text = some v ∧ absR (v - x) * (2 * 10 ^ prec) ≤ 1 := by
  obtain ⟨_, h2⟩ := render_f_text h
  exact ⟨_, h2, f_numeric prec x _ rfl⟩

/-- (b) `%[flags][width][.prec]d`: truncation, within one unit -/
theorem C10_d_denotes (A : Arith) (fl : Flags) (width : Nat) (prec : Option Nat) (x : Rat) (text : Str)
    (h : render A (.d fl width prec) x = .ok text) :
    ∃ v, denote text = some v ∧ absR (v - x) < 1 := by
  obtain ⟨_, h2⟩ := render_d_text h
  exact ⟨_, h2, d_numeric x _ rfl⟩

/-- (d) every number text of the grammar (what `checks.number` accepts) is parsed, to exactly the
integer it denotes, or to the correctly rounded value it denotes -/
theorem C10_parse_denotes (A : Arith) (text : Str) (h : numberCore text = true) :
    ∃ nv, strToNumCore A text = .ok nv ∧
      match nv with
      | .int v => denote text = some (v : Rat)
      | .float v => ∃ q, denote text = some q ∧ v = A.fl q := by
  rw [numberCore_eq] at h
  obtain ⟨i, m, hs⟩ := Shape.of_numberBody h
  rw [strToNumCore_eq, denote_eq, hs.strBody, hs.denBody]
  refine ⟨_, rfl, ?_⟩
  cases i with
  | some n =>
    rw [hs.int_eq]
    simp only [shapeResult]
    cases (stripSign text).1 <;> simp
  | none =>
    exact ⟨_, rfl, rfl⟩

/-- (c) round trip: parsing what was rendered gives the value back within the resolution -/
theorem C10_sexa_roundtrip (A : Arith) (hA : A.Accurate) (frac base : Nat) (hb : sexaBase frac = some base)
    (x : Rat) (hx : absR x ≤ 10 ^ 9) (text : Str) (h : render A (.sexa frac) x = .ok text) :
    ∃ v, strToNum A text = .ok (.float v) ∧ absR (v - x) * base ≤ 1 := by
  obtain ⟨_, _, h3⟩ := render_sexa_text hb h
  exact ⟨_, h3, sexa_numeric hA hb hx _ rfl⟩

/-- instance obligation, re-decided on every run: the table the code uses (regenerated) is the protocol's table
the oracle pins -/
theorem sexa_table_pinned : ∀ frac, frac < 64 → sexaBase frac = Spec.Num.specSexaBase frac := by decide +kernel

end Indi.Num
