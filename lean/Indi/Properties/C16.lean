/-
  C16 — Client change events are complete and exact.  The theorems (C16_events, C16_deliveries,
  C16_removed, C16_only_registered, C16_changed_only, C16_chain, C16_old_is_previous_new) are in
  Properties/C15.lean together with C15's, because they share the lemmas about the mirror.
-/
import Indi.Properties.C15
