/-
  C03 / C02 for foreign but equivalent XML spellings of a message (Spec/XmlSpell.lean: quote style, white space before
  attributes, around `=`, before `>` and in end tags, `<t></t>` vs `<t/>`, indentation before children and before the
  root's end tag, raw `>` in text, reversed attribute order; any prolog that leaves the parser between tokens — with or
  without XML declaration, comments — and trailing white space).
-/
import Indi.Properties.Wire
import Indi.Proofs.SpellRT
import Indi.Proofs.SpellMsg

namespace Indi.Xml
open Indi Indi.Spec.MsgValid Indi.Buf

/-- **C03, foreign spellings**: every spelling of a valid wire-safe message is read as that message's normal form -/
theorem fromString_spelling (sp : Style) (hsp : sp.ok = true) (m : Msg) (hv : valid Generated.registry m = true)
    (hs : wireSafe m = true) (pre post : Str)
    (hpre : run init pre = { mode := .misc, stack := [], done := none, cr := false }) (hpost : post.all isS = true) :
    fromString Generated.registry (pre ++ spellElem sp (toXml m) ++ post) = .ok (C03.canon m) := by
  unfold fromString
  rw [parseDoc_spell sp hsp (toXml m) hs pre post hpre hpost]
  show fromXml Generated.registry (spelled sp (toXml m)) = _
  rw [fromXml_spelled sp hsp m hv]
  exact C03.msg_canon C03.regW_generated hv

/-- every spelling of a valid wire-safe message is an admissible encoding of its normal form for the library's parser -/
theorem admissible_spelling (sp : Style) (hsp : sp.ok = true) (m : Msg) (hv : valid Generated.registry m = true)
    (hs : wireSafe m = true) :
    Admissible (parseMsg Generated.registry) (tagsOf Generated.registry) (spellElem sp (toXml m)) (C03.canon m) := by
  refine ⟨?_, ?_, ?_, ?_⟩
  · -- starts with the registered opener
    have h1 := (admissible_serElem m hv hs).starts
    have hp : ('<' :: (toXml m).tag) <+: spellElem sp (toXml m) := spellElem_starts sp (toXml m)
    have hq : ('<' :: (toXml m).tag) <+: serElem (toXml m) := serElem_starts (toXml m)
    -- the opener found in the library's own serialisation is the root tag's: reuse membership of the tag
    have htag : (toXml m).tag ∈ tagsOf Generated.registry := by
      have : m.tag ∈ tagsOf Generated.registry := by
        unfold valid at hv
        split at hv
        · cases hv
        · rename_i c hc
          have := (C03.findClass_spec hc)
          simp only [tagsOf, List.mem_map]
          exact ⟨c, this.1, this.2⟩
      simpa [toXml] using this
    simp only [startsKnown, List.any_eq_true]
    refine ⟨(toXml m).tag, htag, ?_⟩
    exact List.isPrefixOf_iff_prefix.mpr hp
  · -- parses to the normal form
    have h : parseDoc (spellElem sp (toXml m)) = .ok (spelled sp (toXml m)) := by
      unfold parseDoc
      rw [run_spellElem sp hsp (toXml m) hs init (Or.inr rfl) rfl rfl]
      rfl
    unfold parseMsg
    rw [h]
    show (match fromXml Generated.registry (spelled sp (toXml m)) with | .ok m => ParseRes.msg m | .error _ => ParseRes.invalid) = _
    rw [fromXml_spelled sp hsp m hv, C03.msg_canon C03.regW_generated hv]
  · -- no proper prefix is a complete document
    intro k hk
    unfold parseMsg
    have := parseDoc_spell_prefix sp hsp (toXml m) hs k hk
    cases hp : parseDoc ((spellElem sp (toXml m)).take k) with
    | ok e => exact absurd hp (this e)
    | err => rfl
    | uns => rfl
  · exact spellElem_ending sp hsp (toXml m) hs

end Indi.Xml

namespace Indi.Xml
open Indi Indi.Spec.MsgValid Indi.Buf

/-- a stream of messages, each in its own spelling, each preceded by arbitrary opener-free junk (an XML declaration,
comments, white space, noise) -/
def spelledSegs (items : List (Style × Msg × Str)) : List (Seg Msg) :=
  items.map fun it => { gap := it.2.2, body := spellElem it.1 (toXml it.2.1), msg := C03.canon it.2.1 }

/-- **C02 for foreign spellings**: feed ANY stream of valid wire-safe messages, each written in ANY spelling style and
preceded by ANY opener-free junk, each no longer than the threshold (any length when it is disabled), in ANY pieces:
what has been delivered is exactly the normal forms of the messages whose last character has arrived, in order, once -/
theorem C02_spelled_stream (threshold : Option Nat) (items : List (Style × Msg × Str)) (final : Str)
    (h : ∀ it ∈ items, it.1.ok = true ∧ valid Generated.registry it.2.1 = true ∧ wireSafe it.2.1 = true ∧
      NoOpener (tagsOf Generated.registry) it.2.2 ∧ fits threshold (it.2.2 ++ spellElem it.1 (toXml it.2.1)))
    (hf : NoOpener (tagsOf Generated.registry) final ∧ fits threshold final)
    (pieces : List Str) (hpre : pieces.flatten <+: encode (spelledSegs items) final) :
    (session (parseMsg Generated.registry) (tagsOf Generated.registry) threshold [] pieces).1.flatten =
      ((spelledSegs items).take (countDone (spelledSegs items) pieces.flatten.length)).map (·.msg) := by
  have hok : StreamOk (parseMsg Generated.registry) (tagsOf Generated.registry) threshold (spelledSegs items) final := by
    refine ⟨?_, hf⟩
    intro sg hsg
    simp only [spelledSegs, List.mem_map] at hsg
    obtain ⟨it, hit, rfl⟩ := hsg
    obtain ⟨h1, h2, h3, h4, h5⟩ := h it hit
    exact ⟨admissible_spelling it.1 h1 it.2.1 h2 h3, h4, h5⟩
  exact C02_abstract (parseMsg Generated.registry) (tagsOf Generated.registry) threshold
    (parseMsg_needsOpener Generated.registry) (tagsOf_generated ▸ generated_tagsOk) (spelledSegs items) final hok pieces hpre

end Indi.Xml
