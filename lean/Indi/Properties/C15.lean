/-
  C15 — The client mirrors any server's property stream faithfully and survives it.
  C16 — Client change events are complete and exact.

  `Cli.processMessage` / `Cli.step` are the model of `BaseClient.process_message`,
  `trigger_event`, `onevent`, `rmonevent` (Model/Cli.lean); `Spec.Cli.refStep` is the
  reference interpreter of the INDI client rules, `eventsOf` the events a message must
  raise, `chainInv` the "never a stale value" invariant (Spec/Cli.lean).
  All statements are proved in this file from the lemmas of the Proofs directory.
-/
import Indi.Spec.Cli
import Indi.Proofs.Cli

namespace Indi.Cli
open Indi Indi.Spec.Cli

/-- dict keys are unique at every level of the mirror (true of every mirror the client can build) -/
def MirrorWf (σ : Mirror) : Prop :=
  (σ.map Prod.fst).Nodup ∧ ∀ d ∈ σ, (d.2.vecs.map Prod.fst).Nodup ∧ ∀ v ∈ d.2.vecs, (v.2.elems.map Prod.fst).Nodup

/-- **C15**: on a well-formed message the library's step is the reference interpreter's step, and nothing is raised -/
theorem C15_step (σ : Mirror) (m : Msg) (h : streamOk σ m = true) :
    (processMessage σ m).exc = none ∧ (processMessage σ m).mirror = refStep σ m := by
  have := processMessage_spec σ m h
  exact ⟨this.1, this.2.1⟩

/-- run a stream of messages through the library model -/
def runMirror (σ : Mirror) (ms : List Msg) : Mirror := ms.foldl (fun σ m => (processMessage σ m).mirror) σ

/-- every message of the stream is well-formed where it arrives -/
def StreamOk : Mirror → List Msg → Prop
  | _, [] => True
  | σ, m :: ms => streamOk σ m = true ∧ StreamOk (processMessage σ m).mirror ms

/-- **C15** for every stream: the view equals the result of applying the messages in order with the INDI rules -/
theorem C15_stream (σ : Mirror) (ms : List Msg) (h : StreamOk σ ms) :
    runMirror σ ms = ms.foldl refStep σ := by
  induction ms generalizing σ with
  | nil => rfl
  | cons m ms ih =>
    obtain ⟨h1, h2⟩ := h
    simp only [runMirror, List.foldl_cons]
    rw [← (C15_step σ m h1).2]
    exact ih _ h2

theorem MirrorWf_step (σ : Mirror) (m : Msg) (h : MirrorWf σ) : MirrorWf (processMessage σ m).mirror := by
  exact Wf_processMessage σ m h

/-- **C16**: the events raised are exactly the changes the message makes -/
theorem C16_events (σ : Mirror) (m : Msg) (h : streamOk σ m = true) :
    (processMessage σ m).events = eventsOf σ m := by
  exact (processMessage_spec σ m h).2.2

/-- **C16**: each registered callback is invoked exactly for the events that match its four filters, in order -/
theorem C16_deliveries (st : State) (m : Msg) :
    (step st (.msg m)).calls = deliveries st.cbs (step st (.msg m)).events := by
  rfl

/-- **C16**: a removed callback is gone (so it is never invoked afterwards), the others stay -/
theorem C16_removed (cbs : List Callback) (c : RmCriteria) (cb : Callback) :
    cb ∈ rmonevent cbs c ↔ (cb ∈ cbs ∧ rmMatches c cb = false) := by
  simp [rmonevent, List.mem_filter]

/-- **C16**: only registered callbacks are ever invoked -/
theorem C16_only_registered (cbs : List Callback) (evs : List Event) (i : Nat) (ev : Event)
    (h : (i, ev) ∈ deliveries cbs evs) : ∃ cb ∈ cbs, cb.id = i ∧ accepts cb ev = true ∧ ev ∈ evs := by
  simp only [deliveries, List.mem_flatten, List.mem_map] at h
  obtain ⟨l, ⟨ev', hev', rfl⟩, hmem⟩ := h
  simp only [List.mem_map, List.mem_filter, Prod.mk.injEq] at hmem
  obtain ⟨cb, ⟨hcb, hacc⟩, hid, rfl⟩ := hmem
  exact ⟨cb, hcb, hid, hacc, hev'⟩

/-- **C16**: a value event is raised only when the value changed (old ≠ new), for updates -/
theorem C16_changed_only (σ : Mirror) (m : Msg) (k : VKind) (hk : setKind m.tag = some k) (hd : defKind m.tag = none)
    (d v e : Option Str) (o n : CVal) (h : Event.value d v e o n ∈ (processMessage σ m).events) : o ≠ n := by
  simp only [processMessage, hd, hk] at h
  split at h
  · simp at h
  · split at h
    · simp at h
    · split at h
      · simp at h
      · simp only [List.mem_append] at h
        rcases h with h | h
        · simp only [List.mem_ite_nil_right, List.mem_singleton] at h
          exact absurd h.2 (by simp)
        · exact applySet_changed _ _ _ _ _ _ _ _ _ _ h

/-- **C16**, the chain: if for every element of the mirror the value last announced in the log is its current
value, the same holds after any well-formed message, with that message's events appended -/
theorem C16_chain (σ : Mirror) (log : List Event) (hwf : MirrorWf σ) (hinv : chainInv σ log = true)
    (m : Msg) (h : streamOk σ m = true) :
    chainInv (processMessage σ m).mirror (log ++ (processMessage σ m).events) = true := by
  have hspec := processMessage_spec σ m h
  have hwf' := MirrorWf_step σ m hwf
  rw [hspec.2.1] at hwf' ⊢
  rw [hspec.2.2]
  exact chainInv_of_ChainL _ _ hwf' (ChainL_step σ log hwf (ChainL_of_chainInv _ _ hinv) m)

/-- **C16**, the chain (old values): in an update every value event's old value is the value last announced
for that element before it (given the invariant) -/
theorem C16_old_is_previous_new (σ : Mirror) (log : List Event) (hwf : MirrorWf σ) (hinv : chainInv σ log = true)
    (m : Msg) (k : VKind) (hk : setKind m.tag = some k) (hd : defKind m.tag = none) (h : streamOk σ m = true)
    (pre post : List Event) (d v e : Option Str) (o n : CVal)
    (hev : (processMessage σ m).events = pre ++ Event.value d v e o n :: post) :
    track (log ++ pre) d v e = some o := by
  have _ := hwf  -- (not needed: the lookup form of the invariant suffices)
  have hL := ChainL_of_chainInv _ _ hinv
  rw [(processMessage_spec σ m h).2.2] at hev
  simp only [eventsOf, classify, hd, hk] at hev
  split at hev
  · rename_i dv hdev
    split at hev
    · rename_i vc hv
      split at hev
      · have hE : ElemInv (attr m.fields "device") (attr m.fields "name") vc.elems log :=
          fun en e he => hL _ _ hdev _ _ hv _ _ he
        split at hev
        · cases pre with
          | nil => simp at hev
          | cons a pre' =>
            simp only [List.cons_append, List.nil_append, List.cons.injEq] at hev
            obtain ⟨rfl, hev⟩ := hev
            have hE' := ElemInv_append_nonvalue hE [Event.state (attr m.fields "device") (attr m.fields "name") vc.state (attr m.fields "state")]
              (by intro ev hev; simp only [List.mem_singleton] at hev; subst hev; simp)
            have := updateEvents_old _ _ _ _ _ _ pre' hE' post d v e o n hev
            simpa [List.append_assoc] using this
        · simp only [List.nil_append] at hev
          exact updateEvents_old _ _ _ _ _ _ pre hE post d v e o n hev
      · simp at hev
    · simp at hev
  · simp at hev

end Indi.Cli

namespace Indi.Cli
open Indi Indi.Spec.Cli

/-- **C16**, the chain, for EVERY message (also an update with an ill-formed BLOB child, which raises): whatever
was applied before the exception has been announced, so a listener never holds a stale value -/
theorem C16_chain_always (σ : Mirror) (log : List Event) (hwf : MirrorWf σ) (hinv : chainInv σ log = true) (m : Msg) :
    chainInv (processMessage σ m).mirror (log ++ (processMessage σ m).events) = true :=
  chainInv_of_ChainL _ _ (MirrorWf_step σ m hwf) (ChainL_processMessage σ log hwf (ChainL_of_chainInv _ _ hinv) m)

end Indi.Cli
