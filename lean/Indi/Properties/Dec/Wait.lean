/-
  Decision expressions regenerated from the repository's source on every run (Generated/Decisions.lean, translated by
  tools/extract_decisions.py): the four conditions of `waitforevent` (callback release, polling loop guard, timeout guard, arming of the timeout task); the wait model's three parts equal the source's skeletons.

  Each generated definition is `some f` (the translated Python expression) or `none` (the translator could not follow a
  restructured source: the statements then hold vacuously and the site is tied by the correspondence alone).  One file per
  area, imported only by the audits of the properties that rest on that area, so that a changed expression breaks the
  proof side of exactly those properties.
-/
import Indi.Generated.Decisions
import Indi.Model.Wait

namespace Indi.Decisions
open Indi

/-! ### waitforevent -/

theorem waitRelease_agrees (f : Bool → Bool → Bool) (h : Generated.waitRelease? = some f) (release lockSet : Bool) :
    f release lockSet = (release && !lockSet) := by
  unfold Generated.waitRelease? at h
  cases h
  all_goals (cases release <;> cases lockSet <;> rfl)

theorem waitPollGuard_agrees (f : Bool → Bool) (h : Generated.waitPollGuard? = some f) (lockSet : Bool) :
    f lockSet = !lockSet := by
  unfold Generated.waitPollGuard? at h
  cases h
  all_goals (cases lockSet <;> rfl)

theorem waitTimeoutGuard_agrees (f : Bool → Bool) (h : Generated.waitTimeoutGuard? = some f) (lockSet : Bool) :
    f lockSet = !lockSet := by
  unfold Generated.waitTimeoutGuard? at h
  cases h
  all_goals (cases lockSet <;> rfl)

theorem waitTimeoutArmed_agrees (f : Option Nat → Bool) (h : Generated.waitTimeoutArmed? = some f) (τ : Option Nat) :
    f τ = (match τ with | some t => decide (t > 0) | none => false) := by
  unfold Generated.waitTimeoutArmed? at h
  cases h
  all_goals (cases τ <;> simp)

/-- the callback of the wait: every matching event of a batch is offered; the source's condition decides whether it releases -/
def deliverFromSource (release : Bool → Bool → Bool) (st : Wait.St) (t : Nat) (batch : List Bool) : Wait.St :=
  (batch.zipIdx).foldl (fun st p => if release p.1 st.lockSet then { st with lockSet := true, result := some (t, p.2) } else st) st

/-- the polling task woken at `t`: the `while` guard of the source decides between one more request and leaving the loop -/
def pollStepFromSource (guard : Bool → Bool) (st : Wait.St) (cfg : Wait.Cfg) (t : Nat) : Wait.St :=
  if cfg.polling && st.pollAlive && t = st.nextTick then
    if guard st.lockSet then { st with sends := t :: st.sends, nextTick := t + cfg.interval }
    else { st with pollAlive := false }
  else st

/-- the timeout task: created only if the source's arming condition holds, woken at `τ`, acting only if its guard holds -/
def timeoutStepFromSource (armed : Option Nat → Bool) (guard : Bool → Bool) (st : Wait.St) (cfg : Wait.Cfg) (t : Nat) : Wait.St :=
  if armed cfg.timeout && cfg.timeout = some t && guard st.lockSet then { st with timedOut := true, lockSet := true } else st

theorem deliver_fold_locked (t : Nat) (l : List (Bool × Nat)) (st : Wait.St) (hl : st.lockSet = true) :
    l.foldl (fun st p => if (p.1 && !st.lockSet) then { st with lockSet := true, result := some (t, p.2) } else st) st = st := by
  induction l with
  | nil => rfl
  | cons p ps ih => simp only [List.foldl_cons, hl, Bool.not_true, Bool.and_false]; exact ih

theorem deliver_fold (t : Nat) (batch : List Bool) : ∀ (k : Nat) (st : Wait.St),
    (batch.zipIdx k).foldl (fun st p => if (p.1 && !st.lockSet) then { st with lockSet := true, result := some (t, p.2) } else st) st =
      if st.lockSet then st else
      match Wait.firstTrue batch k with
      | some i => { st with lockSet := true, result := some (t, i) }
      | none => st := by
  induction batch with
  | nil => intro k st; simp [Wait.firstTrue]
  | cons b bs ih =>
    intro k st
    rw [List.zipIdx_cons, List.foldl_cons]
    cases b
    · simp only [Bool.false_and, Bool.false_eq_true, if_false, Wait.firstTrue]
      exact ih (k + 1) st
    · rcases Bool.eq_false_or_eq_true st.lockSet with hl | hl
      · simp only [hl, Bool.not_true, Bool.and_false, Bool.false_eq_true, if_false, if_true]
        exact deliver_fold_locked _ _ _ hl
      · simp only [hl, Bool.not_false, Bool.and_true, if_true, Bool.false_eq_true, if_false, Wait.firstTrue]
        exact deliver_fold_locked _ _ _ rfl

/-- **the wait model is the source's skeleton** (the three cooperating parts of `waitforevent`) -/
theorem wait_deliver_from_source (f : Bool → Bool → Bool) (h : Generated.waitRelease? = some f)
    (st : Wait.St) (t : Nat) (batch : List Bool) :
    deliverFromSource f st t batch = Wait.deliver st t batch := by
  unfold deliverFromSource Wait.deliver
  simp only [waitRelease_agrees f h]
  exact deliver_fold t batch 0 st

theorem wait_poll_from_source (f : Bool → Bool) (h : Generated.waitPollGuard? = some f)
    (st : Wait.St) (cfg : Wait.Cfg) (t : Nat) :
    pollStepFromSource f st cfg t = Wait.pollStep st cfg t := by
  unfold pollStepFromSource Wait.pollStep
  rw [waitPollGuard_agrees f h]
  cases st.lockSet <;> simp

theorem wait_timeout_from_source (f : Option Nat → Bool) (g : Bool → Bool)
    (h : Generated.waitTimeoutArmed? = some f) (h' : Generated.waitTimeoutGuard? = some g)
    (st : Wait.St) (cfg : Wait.Cfg) (t : Nat) :
    timeoutStepFromSource f g st cfg t = Wait.timeoutStep st cfg t := by
  unfold timeoutStepFromSource Wait.timeoutStep
  rw [waitTimeoutArmed_agrees f h, waitTimeoutGuard_agrees g h']
  cases cfg.timeout with
  | none => simp
  | some τ =>
    by_cases ht : t = τ
    · subst ht; simp
    · have ht' : ¬ τ = t := fun e => ht e.symm
      simp [ht, ht']

end Indi.Decisions
