/-
  Decision expressions regenerated from the repository's source on every run (Generated/Decisions.lean, translated by
  tools/extract_decisions.py): the five conditions of `SwitchVector.apply_rule`; the switch model equals the source's skeleton with them plugged in.

  Each generated definition is `some f` (the translated Python expression) or `none` (the translator could not follow a
  restructured source: the statements then hold vacuously and the site is tied by the correspondence alone).  One file per
  area, imported only by the audits of the properties that rest on that area, so that a changed expression breaks the
  proof side of exactly those properties.
-/
import Indi.Generated.Decisions
import Indi.Model.Switch

namespace Indi.Decisions
open Indi

/-! ### SwitchVector.apply_rule -/

def ruleStr : Switch.Rule → Str
  | .oneOfMany => s "OneOfMany"
  | .atMostOne => s "AtMostOne"
  | .anyOfMany => s "AnyOfMany"

def stateStr (b : Bool) : Str := if b then s "On" else s "Off"

/-- the other elements that are On, as the comprehension / the loop of `apply_rule` selects them -/
def othersOn (isOtherOn : Bool → Str → Bool) (vals : List Bool) (i : Nat) : List (Bool × Nat) :=
  vals.zipIdx.filter fun p => isOtherOn (decide (p.2 ≠ i)) (stateStr p.1)

/-- the skeleton of `Switch.value = v` on element `i` (`check_value` → `apply_rule`, then the store) with the five
conditions of the source plugged in -/
def applyRuleFromSource (turnsOn : Str → Bool) (clears keeps : Str → Bool) (isOtherOn : Bool → Str → Bool) (noOther : Nat → Bool)
    (rule : Switch.Rule) (vals : List Bool) (i : Nat) (v : Bool) : List Bool :=
  if i < vals.length then
    if turnsOn (stateStr v) then
      if clears (ruleStr rule) then
        (vals.zipIdx.map fun p => if isOtherOn (decide (p.2 ≠ i)) (stateStr p.1) then false else p.1).set i true
      else vals.set i true
    else
      if keeps (ruleStr rule) then
        if noOther (othersOn isOtherOn vals i).length then vals.set i true else vals.set i false
      else vals.set i false
  else vals

theorem switchTurnsOn_agrees (f : Str → Bool) (h : Generated.switchTurnsOn? = some f) (v : Bool) : f (stateStr v) = v := by
  unfold Generated.switchTurnsOn? at h
  cases h
  all_goals (cases v <;> decide +kernel)

theorem switchClearsOthers_agrees (f : Str → Bool) (h : Generated.switchClearsOthers? = some f) (r : Switch.Rule) :
    f (ruleStr r) = (r != .anyOfMany) := by
  unfold Generated.switchClearsOthers? at h
  cases h
  all_goals (cases r <;> decide +kernel)

theorem switchKeepsLast_agrees (f : Str → Bool) (h : Generated.switchKeepsLast? = some f) (r : Switch.Rule) :
    f (ruleStr r) = (r == .oneOfMany) := by
  unfold Generated.switchKeepsLast? at h
  cases h
  all_goals (cases r <;> decide +kernel)

theorem switchIsOtherOn_agrees (f : Bool → Str → Bool) (h : Generated.switchIsOtherOn? = some f) (other v : Bool) :
    f other (stateStr v) = (other && v) := by
  unfold Generated.switchIsOtherOn? at h
  cases h
  all_goals (cases other <;> cases v <;> decide +kernel)

/-- that condition is written twice in `apply_rule` (the loop that switches the others Off, the comprehension that counts
them): EVERY place where it is written agrees with the model, on the whole domain -/
theorem switchIsOtherOn_all_agree :
    (Generated.switchIsOtherOnAll.all fun f =>
      [true, false].all fun other => [true, false].all fun v => f other (stateStr v) == (other && v)) = true := by
  decide +kernel

theorem switchNoOtherOn_agrees (f : Nat → Bool) (h : Generated.switchNoOtherOn? = some f) (n : Nat) :
    f n = decide (n = 0) := by
  unfold Generated.switchNoOtherOn? at h
  cases h
  all_goals (simp only [decide_eq_decide]; omega)

/-- clearing every other On element and then setting `i` is "all Off, then `i` On" -/
theorem clearOthers_set (vals : List Bool) (i : Nat) :
    (vals.zipIdx.map fun p => if (decide (p.2 ≠ i) && p.1) then false else p.1).set i true =
      (vals.map fun _ => false).set i true := by
  apply List.ext_getElem
  · simp
  · intro n h1 h2
    simp only [List.getElem_set, List.getElem_map, List.getElem_zipIdx]
    grind

theorem othersOn_nil_iff (vals : List Bool) (i : Nat) :
    ((vals.zipIdx.filter fun p => decide (p.2 ≠ i) && p.1) = []) ↔ Switch.otherOn vals i = false := by
  simp only [List.filter_eq_nil_iff, Switch.otherOn, Bool.or_eq_false_iff, List.any_eq_false,
    List.mem_zipIdx_iff_getElem?, List.mem_take_iff_getElem, List.mem_drop_iff_getElem, Prod.forall]
  constructor
  · intro H
    constructor
    · rintro x ⟨j, hj, rfl⟩
      have := H vals[j] j (by simp)
      grind
    · rintro x ⟨j, hj, rfl⟩
      have := H vals[i+1+j] (i+1+j) (by simp)
      grind
  · rintro ⟨H1, H2⟩ a j hj
    intro hc
    simp only [Bool.and_eq_true, decide_eq_true_eq] at hc
    obtain ⟨hne, rfl⟩ := hc
    have hlt : j < vals.length := by
      rcases Nat.lt_or_ge j vals.length with h | h
      · exact h
      · simp [List.getElem?_eq_none h] at hj
    have hv : vals[j] = true := by simpa [List.getElem?_eq_getElem hlt] using hj
    rcases Nat.lt_or_gt_of_ne hne with h | h
    · exact absurd (H1 true ⟨j, by omega, hv⟩) (by simp)
    · have := H2 true ⟨j - (i+1), by omega, by simpa [show i + 1 + (j - (i+1)) = j by omega] using hv⟩
      simp at this

theorem othersOn_length_zero (vals : List Bool) (i : Nat) :
    decide ((vals.zipIdx.filter fun p => decide (p.2 ≠ i) && p.1).length = 0) = !Switch.otherOn vals i := by
  cases h : Switch.otherOn vals i
  · simp only [Bool.not_false, decide_eq_true_eq, List.length_eq_zero_iff]
    exact (othersOn_nil_iff vals i).2 h
  · simp only [Bool.not_true, decide_eq_false_iff_not, List.length_eq_zero_iff]
    intro hc
    have := (othersOn_nil_iff vals i).1 hc
    simp_all

/-- **the switch model is the source's skeleton**: with the five conditions as they stand in `apply_rule`, an assignment
to a switch does to the vector what the model's `assignAt` does — for every rule, every vector, every element and both values -/
theorem switch_assign_from_source (f1 f2 f3 : Str → Bool) (f4 : Bool → Str → Bool) (f5 : Nat → Bool)
    (h1 : Generated.switchTurnsOn? = some f1) (h2 : Generated.switchClearsOthers? = some f2)
    (h3 : Generated.switchKeepsLast? = some f3) (h4 : Generated.switchIsOtherOn? = some f4)
    (h5 : Generated.switchNoOtherOn? = some f5)
    (rule : Switch.Rule) (vals : List Bool) (i : Nat) (v : Bool) :
    applyRuleFromSource f1 f2 f3 f4 f5 rule vals i v = Switch.assignAt rule vals i v := by
  unfold applyRuleFromSource Switch.assignAt othersOn
  simp only [switchTurnsOn_agrees f1 h1, switchClearsOthers_agrees f2 h2, switchKeepsLast_agrees f3 h3,
    switchIsOtherOn_agrees f4 h4, switchNoOtherOn_agrees f5 h5, clearOthers_set, othersOn_length_zero]
  by_cases hi : i < vals.length
  · simp only [hi, if_true]
    cases v <;> cases rule <;> cases Switch.otherOn vals i <;> simp
  · simp only [hi, if_false]

end Indi.Decisions
