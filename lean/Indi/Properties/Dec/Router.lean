/-
  Decision expressions regenerated from the repository's source on every run (Generated/Decisions.lean, translated by
  tools/extract_decisions.py): the conditions of `Router.process_message` and `Driver.accepts`; the router model equals the source's loop skeleton with those conditions plugged in.

  Each generated definition is `some f` (the translated Python expression) or `none` (the translator could not follow a
  restructured source: the statements then hold vacuously and the site is tied by the correspondence alone).  One file per
  area, imported only by the audits of the properties that rest on that area, so that a changed expression breaks the
  proof side of exactly those properties.
-/
import Indi.Generated.Decisions
import Indi.Generated.Registry
import Indi.Model.Rtr
import Indi.Model.RtrGlue

namespace Indi.Decisions
open Indi

def policyStr : Rtr.Policy → Str
  | .never => s "Never"
  | .also => s "Also"
  | .only => s "Only"

/-- the delivery condition of `Router.process_message` is the model's `deliverCond`, for both kinds of message and all
three policies -/
theorem routerDeliver_agrees (f : Bool → Str → Bool) (h : Generated.routerDeliver? = some f) (b : Bool) (p : Rtr.Policy) :
    f b (policyStr p) = Rtr.deliverCond b p := by
  unfold Generated.routerDeliver? at h
  cases h
  all_goals (cases b <;> cases p <;> decide +kernel)

/-- `is_blob` is true exactly for `setBLOBVector` among the registered message classes (what `Rtr.rmsgOf` assumes) -/
theorem routerIsBlob_agrees (f : Str → Bool) (h : Generated.routerIsBlob? = some f) :
    ∀ c ∈ Generated.messageClasses, f c.tag = (c.tag == s "setBLOBVector") := by
  unfold Generated.routerIsBlob? at h
  cases h
  all_goals decide +kernel

/-- `Driver.accepts` is the model's `accepts` for a named device -/
theorem driverAccepts_agrees (f : Option Str → Str → Bool) (h : Generated.driverAccepts? = some f)
    (i : Nat) (name : Str) (device : Option Str) :
    f device name = Rtr.accepts ⟨i, some name⟩ device := by
  unfold Generated.driverAccepts? at h
  cases h
  all_goals (cases device <;> simp [Rtr.accepts])

/-! ### Router.process_message -/

/-- the loop skeleton of `Router.process_message` with the three conditions of the source plugged in -/
def processFromSource (toDev : Bool → Bool → Bool) (toCli : Bool → Bool) (deliver : Bool → Str → Bool)
    (σ : Rtr.State) (m : Rtr.RMsg) (sender : Rtr.Sender) : Rtr.State × List Rtr.Target :=
  let σ1 := if m.fromClient && m.isEnableBlob then Rtr.processEnableBlob σ m sender else σ
  let devs := if m.fromClient then
      (σ1.devices.filter fun d => toDev (decide (Rtr.Sender.dev d.id = sender)) (Rtr.accepts d m.device)).map fun d => Rtr.Target.dev d.id
    else []
  let clis := if m.fromDevice then
      (σ1.clients.filter fun c => toCli (decide (Rtr.Sender.cli c = sender)) &&
          deliver m.isBlob (policyStr (Rtr.policyLookup σ1 c m.device))).map Rtr.Target.cli
    else []
  (σ1, devs ++ clis)

theorem routerToDevice_agrees (f : Bool → Bool → Bool) (h : Generated.routerToDevice? = some f) (isSender acc : Bool) :
    f isSender acc = (!isSender && acc) := by
  unfold Generated.routerToDevice? at h
  cases h
  all_goals (cases isSender <;> cases acc <;> rfl)

theorem routerToClient_agrees (f : Bool → Bool) (h : Generated.routerToClient? = some f) (isSender : Bool) :
    f isSender = !isSender := by
  unfold Generated.routerToClient? at h
  cases h
  all_goals (cases isSender <;> rfl)

/-- **the router model is the source's skeleton**: with the three conditions as they stand in router.py, the fan-out
computed by the skeleton is the model's `Rtr.process`, for every state, message and sender -/
theorem router_process_from_source (f1 : Bool → Bool → Bool) (f2 : Bool → Bool) (f3 : Bool → Str → Bool)
    (h1 : Generated.routerToDevice? = some f1) (h2 : Generated.routerToClient? = some f2)
    (h3 : Generated.routerDeliver? = some f3) (σ : Rtr.State) (m : Rtr.RMsg) (sender : Rtr.Sender) :
    processFromSource f1 f2 f3 σ m sender = Rtr.process σ m sender := by
  unfold processFromSource Rtr.process
  have e1 : (fun d : Rtr.Dev => f1 (decide (Rtr.Sender.dev d.id = sender)) (Rtr.accepts d m.device)) =
      (fun d : Rtr.Dev => decide (Rtr.Sender.dev d.id ≠ sender) && Rtr.accepts d m.device) := by
    funext d
    rw [routerToDevice_agrees f1 h1]
    by_cases hd : Rtr.Sender.dev d.id = sender <;> simp [hd]
  have e2 : ∀ (σ1 : Rtr.State), (fun c : Nat => f2 (decide (Rtr.Sender.cli c = sender)) &&
        f3 m.isBlob (policyStr (Rtr.policyLookup σ1 c m.device))) =
      (fun c : Nat => decide (Rtr.Sender.cli c ≠ sender) && Rtr.deliverCond m.isBlob (Rtr.policyLookup σ1 c m.device)) := by
    intro σ1; funext c
    rw [routerToClient_agrees f2 h2, routerDeliver_agrees f3 h3]
    by_cases hc : Rtr.Sender.cli c = sender <;> simp [hc]
  simp only [e1, e2]

end Indi.Decisions
