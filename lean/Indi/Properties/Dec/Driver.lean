/-
  Decision expressions regenerated from the repository's source on every run (Generated/Decisions.lean, translated by
  tools/extract_decisions.py): the driver's publication guards and the default step of a write — `Element.set_value`
  (the default happens unless a plain Write handler vetoed), `Vector.to_set_message` (no update while the property is not
  enabled), `Vector.to_def_message` (a delProperty instead of a definition while it is not enabled), and the "all properties"
  test of `Driver.message_from_client`; each tied to what the driver model does.

  Each generated definition is `some f` (the translated Python expression) or `none` (the translator could not follow a
  restructured source: the statements then hold vacuously and the site is tied by the correspondence alone).
-/
import Indi.Generated.Decisions
import Indi.Model.Dev

namespace Indi.Decisions
open Indi Indi.Dev

theorem setValueDefault_agrees (f : Bool → Bool) (h : Generated.setValueDefault? = some f) (vetoed : Bool) :
    f vetoed = !vetoed := by
  unfold Generated.setValueDefault? at h
  cases h
  all_goals (cases vetoed <;> rfl)

theorem toSetSilent_agrees (f : Bool → Bool) (h : Generated.toSetSilent? = some f) (enabled : Bool) :
    f enabled = !enabled := by
  unfold Generated.toSetSilent? at h
  cases h
  all_goals (cases enabled <;> rfl)

theorem toDefDeletes_agrees (f : Bool → Bool) (h : Generated.toDefDeletes? = some f) (enabled : Bool) :
    f enabled = !enabled := by
  unfold Generated.toDefDeletes? at h
  cases h
  all_goals (cases enabled <;> rfl)

theorem driverGetAll_agrees (f : Option Str → Bool) (h : Generated.driverGetAll? = some f) (name : Option Str) :
    f name = (match name with | none => true | some n => n.isEmpty) := by
  unfold Generated.driverGetAll? at h
  cases h
  all_goals (cases name <;> simp)

/-- the model publishes no update exactly when the source's guard says so -/
theorem setMsg_silent_from_source (f : Bool → Bool) (h : Generated.toSetSilent? = some f) (dev : Str) (g : Group) (v : Vec)
    (hs : f (vecEnabled g v) = true) : setMsg dev g v = .ok none := by
  rw [toSetSilent_agrees f h] at hs
  unfold setMsg
  simp [hs]

/-- the model answers with a delProperty exactly when the source's guard says so -/
theorem defMsg_deletes_from_source (f : Bool → Bool) (h : Generated.toDefDeletes? = some f) (dev : Str) (g : Group) (v : Vec)
    (hs : f (vecEnabled g v) = true) : ∃ m, defMsg dev g v = .ok m ∧ m.tag = s "delProperty" := by
  rw [toDefDeletes_agrees f h] at hs
  unfold defMsg
  simp [hs]

end Indi.Decisions
