/-
  Decision expressions regenerated from the repository's source on every run (Generated/Decisions.lean, translated by
  tools/extract_decisions.py): the filter of `_CallbackConfig.accepts_event`.

  Each generated definition is `some f` (the translated Python expression) or `none` (the translator could not follow a
  restructured source: the statements then hold vacuously and the site is tied by the correspondence alone).  One file per
  area, imported only by the audits of the properties that rest on that area, so that a changed expression breaks the
  proof side of exactly those properties.
-/
import Indi.Generated.Decisions
import Indi.Model.Cli

namespace Indi.Decisions
open Indi

/-- `_CallbackConfig.accepts_event` is the model's `Cli.accepts` -/
theorem callbackAccepts_agrees
    (f : Option Str → Option Str → Option Str → Option Str → Option Str → Option Str → Bool → Bool)
    (h : Generated.callbackAccepts? = some f) (cb : Cli.Callback) (ev : Cli.Event) :
    f cb.device cb.vector cb.element (Cli.evDev ev) (Cli.evVec ev) (Cli.evElem ev) (Cli.evIs cb.evType ev) = Cli.accepts cb ev := by
  unfold Generated.callbackAccepts? at h
  cases h
  all_goals (simp only [Cli.accepts]; cases cb.device <;> cases cb.vector <;> cases cb.element <;> simp [Option.isNone])

end Indi.Decisions
