/-
  Decision expressions regenerated from the repository's source on every run (Generated/Decisions.lean, translated by
  tools/extract_decisions.py): `Vector.enabled`: a property counts as enabled only while it and its group are switched on.

  Each generated definition is `some f` (the translated Python expression) or `none` (the translator could not follow a
  restructured source: the statements then hold vacuously and the site is tied by the correspondence alone).  One file per
  area, imported only by the audits of the properties that rest on that area, so that a changed expression breaks the
  proof side of exactly those properties.
-/
import Indi.Generated.Decisions

namespace Indi.Decisions
open Indi

/-! ### Vector.enabled -/

theorem vectorEnabled_agrees (f : Bool → Bool → Bool) (h : Generated.vectorEnabled? = some f) (own grp : Bool) :
    f own grp = (own && grp) := by
  unfold Generated.vectorEnabled? at h
  cases h
  all_goals (cases own <;> cases grp <;> rfl)

end Indi.Decisions
