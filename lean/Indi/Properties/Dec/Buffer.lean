/-
  Decision expressions regenerated from the repository's source on every run (Generated/Decisions.lean, translated by
  tools/extract_decisions.py): the three decisions of `Buffer.process` / `_find_message_in_buffer`.

  Each generated definition is `some f` (the translated Python expression) or `none` (the translator could not follow a
  restructured source: the statements then hold vacuously and the site is tied by the correspondence alone).  One file per
  area, imported only by the audits of the properties that rest on that area, so that a changed expression breaks the
  proof side of exactly those properties.
-/
import Indi.Generated.Decisions
import Indi.Model.Buf

namespace Indi.Decisions
open Indi

/-- the loop guard of `_find_message_in_buffer`: at least one more character after position `pos`
(the model's `scan` stops when fewer than two characters are left: `cs.length < 2`) -/
theorem bufLoopGuard_agrees (f : Nat → Nat → Bool) (h : Generated.bufLoopGuard? = some f) (pos len : Nat) :
    f pos len = decide (pos + 1 < len) := by
  unfold Generated.bufLoopGuard? at h
  cases h
  all_goals (simp only [decide_eq_decide]; omega)

/-- junk recovery is due exactly when a threshold is set and more than that is retained (the model's `processLoop`) -/
theorem bufCleanupDue_agrees (f : Option Nat → Nat → Bool) (h : Generated.bufCleanupDue? = some f) (T : Option Nat) (n : Nat) :
    f T n = (match T with | some t => decide (n > t) | none => false) := by
  unfold Generated.bufCleanupDue? at h
  cases h
  all_goals (cases T <;> simp)

/-! ### Buffer.process: a complete element that is not a message is skipped -/

theorem bufSkip_agrees (f : Bool → Option Nat → Bool) (h : Generated.bufSkip? = some f) (found : Bool) (e : Option Nat) :
    f found e = (!found && (match e with | some v => decide (v ≠ 0) | none => false)) := by
  unfold Generated.bufSkip? at h
  cases h
  all_goals (cases found <;> cases e <;> rfl)

end Indi.Decisions
