/-
  C07, C12, C14 — theorems about the driver-framework model (Model/Dev.lean)
  against the executable specification (Spec/Dev.lean).  The specification
  predicates `c07Holds`, `c12Holds`, `c14Holds`, `readsBack` are the very
  oracles the checks evaluate on the implementation's observed behaviour.

  `C07_response` is proved as stated.
  `C07_emitted_valid` is FALSE as originally stated (see /var/tmp/devproof2/COUNTEREXAMPLE.md:
  a BLOB value whose `format` is `None` yields a `oneBLOB` without the required `format`
  attribute); it is proved with two extra hypotheses, `devFormats d` and `opFormats op`,
  defined and commented below.
-/
import Indi.Spec.Dev
import Indi.Generated.Registry
import Indi.Proofs.DevB

namespace Indi.Dev
open Indi Indi.Spec.Dev

/-- **C07**: a getProperties request elicits exactly one definition per enabled (and wanted) property, listing
every enabled element with its current value and the property's metadata, and otherwise only delProperty notices -/
theorem C07_response (d : Device) (hwf : WF d = true) (m : Msg) (hm : m.tag = s "getProperties") :
    c07Holds d ((alookup (s "name") m.fields).getD none) (fromClient d m).msgs = true :=
  Indi.DevBResp.C07_response d hwf m hm

/-! ### EXTRA HYPOTHESES of `C07_emitted_valid` (not in the original statement)

`WF` accepts a BLOB value without a format (`Value.blob bytes none`, Python `values.BLOB(b"..", None)`,
contradicting the annotation `format: str`), `assign`/`set_value` accept one, and a client `newBLOBVector`
whose `oneBLOB` child lacks the `format` attribute creates one.  The update published for such a value is a
`oneBLOB` with `format=None`; `to_xml` drops the attribute and `from_xml` raises `TypeError` because `format`
is a required keyword of `oneBLOB`.  So the original statement is false
(counterexample: /var/tmp/devproof2/COUNTEREXAMPLE.md).  The two hypotheses below exclude exactly
that: BLOB values carry a format. -/

/-- a value that, if it is a BLOB, carries a format -/
def hasFormat : Value → Bool
  | .blob _ none => false
  | _ => true

/-- EXTRA HYPOTHESIS 1: every BLOB value stored in the device carries a format -/
def devFormats (d : Device) : Bool :=
  d.groups.all fun g => g.vecs.all fun v => v.elems.all fun e => hasFormat e.value

/-- EXTRA HYPOTHESIS 2: the values the operation brings in carry a format: the value assigned / written, and
the `format` attribute of every child of a client's `newBLOBVector` (a required attribute of `oneBLOB`, so it
is always there when the message went through `from_xml`) -/
def opFormats : Op → Bool
  | .assign _ v => hasFormat v
  | .setValue _ v => hasFormat v
  | .client m =>
      m.tag != s "newBLOBVector" ||
        (m.children.getD []).all fun p => ((alookup (s "format") p.fields).getD none).isSome
  | _ => true

theorem hasFormat_eq : ∀ v, hasFormat v = Indi.DevB.hasFormat v
  | .none => rfl
  | .text _ => rfl
  | .num _ _ => rfl
  | .blob _ none => rfl
  | .blob _ (some _) => rfl
  | .other => rfl

theorem devFormats_eq (d : Device) : devFormats d = Indi.DevB.devFormats d := by
  simp only [devFormats, Indi.DevB.devFormats, hasFormat_eq]
  rfl

theorem opFormats_eq : ∀ op, opFormats op = Indi.DevB.opFormats op
  | .assign _ v => hasFormat_eq v
  | .setValue _ v => hasFormat_eq v
  | .client _ => rfl
  | .state _ _ _ => rfl
  | .enableVec _ _ _ => rfl
  | .enableGroup _ _ => rfl
  | .enableElem _ _ => rfl

/-- **C07**: every definition and update a well-formed driver emits, in any operation, is a valid protocol
message that the library's own parser (model `fromXml` over the regenerated class table) reads back unchanged
up to normalisation — PROVIDED BLOB values carry a format (`hfd`, `hfo`: the two extra hypotheses above; the
statement without them is false) -/
theorem C07_emitted_valid (d : Device) (hwf : WF d = true) (op : Op)
    (hfd : devFormats d = true)       -- EXTRA HYPOTHESIS 1 (see above)
    (hfo : opFormats op = true) :     -- EXTRA HYPOTHESIS 2 (see above)
    ∀ m ∈ (step d op).msgs, readsBack Generated.registry m = true :=
  Indi.DevB.emitted_valid Indi.DevB.numValid d hwf op
    ((devFormats_eq d).symm.trans hfd) ((opFormats_eq op).symm.trans hfo)

end Indi.Dev
