/-
  C07: the driver model agrees with the history specification of the enabled switches — after ANY operation sequence the
  switches of groups and properties are exactly what the last assignments say (`Spec.Dev.flagsHold`), whatever else happened
  (client messages, values, states, element-level enabling, operations that raise).
-/
import Indi.Model.Dev
import Indi.Spec.Dev

namespace Indi.Dev
open Indi Indi.Spec.Dev

/-- the device after a sequence of operations (exceptions leave whatever state the operation reached) -/
def runOps (d : Device) (ops : List Op) : Device := ops.foldl (fun d op => (step d op).dev) d

/-! ### the "shape and switches" view of a device -/

abbrev Flags := List (Bool × List Bool)

/-- per group: its switch and the switches of its vectors -/
def flagsOf (d : Device) : Flags := d.groups.map fun g => (g.enabled, g.vecs.map (·.enabled))

def setVecFlag (f : Flags) (gi vi : Nat) (b : Bool) : Flags :=
  f.modify gi fun p => (p.1, p.2.set vi b)

def setGroupFlag (f : Flags) (gi : Nat) (b : Bool) : Flags :=
  f.modify gi fun p => (b, p.2)

/-- what an operation does to the view -/
def stepF (f : Flags) : Op → Flags
  | .enableVec g v b => setVecFlag f g v b
  | .enableGroup g b => setGroupFlag f g b
  | _ => f

theorem flagsOf_setVec (d : Device) (gi vi : Nat) (v : Vec) :
    flagsOf (setVec d gi vi v) = setVecFlag (flagsOf d) gi vi v.enabled := by
  simp only [flagsOf, setVec, setVecFlag]
  apply List.ext_getElem?
  intro i
  simp only [List.getElem?_map, List.getElem?_modify]
  cases h : d.groups[i]? with
  | none => simp
  | some g =>
    by_cases hi : gi = i
    · simp [hi, List.map_set]
    · simp [hi]

theorem modify_id {α} (l : List α) (i : Nat) (f : α → α) (h : ∀ a, l[i]? = some a → f a = a) :
    l.modify i f = l := by
  apply List.ext_getElem?
  intro j
  simp only [List.getElem?_modify]
  by_cases hj : i = j
  · subst hj
    cases h' : l[i]? with
    | none => simp
    | some a => simp [h a h']
  · simp [hj]

/-- rewriting a vector without touching its switch keeps the view -/
theorem flagsOf_setVec_keep (d : Device) (gi vi : Nat) (g : Group) (v v' : Vec)
    (hg : getVec d gi vi = some (g, v)) (he : v'.enabled = v.enabled) :
    flagsOf (setVec d gi vi v') = flagsOf d := by
  rw [flagsOf_setVec, setVecFlag]
  apply modify_id
  intro p hp
  simp only [getVec] at hg
  simp only [flagsOf, List.getElem?_map] at hp
  cases hgg : d.groups[gi]? with
  | none => simp [hgg] at hg
  | some g' =>
    simp only [hgg, Option.map_eq_some_iff, Prod.mk.injEq] at hg hp
    obtain ⟨w, hw, rfl, rfl⟩ := hg
    simp only [Option.some.injEq, exists_eq_left'] at hp
    subst hp
    simp only
    congr 1
    apply List.ext_getElem?
    intro j
    simp only [List.getElem?_set, List.getElem?_map, List.length_map]
    by_cases hj : vi = j
    · subst hj
      simp [hw, he]
      exact (List.getElem?_eq_some_iff.mp hw).1
    · simp [hj]

/-- an out-of-range vector address touches nothing in the view -/
theorem setVecFlag_none (d : Device) (gi vi : Nat) (b : Bool) (hg : getVec d gi vi = none) :
    setVecFlag (flagsOf d) gi vi b = flagsOf d := by
  rw [setVecFlag]
  apply modify_id
  intro p hp
  simp only [getVec] at hg
  simp only [flagsOf, List.getElem?_map] at hp
  cases hgg : d.groups[gi]? with
  | none => simp [hgg] at hp
  | some g' =>
    simp only [hgg, Option.map_eq_none_iff] at hg
    simp only [hgg, Option.map_some, Option.some.injEq] at hp
    subst hp
    simp only
    congr 1
    apply List.set_eq_of_length_le
    simp only [List.length_map]
    exact List.getElem?_eq_none_iff.mp hg

/-! ### operations that never touch a switch -/

theorem refreshVec_enabled (v : Vec) : (refreshVec v).enabled = v.enabled := rfl

/-- building a definition reads values (or, for a BLOB, nothing at all): never a switch -/
theorem refreshDef_keeps_switch (v : Vec) : (refreshDef v).enabled = v.enabled := by
  unfold refreshDef; split <;> rfl

theorem refreshVec_if_switch (c : Bool) (v : Vec) : (if c = true then refreshVec v else v).enabled = v.enabled := by
  split <;> rfl

theorem refreshDef_if_switch (c : Bool) (v : Vec) : (if c = true then refreshDef v else v).enabled = v.enabled := by
  split
  · exact refreshDef_keeps_switch v
  · rfl

theorem putBools_enabled (v : Vec) (bs : List Bool) : (putBools v bs).enabled = v.enabled := rfl

theorem checkValue_enabled (v : Vec) (ei : Nat) (val : Value) (v1 : Vec) (st : Value)
    (h : checkValue v ei val = .ok (v1, st)) : v1.enabled = v.enabled := by
  unfold checkValue at h
  split at h
  · split at h
    · split at h
      · simp only [Except.ok.injEq, Prod.mk.injEq] at h
        rw [← h.1]; rfl
      · cases h
    · cases h
  · split at h
    · split at h
      · simp only [Except.ok.injEq, Prod.mk.injEq] at h
        rw [← h.1]
      · cases h
    · cases h
  · split at h
    · split at h
      · split at h <;> cases h
      · simp only [Except.ok.injEq, Prod.mk.injEq] at h
        rw [← h.1]
    · simp only [Except.ok.injEq, Prod.mk.injEq] at h
      rw [← h.1]
  · simp only [Except.ok.injEq, Prod.mk.injEq] at h
    rw [← h.1]

theorem assign_flags (d : Device) (a : Addr) (val : Value) : flagsOf (assign d a val).dev = flagsOf d := by
  unfold assign
  split
  · rfl
  · rename_i g v hg
    split
    · rfl
    · rename_i e he
      split
      · rfl
      · split
        · rfl
        · rename_i v1 stored hc
          have h1 := checkValue_enabled _ _ _ _ _ hc
          dsimp only
          split
          · exact flagsOf_setVec_keep d a.g a.v g v _ hg h1
          · apply flagsOf_setVec_keep d a.g a.v g v _ hg
            split <;> exact h1

theorem setValue_flags (d : Device) (a : Addr) (val : Value) : flagsOf (setValue d a val).dev = flagsOf d := by
  unfold setValue
  split
  · rfl
  · split
    · rfl
    · dsimp only
      split
      · rfl
      · exact assign_flags d a val

theorem setState_flags (d : Device) (gi vi : Nat) (st : Option Str) :
    flagsOf (setState d gi vi st).dev = flagsOf d := by
  unfold setState
  split
  · rfl
  · rename_i g v hg
    split
    · split
      · rfl
      · dsimp only
        split
        · exact flagsOf_setVec_keep d gi vi g v _ hg rfl
        · apply flagsOf_setVec_keep d gi vi g v _ hg
          split <;> rfl
    · rfl

theorem enableElem_flags (d : Device) (a : Addr) (b : Bool) : flagsOf (enableElem d a b).dev = flagsOf d := by
  unfold enableElem
  split
  · rfl
  · rename_i g v hg
    split
    · rfl
    · exact flagsOf_setVec_keep d a.g a.v g v _ hg rfl

/-- `announce` only produces messages (and makes Read-handler refreshes stick): no switch changes -/
theorem announce_flags (d : Device) (gi vi : Nat) : flagsOf (announce d gi vi).dev = flagsOf d := by
  unfold announce
  split
  · rfl
  · rename_i g v hg
    split
    · rfl
    · dsimp only
      split
      · exact flagsOf_setVec_keep d gi vi g v _ hg (refreshDef_if_switch _ v)
      · exact flagsOf_setVec_keep d gi vi g v _ hg
          ((refreshVec_if_switch _ _).trans (refreshDef_if_switch _ v))

theorem mergeRes_dev (a b : Result) : (mergeRes a b).dev = b.dev := rfl

theorem announceAll_flags (gi : Nat) (d : Device) (l : List Nat) :
    flagsOf (announceAll gi d l).dev = flagsOf d := by
  induction l generalizing d with
  | nil => rfl
  | cons vi rest ih =>
    unfold announceAll
    dsimp only
    split
    · exact announce_flags d gi vi
    · rw [mergeRes_dev, ih, announce_flags]

theorem sendDefs_flags (d : Device) (l : List (Nat × Nat)) : flagsOf (sendDefs d l).dev = flagsOf d := by
  induction l generalizing d with
  | nil => rfl
  | cons p rest ih =>
    obtain ⟨gi, vi⟩ := p
    unfold sendDefs
    split
    · exact ih d
    · rename_i g v hg
      split
      · rfl
      · dsimp only
        rw [mergeRes_dev, ih]
        exact flagsOf_setVec_keep d gi vi g v _ hg (refreshDef_if_switch _ v)

theorem applyChildren_flags (gi vi : Nat) (d : Device) (ps : List Part) :
    flagsOf (applyChildren gi vi d ps).dev = flagsOf d := by
  induction ps generalizing d with
  | nil => rfl
  | cons p ps ih =>
    unfold applyChildren
    split
    · rfl
    · dsimp only
      split
      · exact ih d
      · split
        · exact ih d
        · split
          · split
            · rw [mergeRes_dev, ih, setValue_flags]
            · exact setValue_flags _ _ _
          · rw [mergeRes_dev, ih, setValue_flags]

theorem fromClient_flags (d : Device) (m : Msg) : flagsOf (fromClient d m).dev = flagsOf d := by
  unfold fromClient
  split
  · split
    · exact sendDefs_flags _ _
    · split
      · exact sendDefs_flags _ _
      · split
        · exact sendDefs_flags _ _
        · rfl
  · split
    · split
      · rfl
      · split
        · rfl
        · split
          · rfl
          · split
            · exact applyChildren_flags _ _ _ _
            · rfl
    · rfl

/-! ### the two operations that set a switch -/

theorem enableVec_flags (d : Device) (gi vi : Nat) (b : Bool) :
    flagsOf (enableVec d gi vi b).dev = setVecFlag (flagsOf d) gi vi b := by
  unfold enableVec
  split
  · rename_i hg
    exact (setVecFlag_none d gi vi b hg).symm
  · rw [announce_flags, flagsOf_setVec]

/-- the raising case of `enableVec`: no such vector, `KeyError`, device unchanged -/
theorem enableVec_none (d : Device) (gi vi : Nat) (b : Bool) (hg : getVec d gi vi = none) :
    (enableVec d gi vi b).exc = some .keyError ∧ (enableVec d gi vi b).dev = d := by
  unfold enableVec
  rw [hg]
  exact ⟨rfl, rfl⟩

theorem enableGroup_flags (d : Device) (gi : Nat) (b : Bool) :
    flagsOf (enableGroup d gi b).dev = setGroupFlag (flagsOf d) gi b := by
  unfold enableGroup
  split
  · rename_i hg
    symm
    apply modify_id
    intro p hp
    simp [flagsOf, hg] at hp
  · rename_i g hg
    dsimp only
    rw [announceAll_flags]
    simp only [flagsOf, setGroupFlag]
    apply List.ext_getElem?
    intro i
    simp only [List.getElem?_map, List.getElem?_modify, List.getElem?_set]
    by_cases hi : gi = i
    · subst hi
      obtain ⟨hlt, rfl⟩ := List.getElem?_eq_some_iff.mp hg
      simp [hlt]
    · simp [hi]

theorem step_flags (d : Device) (op : Op) : flagsOf (step d op).dev = stepF (flagsOf d) op := by
  cases op with
  | assign a v => exact assign_flags d a v
  | setValue a v => exact setValue_flags d a v
  | state g v st => exact setState_flags d g v st
  | enableVec g v b => exact enableVec_flags d g v b
  | enableGroup g b => exact enableGroup_flags d g b
  | enableElem a b => exact enableElem_flags d a b
  | client m => exact fromClient_flags d m

theorem runOps_flags (d : Device) (ops : List Op) : flagsOf (runOps d ops) = ops.foldl stepF (flagsOf d) := by
  induction ops generalizing d with
  | nil => rfl
  | cons op rest ih =>
    simp only [runOps, List.foldl_cons] at ih ⊢
    rw [ih, step_flags]

/-! ### the history specification, read on views -/

/-- `flagsHold`, stated on views -/
def holdF (f : Flags) (ops : List Op) (o : Flags) : Prop :=
  o.length = f.length ∧
  ∀ gi e vs e' vs', f[gi]? = some (e, vs) → o[gi]? = some (e', vs') →
    e' = lastGroupFlag e gi ops ∧ vs'.length = vs.length ∧
    ∀ vi b b', vs[vi]? = some b → vs'[vi]? = some b' → b' = lastVecFlag b gi vi ops

theorem holdF_nil (f : Flags) : holdF f [] f := by
  refine ⟨rfl, ?_⟩
  intro gi e vs e' vs' h0 h1
  rw [h0] at h1
  simp only [Option.some.injEq, Prod.mk.injEq] at h1
  obtain ⟨rfl, rfl⟩ := h1
  refine ⟨rfl, rfl, ?_⟩
  intro vi b b' hb hb'
  rw [hb] at hb'
  simp only [Option.some.injEq] at hb'
  subst hb'
  rfl

theorem stepF_length (f : Flags) (op : Op) : (stepF f op).length = f.length := by
  cases op <;> simp [stepF, setVecFlag, setGroupFlag]

theorem holdF_cons (f : Flags) (op : Op) (rest : List Op) (o : Flags)
    (h : holdF (stepF f op) rest o) : holdF f (op :: rest) o := by
  obtain ⟨hl, h⟩ := h
  refine ⟨by rw [hl, stepF_length], ?_⟩
  intro gi e vs e' vs' h0 h1
  cases op with
  | enableVec g v b =>
    have hs : (stepF f (.enableVec g v b))[gi]? = some (e, if g = gi then vs.set v b else vs) := by
      simp only [stepF, setVecFlag, List.getElem?_modify, h0]
      by_cases hg : g = gi <;> simp [hg]
    obtain ⟨h2, h3, h4⟩ := h gi _ _ _ _ hs h1
    refine ⟨h2, ?_, ?_⟩
    · rw [h3]; split <;> simp
    · intro vi b0 b' hb hb'
      have hv : (if g = gi then vs.set v b else vs)[vi]? = some (if (g = gi && v = vi) = true then b else b0) := by
        by_cases hg : g = gi
        · by_cases hv : v = vi
          · subst hv
            simp [hg, (List.getElem?_eq_some_iff.mp hb).1]
          · simp [hg, hv, hb]
        · simp [hg, hb]
      exact h4 vi _ _ hv hb'
  | enableGroup g b =>
    have hs : (stepF f (.enableGroup g b))[gi]? = some (if g = gi then b else e, vs) := by
      simp only [stepF, setGroupFlag, List.getElem?_modify, h0]
      by_cases hg : g = gi <;> simp [hg]
    exact h gi _ _ _ _ hs h1
  | assign a v => exact h gi _ _ _ _ h0 h1
  | setValue a v => exact h gi _ _ _ _ h0 h1
  | state g v st => exact h gi _ _ _ _ h0 h1
  | enableElem a b => exact h gi _ _ _ _ h0 h1
  | client m => exact h gi _ _ _ _ h0 h1

theorem holdF_run (f : Flags) (ops : List Op) : holdF f ops (ops.foldl stepF f) := by
  induction ops generalizing f with
  | nil => exact holdF_nil f
  | cons op rest ih => exact holdF_cons f op rest _ (ih (stepF f op))

/-- `flagsHold` only reads the views of the two devices -/
theorem flagsHold_of_holdF (d : Device) (ops : List Op) (o : Device)
    (h : holdF (flagsOf d) ops (flagsOf o)) : flagsHold d ops o = true := by
  obtain ⟨hl, h⟩ := h
  simp only [flagsOf, List.length_map] at hl
  unfold flagsHold
  simp only [Bool.and_eq_true, beq_iff_eq, List.all_eq_true, List.mem_range]
  refine ⟨hl, ?_⟩
  intro gi hgi
  have h0 : d.groups[gi]? = some d.groups[gi] := List.getElem?_eq_getElem hgi
  have h1 : o.groups[gi]? = some (o.groups[gi]'(hl ▸ hgi)) := List.getElem?_eq_getElem (hl ▸ hgi)
  rw [h0, h1]
  dsimp only
  obtain ⟨h2, h3, h4⟩ := h gi _ _ _ _
    (by simp only [flagsOf, List.getElem?_map, h0]; rfl) (by simp only [flagsOf, List.getElem?_map, h1]; rfl)
  simp only [List.length_map] at h3
  simp only [Bool.and_eq_true, beq_iff_eq, List.all_eq_true, List.mem_range]
  refine ⟨⟨h2, h3⟩, ?_⟩
  intro vi hvi
  have h5 : d.groups[gi].vecs[vi]? = some d.groups[gi].vecs[vi] := List.getElem?_eq_getElem hvi
  have h6 : (o.groups[gi]'(hl ▸ hgi)).vecs[vi]? = some ((o.groups[gi]'(hl ▸ hgi)).vecs[vi]'(h3 ▸ hvi)) :=
    List.getElem?_eq_getElem (h3 ▸ hvi)
  rw [h5, h6]
  dsimp only
  simp only [beq_iff_eq]
  exact h4 vi _ _ (by simp only [List.getElem?_map, h5]; rfl) (by simp only [List.getElem?_map, h6]; rfl)

/-- **C07 (enabled switches)**: the model's switches are a function of the history alone -/
theorem flags_follow_history (d : Device) (ops : List Op) : flagsHold d ops (runOps d ops) = true := by
  apply flagsHold_of_holdF
  rw [runOps_flags]
  exact holdF_run _ ops

/-! ### non-vacuity: a concrete device with two groups -/

namespace Example

def el (n : String) (v : String) : Elem := { d := { name := s n, label := s n }, value := .text (s v), enabled := true }

def tvec (n : String) (en : Bool) (es : List Elem) : Vec :=
  { name := s n, label := s n, kind := .text, perm := some (s "rw"), timeout := some (s "0"), rule := none,
    state := s "Idle", enabled := en, elems := es }

def dev : Device :=
  { name := s "D",
    groups := [ { name := s "G0", enabled := true, vecs := [tvec "A" true [el "a" "x"], tvec "B" true [el "b" "y", el "c" "z"]] },
                { name := s "G1", enabled := false, vecs := [tvec "C" true [el "d" "w"]] } ] }

def getProps : Msg := { tag := s "getProperties", fields := [(s "name", none)], children := none }

/-- a group toggle around a vector toggle, writes, a client request, and out-of-range addresses -/
def ops : List Op :=
  [ .enableGroup 0 false, .enableVec 0 1 false, .assign ⟨0, 1, 0⟩ (.text (s "q")), .enableGroup 0 true,
    .client getProps, .enableVec 1 0 false, .enableVec 5 5 true, .enableVec 0 9 false, .enableGroup 7 false,
    .setValue ⟨1, 0, 0⟩ (.text (s "r")), .state 0 0 (some (s "Busy")), .enableElem ⟨0, 1, 1⟩ false,
    .enableVec 1 0 true, .enableVec 1 0 false, .enableGroup 1 true ]

/-- the switches the model ends with -/
example : flagsOf (runOps dev ops) = [(true, [true, false]), (true, [false])] := by decide +kernel

/-- they are the ones the history dictates -/
example : flagsHold dev ops (runOps dev ops) = true := by decide +kernel

/-- the specification discriminates: the untouched initial device does not satisfy it -/
example : flagsHold dev ops dev = false := by decide +kernel

/-- neither does the run of a history without the last vector toggle -/
example : flagsHold dev ops (runOps dev (ops.take 13)) = false := by decide +kernel

/-- the operations in between did something (values, state, element switches changed) -/
example : (runOps dev ops != runOps dev [.enableVec 0 1 false, .enableVec 1 0 false, .enableGroup 1 true]) = true := by
  decide +kernel

/-- an out-of-range address raises `KeyError` and leaves the device alone -/
example : (enableVec dev 5 5 true).exc = some .keyError ∧ (enableVec dev 5 5 true).dev = dev := by decide +kernel

end Example

end Indi.Dev
