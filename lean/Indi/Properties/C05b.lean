/-
  C05/C04 under re-entrant delivery (endpoints that call `process_message` from inside their handler):
  theorems over `Rtr.procR` (Model/RtrR.lean).
-/
import Indi.Model.RtrR
import Indi.Spec.RtrR
import Indi.Properties.C05

namespace Indi.Rtr
open Indi.Spec.Rtr

/-! ### the body of `procR`, through named step functions -/

/-- the local `deliver` of `procR (fuel + 1)` -/
def deliverR (fuel mid : Nat) (m : RMsg) (a : Acc) (t : Target) (p : Policy) : Acc :=
  match popReaction t a.rs with
  | some (r, rs') =>
    procR fuel { σ := a.σ, rs := rs', log := a.log ++ [{ mid := mid, target := t, isBlob := m.isBlob, policy := p }] }
      r.id r.msg (senderOf t)
  | none => { a with log := a.log ++ [{ mid := mid, target := t, isBlob := m.isBlob, policy := p }] }

def devStepR (fuel mid : Nat) (m : RMsg) (sender : Sender) (a : Acc) (d : Dev) : Acc :=
  if Sender.dev d.id ≠ sender && accepts d m.device then deliverR fuel mid m a (.dev d.id) defaultPolicy else a

def cliStepR (fuel mid : Nat) (m : RMsg) (sender : Sender) (a : Acc) (c : Nat) : Acc :=
  if Sender.cli c ≠ sender && deliverCond m.isBlob (policyLookup a.σ c m.device)
  then deliverR fuel mid m a (.cli c) (policyLookup a.σ c m.device) else a

def preR (a : Acc) (m : RMsg) (sender : Sender) : Acc :=
  { a with σ := if m.fromClient && m.isEnableBlob then processEnableBlob a.σ m sender else a.σ }

def devsR (fuel : Nat) (a : Acc) (mid : Nat) (m : RMsg) (sender : Sender) : Acc :=
  if m.fromClient then (preR a m sender).σ.devices.foldl (devStepR fuel mid m sender) (preR a m sender)
  else preR a m sender

theorem procR_succ (fuel : Nat) (a : Acc) (mid : Nat) (m : RMsg) (sender : Sender) :
    procR (fuel + 1) a mid m sender =
      if m.fromDevice then
        (devsR fuel a mid m sender).σ.clients.foldl (cliStepR fuel mid m sender) (devsR fuel a mid m sender)
      else devsR fuel a mid m sender := by
  rfl

/-! ### generic fold lemmas -/

theorem foldl_inv {α β : Type} (P : α → Prop) (f : α → β → α) (hf : ∀ a x, P a → P (f a x)) :
    ∀ (l : List β) (init : α), P init → P (l.foldl f init) := by
  intro l
  induction l with
  | nil => intro init h; exact h
  | cons x xs ih => intro init h; exact ih _ (hf _ _ h)

theorem foldl_rel {α β : Type} (R : α → α → Prop) (hrefl : ∀ a, R a a) (htrans : ∀ a b c, R a b → R b c → R a c)
    (f : α → β → α) (hf : ∀ a x, R a (f a x)) :
    ∀ (l : List β) (init : α), R init (l.foldl f init) := by
  intro l
  induction l with
  | nil => intro init; exact hrefl _
  | cons x xs ih => intro init; exact htrans _ _ _ (hf init x) (ih _)

/-- lifting a reflexive, transitive relation that `deliverR` respects to the whole of `procR (fuel + 1)` -/
theorem procR_succ_rel (R : Acc → Acc → Prop) (hrefl : ∀ a, R a a) (htrans : ∀ a b c, R a b → R b c → R a c)
    (fuel : Nat) (a : Acc) (mid : Nat) (m : RMsg) (sender : Sender)
    (hpre : R a (preR a m sender))
    (hdel : ∀ b t p, R b (deliverR fuel mid m b t p)) :
    R a (procR (fuel + 1) a mid m sender) := by
  have hdevs : R a (devsR fuel a mid m sender) := by
    unfold devsR
    split
    · refine htrans _ _ _ hpre (foldl_rel R hrefl htrans _ ?_ _ _)
      intro b d
      unfold devStepR
      split
      · exact hdel _ _ _
      · exact hrefl _
    · exact hpre
  rw [procR_succ]
  split
  · refine htrans _ _ _ hdevs (foldl_rel R hrefl htrans _ ?_ _ _)
    intro b c
    unfold cliStepR
    split
    · exact hdel _ _ _
    · exact hrefl _
  · exact hdevs

/-! ### `popReaction` -/

theorem popReaction_spec (t : Target) :
    ∀ (rs : List Reaction) (r : Reaction) (rs' : List Reaction),
      popReaction t rs = some (r, rs') → r ∈ rs ∧ rs'.Sublist rs := by
  intro rs
  induction rs with
  | nil => intro r rs' h; simp [popReaction] at h
  | cons x xs ih =>
    intro r rs' h
    unfold popReaction at h
    split at h
    · simp only [Option.some.injEq, Prod.mk.injEq] at h
      obtain ⟨rfl, rfl⟩ := h
      exact ⟨List.mem_cons_self, List.sublist_cons_self _ _⟩
    · split at h
      · rename_i y rest hy
        simp only [Option.some.injEq, Prod.mk.injEq] at h
        obtain ⟨rfl, rfl⟩ := h
        obtain ⟨h1, h2⟩ := ih _ _ hy
        exact ⟨List.mem_cons_of_mem _ h1, h2.cons_cons _⟩
      · simp at h

/-! ### reactions are only consumed -/

/-- reactions are only consumed: what is left is a sublist of what was pending -/
theorem procR_rs_sublist (fuel : Nat) (a : Acc) (mid : Nat) (m : RMsg) (s : Sender) :
    (procR fuel a mid m s).rs.Sublist a.rs := by
  induction fuel generalizing a mid m s with
  | zero => simp [procR]
  | succ fuel ih =>
    refine procR_succ_rel (fun a b => b.rs.Sublist a.rs) (fun _ => List.Sublist.refl _)
      (fun _ _ _ h1 h2 => h2.trans h1) fuel a mid m s (List.Sublist.refl _) ?_
    intro b t p
    unfold deliverR
    split
    · rename_i r rs' hpop
      exact (ih _ _ _ _).trans (popReaction_spec t _ _ _ hpop).2
    · exact List.Sublist.refl _

/-! ### without reactions: the plain model -/

theorem deliverR_nil (fuel mid : Nat) (m : RMsg) (a : Acc) (t : Target) (p : Policy) (h : a.rs = []) :
    deliverR fuel mid m a t p =
      { a with log := a.log ++ [{ mid := mid, target := t, isBlob := m.isBlob, policy := p }] } := by
  unfold deliverR
  rw [h]
  rfl

theorem foldl_devStepR_nil (fuel mid : Nat) (m : RMsg) (sender : Sender) :
    ∀ (l : List Dev) (a : Acc), a.rs = [] →
      l.foldl (devStepR fuel mid m sender) a =
        { a with log := a.log ++
          (l.filter fun d => Sender.dev d.id ≠ sender && accepts d m.device).map fun d =>
            ({ mid := mid, target := .dev d.id, isBlob := m.isBlob, policy := defaultPolicy } : Delivery) } := by
  intro l
  induction l with
  | nil => intro a _; simp
  | cons d ds ih =>
    intro a ha
    rw [List.foldl_cons]
    by_cases hc : (Sender.dev d.id ≠ sender && accepts d m.device) = true
    · have h1 : devStepR fuel mid m sender a d =
          { a with log := a.log ++ [{ mid := mid, target := .dev d.id, isBlob := m.isBlob, policy := defaultPolicy }] } := by
        unfold devStepR
        rw [if_pos hc, deliverR_nil _ _ _ _ _ _ ha]
      rw [h1, ih]
      · simp only [List.filter_cons, hc, ↓reduceIte]
        simp
      · exact ha
    · have h1 : devStepR fuel mid m sender a d = a := by
        unfold devStepR
        rw [if_neg hc]
      rw [h1, ih _ ha]
      simp only [List.filter_cons, hc, Bool.false_eq_true, ↓reduceIte]

theorem foldl_cliStepR_nil (fuel mid : Nat) (m : RMsg) (sender : Sender) :
    ∀ (l : List Nat) (a : Acc), a.rs = [] →
      l.foldl (cliStepR fuel mid m sender) a =
        { a with log := a.log ++
          (l.filter fun c => Sender.cli c ≠ sender && deliverCond m.isBlob (policyLookup a.σ c m.device)).map fun c =>
            ({ mid := mid, target := .cli c, isBlob := m.isBlob, policy := policyLookup a.σ c m.device } : Delivery) } := by
  intro l
  induction l with
  | nil => intro a _; simp
  | cons c cs ih =>
    intro a ha
    rw [List.foldl_cons]
    by_cases hc : (Sender.cli c ≠ sender && deliverCond m.isBlob (policyLookup a.σ c m.device)) = true
    · have h1 : cliStepR fuel mid m sender a c =
          { a with log := a.log ++
            [{ mid := mid, target := .cli c, isBlob := m.isBlob, policy := policyLookup a.σ c m.device }] } := by
        unfold cliStepR
        rw [if_pos hc, deliverR_nil _ _ _ _ _ _ ha]
      rw [h1, ih]
      · simp only [List.filter_cons, hc, ↓reduceIte]
        simp
      · exact ha
    · have h1 : cliStepR fuel mid m sender a c = a := by
        unfold cliStepR
        rw [if_neg hc]
      rw [h1, ih _ ha]
      simp only [List.filter_cons, hc, Bool.false_eq_true, ↓reduceIte]

/-- without pending reactions the re-entrant model is the plain one: same state, same deliveries (tagged with the outer
message), for any positive fuel -/
theorem procR_no_reactions (fuel : Nat) (σ : State) (m : RMsg) (s : Sender) :
    (procR (fuel + 1) { σ := σ, rs := [], log := [] } 0 m s).σ = (process σ m s).1 ∧
    (procR (fuel + 1) { σ := σ, rs := [], log := [] } 0 m s).log.map (·.target) = (process σ m s).2 := by
  rw [procR_succ]
  unfold devsR
  cases hfc : m.fromClient <;> cases hfd : m.fromDevice <;>
    simp [foldl_devStepR_nil, foldl_cliStepR_nil, preR, process, hfc, hfd, Function.comp_def]

/-! ### C05 soundness under re-entrancy -/

/-- the log invariant of C05 soundness -/
def LogAllowed (a : Acc) : Prop := ∀ d ∈ a.log, ∀ c, d.target = .cli c → allows d.policy d.isBlob = true

theorem procR_logAllowed (fuel : Nat) : ∀ (a : Acc) (mid : Nat) (m : RMsg) (s : Sender),
    LogAllowed a → LogAllowed (procR fuel a mid m s) := by
  induction fuel with
  | zero => intro a mid m s h; exact h
  | succ fuel ih =>
    intro a mid m s h
    -- `deliverR` keeps the invariant when the logged (target, policy) pair is allowed
    have hdel : ∀ (b : Acc) (t : Target) (p : Policy), (∀ c, t = .cli c → allows p m.isBlob = true) →
        LogAllowed b → LogAllowed (deliverR fuel mid m b t p) := by
      intro b t p htp hb
      have hb' : ∀ d ∈ b.log ++ [({ mid := mid, target := t, isBlob := m.isBlob, policy := p } : Delivery)],
          ∀ c, d.target = .cli c → allows d.policy d.isBlob = true := by
        intro d hd c hc
        rcases List.mem_append.1 hd with hd | hd
        · exact hb d hd c hc
        · rw [List.mem_singleton] at hd
          subst hd
          exact htp c hc
      unfold deliverR
      split
      · exact ih _ _ _ _ hb'
      · exact hb'
    have hpre : LogAllowed (preR a m s) := h
    have hdevs : LogAllowed (devsR fuel a mid m s) := by
      unfold devsR
      split
      · refine foldl_inv LogAllowed _ ?_ _ _ hpre
        intro b d hb
        unfold devStepR
        split
        · exact hdel _ _ _ (fun c hc => by cases hc) hb
        · exact hb
      · exact hpre
    rw [procR_succ]
    split
    · refine foldl_inv LogAllowed _ ?_ _ _ hdevs
      intro b c hb
      unfold cliStepR
      split
      · rename_i hcond
        refine hdel _ _ _ (fun _ _ => ?_) hb
        rw [← deliverCond_eq_allows]
        simp only [Bool.and_eq_true] at hcond
        exact hcond.2
      · exact hb
    · exact hdevs

/-- **C05 under re-entrancy (soundness)**: whatever the nesting, every delivery to a client was decided with the BLOB-ness
of the very message that is delivered and a policy that allows it: `allows policy isBlob` (Never: everything but BLOB
updates, Also: everything, Only: BLOB updates only) -/
theorem procR_deliveries_allowed (fuel : Nat) (a : Acc) (mid : Nat) (m : RMsg) (s : Sender)
    (hlog : ∀ d ∈ a.log, ∀ c, d.target = .cli c → allows d.policy d.isBlob = true) :
    ∀ d ∈ (procR fuel a mid m s).log, ∀ c, d.target = .cli c → allows d.policy d.isBlob = true :=
  procR_logAllowed fuel a mid m s hlog

/-- C05 soundness for whole histories with a queue of reactions -/
theorem traceR_deliveries_allowed_from (h : List Op) : ∀ (σ : State) (rs : List Reaction),
    ∀ e ∈ traceR σ rs h, ∀ d ∈ e, ∀ c, d.target = .cli c → allows d.policy d.isBlob = true := by
  induction h with
  | nil => intro σ rs e he; simp [traceR] at he
  | cons op rest ih =>
    intro σ rs e he
    cases op with
    | send m s =>
      simp only [traceR, List.mem_cons] at he
      rcases he with rfl | he
      · exact procR_deliveries_allowed _ _ _ _ _ (by intro d hd; simp at hd)
      · exact ih _ _ e he
    | regDev d =>
      simp only [traceR, List.mem_cons] at he
      rcases he with rfl | he
      · intro d hd; simp at hd
      · exact ih _ _ e he
    | regCli c =>
      simp only [traceR, List.mem_cons] at he
      rcases he with rfl | he
      · intro d hd; simp at hd
      · exact ih _ _ e he
    | unreg c =>
      simp only [traceR, List.mem_cons] at he
      rcases he with rfl | he
      · intro d hd; simp at hd
      · exact ih _ _ e he

/-- **C05 under re-entrancy, whole histories**: in the trace of any history from the initial router, with any queue of
reactions, every delivery to a client is allowed by the policy it was decided with, for its own BLOB-ness -/
theorem traceR_deliveries_allowed (rs : List Reaction) (h : List Op) :
    ∀ e ∈ traceR Rtr.init rs h, ∀ d ∈ e, ∀ c, d.target = .cli c → allows d.policy d.isBlob = true :=
  traceR_deliveries_allowed_from h Rtr.init rs

/-! ### own BLOB-ness -/

/-- what a call for message `mid` with BLOB-ness `b` may do to the accumulator: consume reactions, and log deliveries
that are either its own (`mid`, `b`) or carry the id of a reaction that was pending -/
def OwnRel (mid : Nat) (b : Bool) (a0 a : Acc) : Prop :=
  a.rs.Sublist a0.rs ∧
  ∀ d ∈ a.log, d ∈ a0.log ∨ (d.mid = mid ∧ d.isBlob = b) ∨ ∃ r ∈ a0.rs, r.id = d.mid

theorem OwnRel.refl (mid : Nat) (b : Bool) (a : Acc) : OwnRel mid b a a :=
  ⟨List.Sublist.refl _, fun _ hd => Or.inl hd⟩

theorem OwnRel.trans (mid : Nat) (b : Bool) (a0 a1 a2 : Acc) (h1 : OwnRel mid b a0 a1) (h2 : OwnRel mid b a1 a2) :
    OwnRel mid b a0 a2 := by
  refine ⟨h2.1.trans h1.1, ?_⟩
  intro d hd
  rcases h2.2 d hd with hd | hd | ⟨r, hr, hrd⟩
  · exact h1.2 d hd
  · exact Or.inr (Or.inl hd)
  · exact Or.inr (Or.inr ⟨r, h1.1.subset hr, hrd⟩)

theorem procR_ownRel (fuel : Nat) : ∀ (a : Acc) (mid : Nat) (m : RMsg) (s : Sender),
    OwnRel mid m.isBlob a (procR fuel a mid m s) := by
  induction fuel with
  | zero => intro a mid m s; exact OwnRel.refl _ _ _
  | succ fuel ih =>
    intro a mid m s
    refine procR_succ_rel (OwnRel mid m.isBlob) (OwnRel.refl _ _) (OwnRel.trans _ _) fuel a mid m s
      (OwnRel.refl _ _ _) ?_
    intro b t p
    unfold deliverR
    split
    · rename_i r rs' hpop
      obtain ⟨hmem, hsub⟩ := popReaction_spec t _ _ _ hpop
      obtain ⟨h1, h2⟩ := ih { σ := b.σ, rs := rs', log := b.log ++ [{ mid := mid, target := t, isBlob := m.isBlob, policy := p }] }
        r.id r.msg (senderOf t)
      refine ⟨h1.trans hsub, ?_⟩
      intro d hd
      rcases h2 d hd with hd | hd | ⟨r', hr', hrd⟩
      · rcases List.mem_append.1 hd with hd | hd
        · exact Or.inl hd
        · rw [List.mem_singleton] at hd
          subst hd
          exact Or.inr (Or.inl ⟨rfl, rfl⟩)
      · exact Or.inr (Or.inr ⟨r, hmem, hd.1.symm⟩)
      · exact Or.inr (Or.inr ⟨r', hsub.subset hr', hrd⟩)
    · refine ⟨List.Sublist.refl _, ?_⟩
      intro d hd
      rcases List.mem_append.1 hd with hd | hd
      · exact Or.inl hd
      · rw [List.mem_singleton] at hd
        subst hd
        exact Or.inr (Or.inl ⟨rfl, rfl⟩)

/-- every delivery logged for the message with id `mid` carries that message's own BLOB-ness (the outer message's
BLOB-ness is never used for a nested one).  (`hnodup` is not needed: `procR_ownRel` shows that every logged delivery is
old, the call's own, or carries the id of a reaction that was pending, and `hids` separates the latter from `mid`.) -/
theorem procR_isBlob_own (fuel : Nat) (a : Acc) (mid : Nat) (m : RMsg) (s : Sender)
    (hids : ∀ r ∈ a.rs, r.id ≠ mid) (hnodup : (a.rs.map (·.id)).Nodup)
    (hlog : ∀ d ∈ a.log, d.mid ≠ mid) :
    ∀ d ∈ (procR fuel a mid m s).log, d.mid = mid → d.isBlob = m.isBlob := by
  have _ := hnodup
  intro d hd hmid
  rcases (procR_ownRel fuel a mid m s).2 d hd with hd | hd | ⟨r, hr, hrd⟩
  · exact absurd hmid (hlog d hd)
  · exact hd.2
  · exact absurd (hrd.trans hmid) (hids r hr)

/-! ### non-vacuity: a nested BLOB message is routed by its own BLOB-ness -/

/-- Two clients: client 1 sends `enableBLOB A Never`, client 2 sends `enableBLOB A Only`; then the driver "A" (id 0)
registers.  Client 1 then sends a `newTextVector`-like message for "A"; from inside its handler the driver
sends a `setBLOBVector`-like message (reaction 7).  The outer message reaches the driver only; the nested BLOB message
reaches the Only client 2 and not the Never client 1, each delivery decided with the nested message's own BLOB-ness. -/
example :
    traceR Rtr.init
      [{ id := 7, who := .dev 0,
         msg := { fromClient := false, fromDevice := true, isEnableBlob := false, isBlob := true,
                  device := some ['A'], value := .never } }]
      [ .regCli 1, .regCli 2,
        .send { fromClient := true, fromDevice := false, isEnableBlob := true, isBlob := false,
                device := some ['A'], value := .never } (.cli 1),
        .send { fromClient := true, fromDevice := false, isEnableBlob := true, isBlob := false,
                device := some ['A'], value := .only } (.cli 2),
        .regDev { id := 0, name := some ['A'] },
        .send { fromClient := true, fromDevice := false, isEnableBlob := false, isBlob := false,
                device := some ['A'], value := .never } (.cli 1) ]
    = [ [], [], [], [], [],
        [{ mid := 0, target := .dev 0, isBlob := false, policy := .never },
         { mid := 7, target := .cli 2, isBlob := true, policy := .only }] ] := by
  decide +kernel

end Indi.Rtr
