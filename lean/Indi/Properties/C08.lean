/-
  C08 — BLOB payloads arrive bit-exact in both directions and never stall a link.
  Codec: Model/B64.lean (`binascii`-compatible base64), proofs in Proofs/B64.lean.
  Deployment: Model/Sys.lean, Spec: `Spec.Sys.c08Holds` (the check's oracle).
  Helper lemmas: Proofs/Sys08.lean (which also defines the side condition `worldOk08`).

  `C08_down`, `C08_up` are proved as stated.  `C08_publish` is proved with ONE extra hypothesis (`ha`: the
  address names an existing BLOB element) and the completed side condition `worldOk08`; each addition is
  shown to be necessary by a kernel-checked counterexample below.
-/
import Indi.Spec.Sys
import Indi.Generated.Registry
import Indi.Proofs.B64
import Indi.Proofs.Sys08

namespace Indi.Sys
open Indi Indi.Dev Indi.Cli Indi.Spec.Sys

/-- base64: decoding the encoding of any byte string gives the byte string back -/
theorem C08_codec (bs : List Nat) (h : ∀ b ∈ bs, b < 256) : B64.decode (B64.encode bs) = .ok bs :=
  B64.decode_encode bs h

/-- the encoded payload contains no character that XML would escape or a parser would alter -/
theorem C08_codec_chars (bs : List Nat) (h : ∀ b ∈ bs, b < 256) : ∀ c ∈ B64.encode bs, c ∈ B64.alphabet ∨ c = '=' :=
  B64.encode_chars bs h

/-- the declared length of the encoded text -/
theorem C08_codec_length (bs : List Nat) : (B64.encode bs).length = 4 * ((bs.length + 2) / 3) :=
  B64.encode_length bs

/-- **C08** (driver → client, one element): the part a driver publishes for a BLOB value, read by a client after
the wire (`Spec.Dev.normPart`: what `from_xml ∘ to_xml` does to a part, C03), decodes to identical bytes, format
and length -/
theorem C08_down (e : Dev.Elem) (bs : List Nat) (f : Str) (h : ∀ b ∈ bs, b < 256)
    (hv : readValue e = .blob bs (some f)) :
    ∃ p, onePart .blob e = .ok p ∧ blobFromPart (Spec.Dev.normPart p) = .ok (.blob bs (some f)) := by
  refine ⟨_, onePart_blob e bs (some f) hv, ?_⟩
  rw [normPart_blobPart]
  exact blobFromPart_read _ _ bs _ h (normVal_encode bs)

/-- the hypotheses of `C08_down` are satisfiable -/
example : ∃ (e : Dev.Elem) (bs : List Nat) (f : Str), (∀ b ∈ bs, b < 256) ∧ bs ≠ [] ∧
    readValue e = .blob bs (some f) :=
  ⟨{ d := { name := s "img", label := s "Image" }, value := .blob [0, 255, 77] (some (s ".fits")), enabled := true },
   [0, 255, 77], s ".fits", by decide +kernel⟩

/-- **C08** (client → driver, one element): the part a client submits for a BLOB value, read by the driver after
the wire, yields identical bytes and format -/
theorem C08_up (name : Option Str) (bs : List Nat) (f : Option Str) (h : ∀ b ∈ bs, b < 256) :
    ∃ p, newPart .blob name (.blob bs f) = some p ∧ valueFromPart .blob (Spec.Dev.normPart p) = .ok (.blob bs f) := by
  refine ⟨_, newPart_blob name bs f, ?_⟩
  rw [normPart_blobPart]
  exact valueFromPart_read _ _ bs _ h (normVal_encode bs)

/-- the hypotheses of `C08_up` are satisfiable -/
example : ∃ (bs : List Nat), (∀ b ∈ bs, b < 256) ∧ bs ≠ [] := ⟨[1, 2, 3, 250], by decide⟩

/-- EXTRA HYPOTHESIS of `C08_publish` (not in the draft): the address names an existing element of a BLOB
property of the driver.  `c08Holds` is `false` for an address that names nothing (`C08_publish_needs_address`),
and an element of another kind rejects a byte string (AssertionError) and keeps its value, which is then not a
BLOB value. -/
def blobElemAt (d : Device) (a : Addr) : Bool :=
  match getVec d a.g a.v with
  | some (_, v) => v.kind == .blob && (v.elems[a.e]?).isSome
  | none => false

/-- **C08** (deployment): when a driver publishes a byte string as the value of an enabled BLOB element, then -
under ANY interleaving of the peers' connections - every peer that sees the deployment as it is holds, if BLOBs
reach it, identical bytes and format, and otherwise exactly what it held before (`c08Holds`) -/
theorem C08_publish (w w' : World) (di : Nat) (d : Device) (a : Addr) (bs : List Nat) (f : Str)
    (hok : Indi.Sys.worldOk08 w.devs = true) (hs : allSynced w = true) (hd : w.devs[di]? = some d)
    (ha : blobElemAt d a = true)      -- EXTRA HYPOTHESIS (see above)
    (hb : ∀ b ∈ bs, b < 256)
    (hn : nextOk Generated.registry w (.driver di (.assign a (.blob bs (some f)))) w' = true) :
    ∀ pp ∈ w.peers.zip w'.peers, ∀ d', w'.devs[di]? = some d' →
      c08Holds pp.1.blobs d' a.g a.v a.e pp.1.mirror pp.2.mirror = true := by
  unfold blobElemAt at ha
  split at ha
  · rename_i g v hv
    simp only [Bool.and_eq_true, beq_iff_eq, Option.isSome_iff_exists] at ha
    obtain ⟨hk, e, he⟩ := ha
    exact publish_core w w' di d a bs f hok hs hd hb g v e hv he hk hn
  · cases ha

end Indi.Sys

/-! ## satisfiability of the hypotheses, and the counterexamples that justify them (all kernel-checked) -/

namespace Indi.Sys.Ex08
open Indi Indi.Dev Indi.Cli Indi.Spec.Sys Indi.Sys

def reg := Generated.registry

def el (n : String) (v : Value) (en : Bool := true) : Dev.Elem :=
  { d := { name := s n, label := s n }, value := v, enabled := en }

def cam (elems : List Dev.Elem) : Device :=
  { name := s "cam",
    groups := [{ name := s "Main", enabled := true,
                 vecs := [{ name := s "CCD1", label := s "Image", kind := .blob, perm := some (s "ro"),
                            timeout := some (s "60"), rule := none, state := s "Ok", enabled := true, elems := elems }] }] }

/-- peers: network with BLOBs, network without, network with BLOBs on both connections, in-process -/
def kinds : List (Bool × Bool × Bool) := [(true, false, false), (false, false, false), (true, false, true), (false, true, false)]

def op (bs : List Nat) : Sys.Op := .driver 0 (.assign ⟨0, 0, 0⟩ (.blob bs (some (s ".fits"))))

/-! ### a non-trivial instance of the hypotheses of `C08_publish`: three BLOB elements (one unset, one holding
bytes, one disabled), four peers of all kinds, all synchronised by the handshake; the schedule is the in-order one -/
def w1 : World := start reg [cam [el "img" .none, el "thumb" (.blob [9, 9] (some (s ".jpg"))), el "off" .none false]] kinds

example :
    worldOk08 w1.devs = true ∧ allSynced w1 = true ∧ w1.devs[0]? = some (cam [el "img" .none, el "thumb" (.blob [9, 9] (some (s ".jpg"))), el "off" .none false]) ∧
    blobElemAt (cam [el "img" .none, el "thumb" (.blob [9, 9] (some (s ".jpg"))), el "off" .none false]) ⟨0, 0, 0⟩ = true ∧
    (∀ b ∈ [0, 255, 16], b < 256) ∧
    nextOk reg w1 (op [0, 255, 16]) (step reg w1 (op [0, 255, 16])) = true ∧ w1.peers.length = 4 := by
  decide +kernel


/-! ### counterexamples -/

/-- the conjunct of `worldOk08` without (1): formats -/
def okButFormat (devs : List Device) : Bool :=
  devs.all fun d => Spec.Dev.WF d && d.groups.all fun g => g.vecs.all fun v =>
    v.kind != .blob || decide ((enabledElems v).map (·.d.name)).Nodup

/-- the conjunct of `worldOk08` without (2): distinct names -/
def okButNames (devs : List Device) : Bool :=
  devs.all fun d => Spec.Dev.WF d && d.groups.all fun g => g.vecs.all fun v =>
    v.kind != .blob || (v.elems.all fun e => !e.enabled || blobValOk e.value)

/-- the conclusion of `C08_publish` fails -/
def fails (w w' : World) (di : Nat) (a : Addr) : Bool :=
  (w.peers.zip w'.peers).any fun pp =>
    match w'.devs[di]? with
    | some d' => !c08Holds pp.1.blobs d' a.g a.v a.e pp.1.mirror pp.2.mirror
    | none => false

/-- (1) a sibling element holding a BLOB without format: the driver `cam` has the BLOB property `CCD1` with the
enabled elements `img` (unset) and `old` (`BLOB(b"\x01", None)`).  All four peers have performed the handshake
and are synchronised.  The driver assigns `b"\x07"` (format ".fits") to `img`.  The update lists both elements;
`old`'s `oneBLOB` has no `format` attribute, the network peers' `from_xml` rejects the update, and the peers that
enabled BLOBs still hold nothing for `img`. -/
def w2 : World := start reg [cam [el "img" .none, el "old" (.blob [1] none)]] kinds

theorem C08_publish_needs_format :
    okButFormat w2.devs = true ∧ allSynced w2 = true ∧
    blobElemAt (cam [el "img" .none, el "old" (.blob [1] none)]) ⟨0, 0, 0⟩ = true ∧
    nextOk reg w2 (op [7]) (step reg w2 (op [7])) = true ∧
    fails w2 (step reg w2 (op [7])) 0 ⟨0, 0, 0⟩ = true := by
  decide +kernel

/-- (2) two enabled elements with the same name `img`.  (A client's mirror is a dict, so a mirror showing both
is not one the library's client can build; `allSynced` nevertheless admits it.)  The driver assigns `b"\x07"` to
the first; the update carries two children named `img`; the second (unset, size 0) overwrites what the first
stored, and the peer ends up with empty bytes. -/
def mir3 : Mirror :=
  [(some (s "cam"), { vecs := [(some (s "CCD1"),
      { kind := .blob, name := some (s "CCD1"), group := some (s "Main"), label := some (s "Image"),
        timestamp := some (s "T"), message := none, state := some (s "Ok"),
        elems := [(some (s "img"), { name := some (s "img"), label := some (s "img"), value := .none }),
                  (some (s "img"), { name := some (s "img"), label := some (s "img"), value := .none })] })] })]

def w3 : World := { devs := [cam [el "img" .none, el "img" .none]], peers := [{ blobs := true, inproc := false, mirror := mir3 }] }

theorem C08_publish_needs_distinct_names :
    okButNames w3.devs = true ∧ allSynced w3 = true ∧
    blobElemAt (cam [el "img" .none, el "img" .none]) ⟨0, 0, 0⟩ = true ∧
    nextOk reg w3 (op [7]) (step reg w3 (op [7])) = true ∧
    fails w3 (step reg w3 (op [7])) 0 ⟨0, 0, 0⟩ = true := by
  decide +kernel

/-- (3) an address that names nothing: `c08Holds` is false whatever the peers hold -/
theorem C08_publish_needs_address :
    worldOk08 w1.devs = true ∧ allSynced w1 = true ∧
    nextOk reg w1 (.driver 0 (.assign ⟨0, 0, 7⟩ (.blob [7] (some (s ".fits")))))
      (step reg w1 (.driver 0 (.assign ⟨0, 0, 7⟩ (.blob [7] (some (s ".fits")))))) = true ∧
    fails w1 (step reg w1 (.driver 0 (.assign ⟨0, 0, 7⟩ (.blob [7] (some (s ".fits")))))) 0 ⟨0, 0, 7⟩ = true := by
  decide +kernel

end Indi.Sys.Ex08
