/-
  C08 — BLOB payloads arrive bit-exact in both directions and never stall a link.
  Codec: Model/B64.lean (`binascii`-compatible base64), proofs in Proofs/B64.lean.
  (Deployment-level statements `C08_down`, `C08_up`, `C08_publish` over Model/Sys.lean: see DESIGN.md.)
-/
import Indi.Spec.Sys
import Indi.Generated.Registry
import Indi.Proofs.B64

namespace Indi.Sys
open Indi Indi.Dev Indi.Cli Indi.Spec.Sys

/-- base64: decoding the encoding of ANY byte string gives the byte string back -/
theorem C08_codec (bs : List Nat) (h : ∀ b ∈ bs, b < 256) : B64.decode (B64.encode bs) = .ok bs :=
  B64.decode_encode bs h

/-- the encoded payload contains no character that XML would escape or a parser would alter -/
theorem C08_codec_chars (bs : List Nat) (h : ∀ b ∈ bs, b < 256) : ∀ c ∈ B64.encode bs, c ∈ B64.alphabet ∨ c = '=' :=
  B64.encode_chars bs h

/-- the declared length of the encoded text -/
theorem C08_codec_length (bs : List Nat) : (B64.encode bs).length = 4 * ((bs.length + 2) / 3) :=
  B64.encode_length bs

end Indi.Sys
