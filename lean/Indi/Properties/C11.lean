/-
  C11 — Garbage on the wire cannot hang, crash or bloat the receiver (abstract level).

  Totality is the termination proof Lean demanded for `processLoop`
  (Model/Buf.lean, measure: retained length); there is no error outcome in the
  model.  "Junk never prevents or delays the valid messages around it" is C02's
  theorem, whose gaps are arbitrary opener-free junk.
-/
import Indi.Spec.Buf
import Indi.Proofs.Buf

namespace Indi.Buf

variable {M : Type}

/-- with the threshold enabled, no more than the threshold is retained after `process`, whatever the input -/
theorem C11_bounded (tryParse : Str → Option M) (tags : List Str) (t : Nat) (data : Str) :
    (process tryParse tags (some t) data).2.length ≤ t := by
  exact processLoop_bounded tryParse tags t _

/-- only genuine messages are handed to the consumer: every delivered value was returned by the parser
for some prefix-candidate of the buffer -/
theorem C11_genuine (tryParse : Str → Option M) (tags : List Str) (threshold : Option Nat) (data : Str) (m : M)
    (h : m ∈ (process tryParse tags threshold data).1) : ∃ x, tryParse x = some m := by
  exact processLoop_genuine tryParse tags threshold _ m h

/-- what is retained is always a suffix of what was there: nothing is invented -/
theorem C11_retained_suffix (tryParse : Str → Option M) (tags : List Str) (threshold : Option Nat) (data : Str) :
    (process tryParse tags threshold data).2 <:+ data := by
  exact (processLoop_suffix tryParse tags threshold _).trans (cleanup_suffix tags data)

/-- junk without a known opener is dropped or kept as a tail, and never delivers anything -/
theorem C11_junk_delivers_nothing (tryParse : Str → Option M) (tags : List Str) (threshold : Option Nat)
    (hA1 : ParserNeedsOpener tryParse tags) (junk : Str) (hj : NoOpener tags junk) :
    (process tryParse tags threshold junk).1 = [] := by
  exact processLoop_noOpener tryParse tags threshold hA1 _
    (NoOpener_suffix tags junk _ (cleanup_suffix tags junk) hj)

end Indi.Buf
