/-
  C11 — Garbage on the wire cannot hang, crash or bloat the receiver (abstract level).

  Totality is the termination proof Lean demanded for `processLoop`
  (Model/Buf.lean, measure: retained length); there is no error outcome in the
  model.  "Junk never prevents or delays the valid messages around it" is C02's
  theorem, whose gaps are arbitrary opener-free junk.
-/
import Indi.Spec.Buf
import Indi.Proofs.Buf

namespace Indi.Buf

variable {M : Type}

/-- with the threshold enabled, no more than the threshold is retained after `process`, whatever the input -/
theorem C11_bounded (parse : Str → ParseRes M) (tags : List Str) (t : Nat) (data : Str) :
    (process parse tags (some t) data).2.length ≤ t := by
  exact processLoop_bounded parse tags t _

/-- only genuine messages are handed to the consumer: every delivered value was returned by the parser
for some prefix-candidate of the buffer -/
theorem C11_genuine (parse : Str → ParseRes M) (tags : List Str) (threshold : Option Nat) (data : Str) (m : M)
    (h : m ∈ (process parse tags threshold data).1) : ∃ x, parse x = .msg m := by
  exact processLoop_genuine parse tags threshold _ m h

/-- what is retained is always a suffix of what was there: nothing is invented -/
theorem C11_retained_suffix (parse : Str → ParseRes M) (tags : List Str) (threshold : Option Nat) (data : Str) :
    (process parse tags threshold data).2 <:+ data := by
  exact (processLoop_suffix parse tags threshold _).trans (cleanup_suffix tags data)

/-- junk without a known opener is dropped or kept as a tail, and never delivers anything -/
theorem C11_junk_delivers_nothing (parse : Str → ParseRes M) (tags : List Str) (threshold : Option Nat)
    (hA1 : ParserNeedsOpener parse tags) (junk : Str) (hj : NoOpener tags junk) :
    (process parse tags threshold junk).1 = [] := by
  exact processLoop_noOpener parse tags threshold hA1 _
    (NoOpener_suffix tags junk _ (cleanup_suffix tags junk) hj)

end Indi.Buf
