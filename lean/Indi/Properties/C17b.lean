/-
  C17 for the model assembled from the source's own conditions: the instant-by-instant run of `waitforevent` in which the four
  decisions (callback release, polling guard, timeout guard, arming of the timeout task) are the expressions regenerated
  from indi/client/client.py satisfies the declarative specification — for every configuration, event timing and horizon.
-/
import Indi.Properties.Dec.Wait
import Indi.Properties.C17

namespace Indi.Decisions
open Indi Indi.Wait Indi.Spec.Wait

/-- everything that happens at instant `t`, with the source's conditions -/
def instantFromSource (rel : Bool → Bool → Bool) (pg : Bool → Bool) (armed : Option Nat → Bool) (tg : Bool → Bool)
    (cfg : Cfg) (batches : List Batch) (st : St) (t : Nat) : St :=
  let st1 := (batches.filter fun b => b.1 = t).foldl (fun s b => deliverFromSource rel s t b.2) st
  let st2 := if t = cfg.delay then timeoutStepFromSource armed tg (pollStepFromSource pg st1 cfg t) cfg t
             else pollStepFromSource pg (timeoutStepFromSource armed tg st1 cfg t) cfg t
  waiterStep st2 t

def runFromSourceAux (rel : Bool → Bool → Bool) (pg : Bool → Bool) (armed : Option Nat → Bool) (tg : Bool → Bool)
    (cfg : Cfg) (batches : List Batch) (st : St) (t : Nat) : Nat → St
  | 0 => st
  | fuel + 1 => runFromSourceAux rel pg armed tg cfg batches (instantFromSource rel pg armed tg cfg batches st t) (t + 1) fuel

def runFromSource (rel : Bool → Bool → Bool) (pg : Bool → Bool) (armed : Option Nat → Bool) (tg : Bool → Bool)
    (cfg : Cfg) (batches : List Batch) (horizon : Nat) : St :=
  runFromSourceAux rel pg armed tg cfg batches { pollAlive := cfg.polling, nextTick := cfg.delay } 1 horizon

section
variable (rel : Bool → Bool → Bool) (pg : Bool → Bool) (armed : Option Nat → Bool) (tg : Bool → Bool)
  (h1 : Generated.waitRelease? = some rel) (h2 : Generated.waitPollGuard? = some pg)
  (h3 : Generated.waitTimeoutArmed? = some armed) (h4 : Generated.waitTimeoutGuard? = some tg)
include h1 h2 h3 h4

theorem instant_from_source (cfg : Cfg) (batches : List Batch) (st : St) (t : Nat) :
    instantFromSource rel pg armed tg cfg batches st t = Wait.instant cfg batches st t := by
  unfold instantFromSource Wait.instant
  have e1 : (fun s (b : Batch) => deliverFromSource rel s t b.2) = (fun s (b : Batch) => Wait.deliver s t b.2) := by
    funext s b; exact wait_deliver_from_source rel h1 s t b.2
  have e2 : ∀ s, pollStepFromSource pg s cfg t = Wait.pollStep s cfg t := fun s => wait_poll_from_source pg h2 s cfg t
  have e3 : ∀ s, timeoutStepFromSource armed tg s cfg t = Wait.timeoutStep s cfg t :=
    fun s => wait_timeout_from_source armed tg h3 h4 s cfg t
  simp only [e1, e2, e3]

theorem run_from_source (cfg : Cfg) (batches : List Batch) (horizon : Nat) :
    runFromSource rel pg armed tg cfg batches horizon = Wait.run cfg batches horizon := by
  unfold runFromSource Wait.run
  generalize ({ pollAlive := cfg.polling, nextTick := cfg.delay } : St) = st
  generalize 1 = t
  induction horizon generalizing st t with
  | zero => rfl
  | succ n ih =>
    simp only [runFromSourceAux, Wait.runFrom]
    rw [instant_from_source rel pg armed tg h1 h2 h3 h4]
    exact ih _ _

/-- **C17 for the source's conditions** -/
theorem C17_from_source (cfg : Cfg) (hd : 1 ≤ cfg.delay) (hi : 1 ≤ cfg.interval)
    (batches : List Batch) (hb : ∀ b ∈ batches, 1 ≤ b.1) (horizon : Nat) :
    holds cfg batches horizon (runFromSource rel pg armed tg cfg batches horizon).outcome
      (runFromSource rel pg armed tg cfg batches horizon).sends.reverse
      (runFromSource rel pg armed tg cfg batches horizon).cbRegistered = true := by
  rw [run_from_source rel pg armed tg h1 h2 h3 h4]
  exact C17 cfg hd hi batches hb horizon

end
end Indi.Decisions
