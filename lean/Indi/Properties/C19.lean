/-
  C19 — Outbound messages are whole and in order under every I/O schedule.

  For EVERY schedule (any interleaving of routing, task starts and I/O completions, any
  delays, including a connection whose I/O never completes) the sequence of messages accepted
  by a connection's output, followed by what is still pending in the order it will go out, is
  exactly the sequence routed to it.  Hence the output is always a prefix of the routed sequence
  (whole messages, never interleaved, in routing order), and it is the entire sequence once
  everything has completed.  Routing itself is a step that is always enabled and touches only
  the list of not-yet-started tasks, so a stalled connection delays nobody else.
-/
import Indi.Model.Send

namespace Indi.Send

/-- the state of a connection that is consistent with its transport: a TCP holder awaits one operation -/
def Ok (c : Conn) : Prop :=
  match c.holder with
  | some (_, k) => (c.transport = .tcp → k = 1) ∧ 1 ≤ k ∧ k ≤ 2
  | none => True

theorem step_inv (c : Conn) (r : List Nat) (s : Step) (hok : Ok c) (h : c.out ++ pending c = r) :
    Ok (step c s) ∧ (step c s).out ++ pending (step c s) =
      (match s with
       | .route m => r ++ [m]
       | _ => r) := by
  cases s with
  | route m =>
    refine ⟨by simpa [step, Ok] using hok, ?_⟩
    simp only [step, pending] at h ⊢
    rw [← h]; simp [List.append_assoc]
  | start =>
    simp only [step]
    cases hn : c.notStarted with
    | nil => exact ⟨hok, by simpa using h⟩
    | cons m rest =>
      simp only
      by_cases hfree : (c.holder.isNone && c.waiters.isEmpty) = true
      · simp only [hfree, if_true]
        simp only [Bool.and_eq_true, Option.isNone_iff_eq_none, List.isEmpty_iff] at hfree
        obtain ⟨hh, hw⟩ := hfree
        cases ht : c.transport with
        | tcp =>
          refine ⟨by simp [acquire, Ok], ?_⟩
          simp only [acquire, pending, hh, hw, hn] at h ⊢
          rw [← h]; simp
        | tty =>
          refine ⟨by simp [acquire, Ok], ?_⟩
          simp only [acquire, pending, hh, hw, hn] at h ⊢
          rw [← h]; simp
      · simp only [hfree]
        refine ⟨by simpa [Ok] using hok, ?_⟩
        simp only [pending, hn] at h ⊢
        rw [← h]; simp [List.append_assoc]
  | complete =>
    simp only [step]
    cases hh : c.holder with
    | none => exact ⟨hok, by simpa using h⟩
    | some mk =>
      obtain ⟨m, k⟩ := mk
      simp only [Ok, hh] at hok
      simp only
      by_cases hk : k ≥ 2
      · simp only [hk, if_true]
        have hk2 : k = 2 := by omega
        subst hk2
        have htty : c.transport = .tty := by
          cases ht : c.transport with
          | tcp => have := hok.1 ht; omega
          | tty => rfl
        refine ⟨by simp [Ok, htty], ?_⟩
        simp only [pending, hh] at h ⊢
        rw [← h]; simp [List.append_assoc]
      · simp only [hk, if_false]
        have hk1 : k = 1 := by omega
        subst hk1
        cases hw : c.waiters with
        | nil =>
          refine ⟨by simp [Ok], ?_⟩
          simp only [pending, hh, hw] at h ⊢
          rw [← h]; simp
        | cons w ws =>
          cases ht : c.transport with
          | tcp =>
            refine ⟨by simp [acquire, Ok], ?_⟩
            simp only [acquire, pending, hh, hw] at h ⊢
            rw [← h]; simp [List.append_assoc]
          | tty =>
            refine ⟨by simp [acquire, Ok], ?_⟩
            simp only [acquire, pending, hh, hw] at h ⊢
            rw [← h]; simp [List.append_assoc]

/-- **C19**: under every schedule, output ++ pending = routed -/
theorem C19 (t : Transport) (steps : List Step) :
    (run { transport := t } steps).out ++ pending (run { transport := t } steps) = routed steps := by
  have key : ∀ (steps : List Step) (c : Conn) (r : List Nat), Ok c → c.out ++ pending c = r →
      Ok (run c steps) ∧ (run c steps).out ++ pending (run c steps) = r ++ routed steps := by
    intro steps
    induction steps with
    | nil => intro c r hok h; simpa [run, routed] using ⟨hok, h⟩
    | cons s rest ih =>
      intro c r hok h
      obtain ⟨hok', h'⟩ := step_inv c r s hok h
      have := ih (step c s) _ hok' h'
      simp only [run, List.foldl_cons] at this ⊢
      refine ⟨this.1, ?_⟩
      rw [this.2]
      cases s <;> simp [routed, List.append_assoc]
  have := key steps { transport := t } [] (by simp [Ok]) (by simp [pending])
  simpa using this.2

/-- whole, in order, never interleaved: the output is always a prefix of what was routed -/
theorem C19_prefix (t : Transport) (steps : List Step) :
    (run { transport := t } steps).out <+: routed steps := by
  rw [← C19 t steps]
  exact List.prefix_append _ _

/-- nothing is lost: once no send is pending any more, the output is everything that was routed -/
theorem C19_complete (t : Transport) (steps : List Step) (h : pending (run { transport := t } steps) = []) :
    (run { transport := t } steps).out = routed steps := by
  have := C19 t steps
  rw [h, List.append_nil] at this
  exact this

/-- a stalled connection delays only itself: routing is always possible and does not depend on, nor change,
anything but the list of tasks waiting to start -/
theorem C19_route_never_blocks (c : Conn) (m : Nat) :
    step c (.route m) = { c with notStarted := c.notStarted ++ [m] } := rfl

/-- every started task eventually writes provided the holder's I/O completes: after `complete` steps for all
pending holders the waiters drain in FIFO order (one release hands the lock to the FIRST waiter) -/
theorem C19_fifo_handover (c : Conn) (m w : Nat) (ws : List Nat) (hh : c.holder = some (m, 1)) (hw : c.waiters = w :: ws) :
    (step c .complete).waiters = ws ∧ ∃ k, (step c .complete).holder = some (w, k) := by
  simp only [step, hh, hw]
  cases c.transport <;> simp [acquire]

/-! non-vacuity: a TTY connection, three messages, the I/O of the first one is slow -/
example : (run { transport := .tty } [.route 1, .route 2, .start, .start, .route 3, .start, .complete, .complete, .complete]).out = [1, 2] := by
  decide

end Indi.Send
