/-
  C09 — Switch properties always satisfy their rule.

  Statements are per transition (so they cover every initial configuration and,
  by induction over the operation list, every reachable state) and cover every
  published snapshot, because each snapshot is the post-state of one
  elementary assignment.
-/
import Indi.Model.Switch

namespace Indi.Switch

theorem countOn_append (a b : List Bool) : countOn (a ++ b) = countOn a + countOn b := by
  simp [countOn, List.filter_append]

theorem countOn_cons (x : Bool) (l : List Bool) : countOn (x :: l) = (if x then 1 else 0) + countOn l := by
  cases x <;> simp [countOn, Nat.add_comm]

theorem countOn_all_false (l : List Bool) : countOn (l.map fun _ => false) = 0 := by
  induction l with
  | nil => rfl
  | cons x xs ih => simp [countOn] at ih ⊢

theorem any_id_eq_false_iff (l : List Bool) : l.any id = false ↔ countOn l = 0 := by
  induction l with
  | nil => simp [countOn]
  | cons x xs ih =>
    cases x <;> simp [countOn_cons, ih]

theorem split_at (vals : List Bool) (i : Nat) (h : i < vals.length) :
    vals = vals.take i ++ vals[i] :: vals.drop (i + 1) := by
  rw [List.getElem_cons_drop, List.take_append_drop]

theorem set_split (vals : List Bool) (i : Nat) (b : Bool) (h : i < vals.length) :
    vals.set i b = vals.take i ++ b :: vals.drop (i + 1) := by
  rw [List.set_eq_take_append_cons_drop, if_pos h]

theorem countOn_set (vals : List Bool) (i : Nat) (b : Bool) (h : i < vals.length) :
    countOn (vals.set i b) = countOn (vals.take i) + (if b then 1 else 0) + countOn (vals.drop (i + 1)) := by
  rw [set_split vals i b h, countOn_append, countOn_cons]; omega

theorem countOn_split (vals : List Bool) (i : Nat) (h : i < vals.length) :
    countOn vals = countOn (vals.take i) + (if vals[i] then 1 else 0) + countOn (vals.drop (i + 1)) := by
  conv => lhs; rw [split_at vals i h]
  rw [countOn_append, countOn_cons]; omega

theorem otherOn_false_iff (vals : List Bool) (i : Nat) :
    otherOn vals i = false ↔ countOn (vals.take i) = 0 ∧ countOn (vals.drop (i + 1)) = 0 := by
  simp only [otherOn, Bool.or_eq_false_iff, any_id_eq_false_iff]

theorem countOn_reset_set (vals : List Bool) (i : Nat) (h : i < vals.length) :
    countOn ((vals.map fun _ => false).set i true) = 1 := by
  have hl : i < (vals.map fun _ => false).length := by simpa using h
  rw [countOn_set _ i true hl]
  have h1 : countOn (List.take i (vals.map fun _ => false)) = 0 := by
    rw [← List.map_take]; exact countOn_all_false _
  have h2 : countOn (List.drop (i + 1) (vals.map fun _ => false)) = 0 := by
    rw [← List.map_drop]; exact countOn_all_false _
  simp [h1, h2]

/-- **at most one**: under OneOfMany and AtMostOne an elementary assignment never leaves more
than one switch On — whatever the state before -/
theorem assignAt_le_one (rule : Rule) (hr : rule ≠ .anyOfMany) (vals : List Bool) (i : Nat) (v : Bool)
    (h : countOn vals ≤ 1) : countOn (assignAt rule vals i v) ≤ 1 := by
  unfold assignAt
  split
  · rename_i hi
    have hs := countOn_split vals i hi
    cases v with
    | true =>
      cases rule with
      | anyOfMany => exact absurd rfl hr
      | oneOfMany => simp [countOn_reset_set vals i hi]
      | atMostOne => simp [countOn_reset_set vals i hi]
    | false =>
      cases rule with
      | anyOfMany => exact absurd rfl hr
      | atMostOne =>
        simp only [Bool.false_eq_true, if_false]
        rw [countOn_set vals i false hi]; simp only [Bool.false_eq_true, if_false]; omega
      | oneOfMany =>
        simp only [Bool.false_eq_true, if_false]
        split
        · rw [countOn_set vals i false hi]; simp only [Bool.false_eq_true, if_false]; omega
        · rename_i ho
          have := (otherOn_false_iff vals i).mp (by simpa using ho)
          rw [countOn_set vals i true hi]; simp [this.1, this.2]
  · exact h

/-- **exactly one** is preserved under OneOfMany -/
theorem assignAt_eq_one (vals : List Bool) (i : Nat) (v : Bool) (h : countOn vals = 1) :
    countOn (assignAt .oneOfMany vals i v) = 1 := by
  unfold assignAt
  split
  · rename_i hi
    have hs := countOn_split vals i hi
    cases v with
    | true => simp [countOn_reset_set vals i hi]
    | false =>
      simp only [Bool.false_eq_true, if_false]
      split
      · rename_i ho
        rw [countOn_set vals i false hi]; simp only [Bool.false_eq_true, if_false]
        -- another switch is On, so it is the one On switch and switch i is Off already
        have hne : ¬ (countOn (vals.take i) = 0 ∧ countOn (vals.drop (i + 1)) = 0) := by
          intro hc
          have := (otherOn_false_iff vals i).mpr hc
          rw [this] at ho; cases ho
        split at hs <;> omega
      · rename_i ho
        have := (otherOn_false_iff vals i).mp (by simpa using ho)
        rw [countOn_set vals i true hi]; simp [this.1, this.2]
  · exact h

/-- OneOfMany even *establishes* "exactly one" as soon as any known switch is assigned -/
theorem assignAt_oneOfMany_establishes (vals : List Bool) (i : Nat) (v : Bool) (hi : i < vals.length)
    (h : countOn vals ≤ 1) : countOn (assignAt .oneOfMany vals i v) = 1 := by
  unfold assignAt
  rw [if_pos hi]
  have hs := countOn_split vals i hi
  cases v with
  | true => simp [countOn_reset_set vals i hi]
  | false =>
    simp only [Bool.false_eq_true, if_false]
    split
    · rename_i ho
      rw [countOn_set vals i false hi]; simp only [Bool.false_eq_true, if_false]
      have hne : ¬ (countOn (vals.take i) = 0 ∧ countOn (vals.drop (i + 1)) = 0) := by
        intro hc
        have := (otherOn_false_iff vals i).mpr hc
        rw [this] at ho; cases ho
      split at hs <;> omega
    · rename_i ho
      have := (otherOn_false_iff vals i).mp (by simpa using ho)
      rw [countOn_set vals i true hi]; simp [this.1, this.2]

/-- **AnyOfMany**: an assignment changes only the switch it names -/
theorem assignAt_anyOfMany_frame (vals : List Bool) (i : Nat) (v : Bool) (j : Nat) (hj : j ≠ i) :
    (assignAt .anyOfMany vals i v)[j]? = vals[j]? := by
  unfold assignAt
  split
  · cases v <;> simp [List.getElem?_set, Ne.symm hj]
  · rfl

/-- **turning a switch On leaves it On**, under every rule -/
theorem assignAt_on_stays_on (rule : Rule) (vals : List Bool) (i : Nat) (hi : i < vals.length) :
    (assignAt rule vals i true)[i]? = some true := by
  unfold assignAt
  rw [if_pos hi]
  cases rule <;> simp [hi]

theorem assignAt_length (rule : Rule) (vals : List Bool) (i : Nat) (v : Bool) :
    (assignAt rule vals i v).length = vals.length := by
  unfold assignAt
  split
  · cases v <;> cases rule <;> simp <;> split <;> simp
  · rfl

/-! ### lift to compound operations, published snapshots and whole histories -/

/-- an invariant preserved by every elementary assignment holds for every
snapshot published by, and for the state after, any sequence of them -/
theorem assignMany_inv (rule : Rule) (P : List Bool → Prop)
    (hP : ∀ vals i v, P vals → P (assignAt rule vals i v)) :
    ∀ (ch : List (Nat × Bool)) (vals : List Bool), P vals →
      (∀ s ∈ (assignMany rule vals ch).1, P s) ∧ P (assignMany rule vals ch).2 := by
  intro ch
  induction ch with
  | nil => intro vals h; simp [assignMany, h]
  | cons x xs ih =>
    intro vals h
    obtain ⟨i, v⟩ := x
    simp only [assignMany]
    split
    · have h' := hP vals i v h
      obtain ⟨h1, h2⟩ := ih _ h'
      refine ⟨?_, h2⟩
      intro s hs
      rcases List.mem_cons.mp hs with rfl | hs
      · exact h'
      · exact h1 s hs
    · exact ih vals h

theorem selectLoop_inv (rule : Rule) (names : List Nat) (P : List Bool → Prop)
    (hP : ∀ vals i v, P vals → P (assignAt rule vals i v)) :
    ∀ (fuel j : Nat) (vals : List Bool), P vals →
      (∀ s ∈ (selectLoop rule names fuel j vals).1, P s) ∧ P (selectLoop rule names fuel j vals).2 := by
  intro fuel
  induction fuel with
  | zero => intro j vals h; simp [selectLoop, h]
  | succ n ih =>
    intro j vals h
    simp only [selectLoop]
    split
    · have h' := hP vals j (names.contains j) h
      obtain ⟨h1, h2⟩ := ih (j + 1) _ h'
      refine ⟨?_, h2⟩
      intro s hs
      rcases List.mem_cons.mp hs with rfl | hs
      · exact h'
      · exact h1 s hs
    · exact ih (j + 1) vals h

theorem step_inv (rule : Rule) (P : List Bool → Prop)
    (hP : ∀ vals i v, P vals → P (assignAt rule vals i v)) (vals : List Bool) (op : Op) (h : P vals) :
    (∀ s ∈ (step rule vals op).1, P s) ∧ P (step rule vals op).2 := by
  cases op with
  | assign i v => exact assignMany_inv rule P hP _ vals h
  | write ch => exact assignMany_inv rule P hP ch vals h
  | select names =>
    simp only [step]
    split
    · exact selectLoop_inv rule names P hP _ _ vals h
    · simp [h]

theorem run_inv (rule : Rule) (P : List Bool → Prop)
    (hP : ∀ vals i v, P vals → P (assignAt rule vals i v)) :
    ∀ (ops : List Op) (vals : List Bool), P vals →
      ∀ r ∈ run rule vals ops, (∀ s ∈ r.1, P s) ∧ P r.2 := by
  intro ops
  induction ops with
  | nil => intro vals _ r hr; cases hr
  | cons op rest ih =>
    intro vals h r hr
    simp only [run] at hr
    have hs := step_inv rule P hP vals op h
    rcases List.mem_cons.mp hr with rfl | hr
    · exact hs
    · exact ih _ hs.2 r hr

/-- **C09, AtMostOne / OneOfMany**: starting from any configuration with at most one switch On,
after ANY sequence of client writes, driver assignments and selections, every published
update and every state has at most one switch On -/
theorem C09_at_most_one (rule : Rule) (hr : rule ≠ .anyOfMany) (ops : List Op) (vals : List Bool)
    (h : countOn vals ≤ 1) : ∀ r ∈ run rule vals ops, (∀ s ∈ r.1, countOn s ≤ 1) ∧ countOn r.2 ≤ 1 :=
  run_inv rule (fun v => countOn v ≤ 1) (fun vals i v hv => assignAt_le_one rule hr vals i v hv) ops vals h

/-- **C09, OneOfMany**: a property that has one switch On always has exactly one On, in every
published update and every state -/
theorem C09_exactly_one (ops : List Op) (vals : List Bool) (h : countOn vals = 1) :
    ∀ r ∈ run .oneOfMany vals ops, (∀ s ∈ r.1, countOn s = 1) ∧ countOn r.2 = 1 :=
  run_inv .oneOfMany (fun v => countOn v = 1) (fun vals i v hv => assignAt_eq_one vals i v hv) ops vals h

/-- **C09, AnyOfMany**: a single assignment (driver side, or a client write naming one switch)
changes only the switch it names, in the published update and in the state -/
theorem C09_any_of_many (vals : List Bool) (i : Nat) (v : Bool) (j : Nat) (hj : j ≠ i) :
    (∀ s ∈ (step .anyOfMany vals (.assign i v)).1, s[j]? = vals[j]?) ∧
      (step .anyOfMany vals (.assign i v)).2[j]? = vals[j]? := by
  simp only [step, assignMany]
  split
  · simp [assignAt_anyOfMany_frame vals i v j hj]
  · simp

/-- **C09**: turning a switch On leaves that switch On (in the published update and the state) -/
theorem C09_on_stays_on (rule : Rule) (vals : List Bool) (i : Nat) (hi : i < vals.length) :
    (step rule vals (.assign i true)).1 = [assignAt rule vals i true] ∧
      (step rule vals (.assign i true)).2[i]? = some true := by
  simp [step, assignMany, hi, assignAt_on_stays_on rule vals i hi]

/-! non-vacuity -/
example : countOn [false, true, false] = 1 := by decide
example : (run .oneOfMany [false, true, false] [.assign 1 false, .write [(0, true), (2, true)], .select [1]]).map (·.2)
    = [[false, true, false], [false, false, true], [false, true, false]] := by decide

end Indi.Switch
