import Indi.Model.Basic
import Indi.Model.Msg
import Indi.Generated.Consts
import Indi.Generated.Registry
