/-
  Line-protocol driver: the executable side of the models and of the specs
  (oracles).  `indi-model < cases > observations`, one line each.
-/
import Indi.Model.Wire
import Indi.Generated.Registry
import Indi.Spec.Msg
import Indi.Model.RtrGlue
import Indi.Spec.Rtr
import Indi.Spec.Switch
import Indi.Spec.BufRun
import Indi.Spec.Num
import Indi.Model.B64

open Indi Indi.Wire

def encResMsg : Except Err Msg → String
  | .ok m => "ok " ++ encMsg m
  | .error e => "err " ++ encErr e

/-! router component -/

def pPolicy : P Rtr.Policy := do
  let t ← tok
  match t with
  | "Never" => pure .never
  | "Also" => pure .also
  | "Only" => pure .only
  | "~" => pure .never
  | _ => fail

def pSender : P Rtr.Sender := do
  let t ← tok
  match t.toList with
  | ['n'] => pure .nobody
  | 'c' :: r => match (String.ofList r).toNat? with
    | some n => pure (.cli n)
    | none => fail
  | 'd' :: r => match (String.ofList r).toNat? with
    | some n => pure (.dev n)
    | none => fail
  | _ => fail

/-- `D id name|~`, `C id`, `U id`, `S tag device|~ policy sender`; unknown tags make the case unusable -/
def pOp : P Rtr.Op := do
  let t ← tok
  match t with
  | "D" => do let i ← pNat; let n ← pOpt; pure (.regDev ⟨i, n⟩)
  | "C" => do let i ← pNat; pure (.regCli i)
  | "U" => do let i ← pNat; pure (.unreg i)
  | "S" => do
    let tag ← pStr
    let dev ← pOpt
    let pol ← pPolicy
    let sd ← pSender
    match Rtr.rmsgOf Generated.registry tag dev pol with
    | some m => pure (.send m sd)
    | none => fail
  | _ => fail

def encTarget : Rtr.Target → String
  | .dev i => "d" ++ toString i
  | .cli i => "c" ++ toString i

def encTrace (t : List (List Rtr.Target)) : String :=
  String.intercalate " | " (t.map fun ds => String.intercalate " " (ds.map encTarget))

def encPolicy : Rtr.Policy → String
  | .never => "Never" | .also => "Also" | .only => "Only"

def encRState (σ : Rtr.State) : String :=
  "clients " ++ String.intercalate "," (σ.clients.map toString) ++ " blob " ++
    String.intercalate ";" (σ.blob.map fun (c, d) => toString c ++ ":" ++
      String.intercalate "," (d.map fun (k, p) => encOpt k ++ "=" ++ encPolicy p))

/-! switch component: states are strings of 0/1 prefixed by `b` -/

def pBits : P (List Bool) := do
  let t ← tok
  match t.toList with
  | 'b' :: r => if r.all (fun c => c = '0' || c = '1') then pure (r.map fun c => c = '1') else fail
  | _ => fail

def encBits (l : List Bool) : String := "b" ++ String.ofList (l.map fun b => if b then '1' else '0')

def pRule : P Switch.Rule := do
  let t ← tok
  match t with
  | "OneOfMany" => pure .oneOfMany
  | "AtMostOne" => pure .atMostOne
  | "AnyOfMany" => pure .anyOfMany
  | _ => fail

def pSwOp : P Switch.Op := do
  let t ← tok
  match t with
  | "A" => do let i ← pNat; let v ← pBool; pure (.assign i v)
  | "W" => do
    let ch ← pList (do let i ← pNat; let v ← pBool; pure (i, v))
    pure (.write ch)
  | "S" => do let ns ← pList pNat; pure (.select ns)
  | _ => fail

def encSwStep (r : List (List Bool) × List Bool) : String :=
  String.intercalate "," (r.1.map encBits) ++ ">" ++ encBits r.2

/-! buffer component -/

def pThreshold : P (Option Nat) := do
  let t ← tok
  if t = "~" then pure none else
  match t.toNat? with
  | some n => pure (some n)
  | none => fail

def pTable : P (List (Str × Nat)) := pList (do let k ← pStr; let v ← pNat; pure (k, v))

def pSeg : P (Buf.Seg Nat) := do
  let g ← pStr; let b ← pStr; let m ← pNat
  pure { gap := g, body := b, msg := m }

def encIds (l : List Nat) : String := String.intercalate "," (l.map toString)

def encCalls (calls : List (List Nat)) : String := String.intercalate " | " (calls.map encIds)

/-- run a session and report, per call, the delivered ids and the retained data -/
def bufSession (tp : Str → Buf.ParseRes Nat) (tags : List Str) (T : Option Nat) : Str → List Str → List String
  | _, [] => []
  | data, p :: ps =>
    let r := Buf.feed tp tags T data p
    (encIds r.1 ++ ">" ++ encStr r.2) :: bufSession tp tags T r.2 ps

/-! numbers and base64 -/

def pRat : P Rat := do
  let t ← tok
  match t.splitOn "/" with
  | [a, b] =>
    match a.toInt?, b.toNat? with
    | some n, some d => if d = 0 then fail else pure ((n : Rat) / (d : Rat))
    | _, _ => fail
  | _ => fail

def pOptRat : P (Option Rat) := do
  let ts ← get
  match ts with
  | "~" :: rest => do set rest; pure none
  | _ => do let r ← pRat; pure (some r)

def encRat (r : Rat) : String := toString r.num ++ "/" ++ toString r.den

def encNumVal : Num.Outcome Num.NumVal → String
  | .ok (.int v) => "int " ++ toString v
  | .ok (.float v) => "float " ++ encRat v
  | .valueError => "ValueError"
  | .assertionError => "AssertionError"
  | .unsupported => "unsupported"

def encRender : Num.Outcome Str → String
  | .ok v => "ok " ++ encStr v
  | .valueError => "ValueError"
  | .assertionError => "AssertionError"
  | .unsupported => "unsupported"

def pBytes : P (List Nat) := do
  let t ← tok
  match t.toList with
  | 'h' :: r =>
    let rec go : List Char → Option (List Nat)
      | [] => some []
      | a :: b :: rest =>
        match hexVal a, hexVal b, go rest with
        | some x, some y, some l => some ((x * 16 + y) :: l)
        | _, _, _ => none
      | _ => none
    match go r with
    | some l => pure l
    | none => fail
  | _ => fail

def encBytes (l : List Nat) : String :=
  "h" ++ String.join (l.map fun b => String.singleton (hexDigit (b / 16)) ++ String.singleton (hexDigit (b % 16)))

def handle (ts : List String) : String :=
  match ts with
  | "num" :: "render" :: rest =>
    match runP (do let f ← pStr; let x ← pRat; pure (f, x)) rest with
    | some (f, x) => encRender (Num.numToStr Num.exactIEEE f x)
    | none => "bad-op"
  | "num" :: "parse" :: rest =>
    match runP pStr rest with
    | some x => encNumVal (Num.strToNum Num.exactIEEE x)
    | none => "bad-op"
  | "num" :: "check" :: rest =>
    match runP pStr rest with
    | some x => encBool (numberOk x)
    | none => "bad-op"
  | "spec" :: "num" :: "render" :: rest =>
    match runP (do let f ← pStr; let x ← pRat; let t ← pStr; let v ← pBool; let b ← pOptRat; pure (f, x, t, v, b)) rest with
    | some (f, x, t, v, b) =>
      match Num.parseFmt f with
      | some fmt => encBool (Spec.Num.renderHolds fmt x t v b)
      | none => "unsupported"
    | none => "bad-op"
  | "spec" :: "num" :: "parse" :: rest =>
    match runP (do let t ← pStr; let v ← pBool; let i ← pBool; let g ← pOptRat; pure (t, v, i, g)) rest with
    | some (t, v, i, g) =>
      if numberCore (pyStrip t) then encBool (Spec.Num.parseHolds (pyStrip t) v i g) else "na"
    | none => "bad-op"
  | "b64" :: "enc" :: rest =>
    match runP pBytes rest with
    | some bs => encStr (B64.encode bs)
    | none => "bad-op"
  | "b64" :: "dec" :: rest =>
    match runP pStr rest with
    | some x =>
      match B64.decode x with
      | .ok bs => "ok " ++ encBytes bs
      | .error .incorrectPadding => "Error incorrect-padding"
      | .error .oneMoreThanMultiple => "Error one-more"
    | none => "bad-op"
  | "buf" :: "session" :: rest =>
    match runP (do let T ← pThreshold; let tags ← pList pStr; let tb ← pTable; let ps ← pList pStr; pure (T, tags, tb, ps)) rest with
    | some (T, tags, tb, ps) => String.intercalate " | " (bufSession (Buf.tableParse tb) tags T [] ps)
    | none => "bad-op"
  | "spec" :: "buf02" :: rest =>
    match runP (do
        let T ← pThreshold; let tags ← pList pStr; let tb ← pTable
        let segs ← pList pSeg; let final ← pStr; let ps ← pList pStr
        pure (T, tags, tb, segs, final, ps)) rest with
    | some (T, tags, tb, segs, final, ps) =>
      if Buf.streamOkB tb tags T segs final && (ps.flatten.isPrefixOf (Buf.encode segs final)) then
        encCalls (Buf.expectedCalls segs 0 0 ps)
      else "na"
    | none => "bad-op"
  | "spec" :: "buf11c" :: rest =>
    -- resynchronisation (theorem C11_resync): corrupt prefix, then a valid stream longer than the threshold
    match runP (do
        let T ← pThreshold; let tags ← pList pStr; let tb ← pTable; let c ← pStr
        let segs ← pList pSeg; let final ← pStr
        pure (T, tags, tb, c, segs, final)) rest with
    | some (T, tags, tb, c, segs, final) =>
      match T with
      | some t =>
        if Buf.streamOkB tb tags T segs final && Buf.corruptB tb c && decide (t < (Buf.encode segs final).length) then
          encIds (segs.map (·.msg))
        else "na"
      | none => "na"
    | none => "bad-op"
  | "spec" :: "buf11" :: rest =>
    match runP (do
        let T ← pThreshold; let ids ← pList pNat
        let calls ← pList (do let d ← pList pNat; let r ← pNat; pure (d, r))
        pure (T, ids, calls)) rest with
    | some (T, ids, calls) => encBool (Buf.c11Holds T ids calls)
    | none => "bad-op"
  | "sw" :: "run" :: rest =>
    match runP (do let r ← pRule; let v ← pBits; let ops ← pList pSwOp; pure (r, v, ops)) rest with
    | some (r, v, ops) => String.intercalate " | " ((Switch.run r v ops).map encSwStep)
    | none => "bad-op"
  | "spec" :: "sw" :: rest =>
    match runP (do
        let r ← pRule; let before ← pBits; let op ← pSwOp
        let snaps ← pList pBits; let after ← pBits
        pure (r, before, op, snaps, after)) rest with
    | some (r, before, op, snaps, after) => encBool (Spec.Switch.holds r before op snaps after)
    | none => "bad-op"
  | "router" :: "hist" :: rest =>
    match runP (pList pOp) rest with
    | some h => encTrace (Rtr.trace Rtr.init h)
    | none => "bad-op"
  | "spec" :: "router" :: rest =>
    match runP (pList pOp) rest with
    | some h => encTrace (Spec.Rtr.expectedTrace h)
    | none => "bad-op"
  | "codec" :: "eq" :: rest =>
    match runP (do let a ← pMsg; let b ← pMsg; pure (a, b)) rest with
    | some (a, b) => encBool (pyEq a b)
    | none => "bad-op"
  | "spec" :: "eq" :: rest =>
    match runP (do let a ← pMsg; let b ← pMsg; pure (a, b)) rest with
    | some (a, b) => encBool (decide (a = b))
    | none => "bad-op"
  | "codec" :: "fromxml" :: rest =>
    match runP pElem rest with
    | some e => encResMsg (fromXml Generated.registry e)
    | none => "bad-op"
  | "codec" :: "toxml" :: rest =>
    match runP pMsg rest with
    | some m => encElem (toXml m)
    | none => "bad-op"
  | "spec" :: "conformant" :: rest =>
    match runP pMsg rest with
    | some m => encBool (Spec.conformant m)
    | none => "bad-op"
  | _ => "bad-op"

partial def loop (h : IO.FS.Stream) (out : IO.FS.Stream) : IO Unit := do
  let line ← h.getLine
  if line.isEmpty then return ()
  out.putStrLn (handle (tokens (line.trimAscii.toString)))
  loop h out

def main : IO Unit := do
  let out ← IO.getStdout
  loop (← IO.getStdin) out
  out.flush
