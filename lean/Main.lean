/-
  Line-protocol driver: the executable side of the models and of the specs
  (oracles).  `indi-model < cases > observations`, one line each.
-/
import Indi.Model.Wire
import Indi.Generated.Registry
import Indi.Spec.Msg
import Indi.Model.RtrGlue
import Indi.Spec.Rtr

open Indi Indi.Wire

def encResMsg : Except Err Msg → String
  | .ok m => "ok " ++ encMsg m
  | .error e => "err " ++ encErr e

/-! router component -/

def pPolicy : P Rtr.Policy := do
  let t ← tok
  match t with
  | "Never" => pure .never
  | "Also" => pure .also
  | "Only" => pure .only
  | "~" => pure .never
  | _ => fail

def pSender : P Rtr.Sender := do
  let t ← tok
  match t.toList with
  | ['n'] => pure .nobody
  | 'c' :: r => match (String.ofList r).toNat? with
    | some n => pure (.cli n)
    | none => fail
  | 'd' :: r => match (String.ofList r).toNat? with
    | some n => pure (.dev n)
    | none => fail
  | _ => fail

/-- `D id name|~`, `C id`, `U id`, `S tag device|~ policy sender`; unknown tags make the case unusable -/
def pOp : P Rtr.Op := do
  let t ← tok
  match t with
  | "D" => do let i ← pNat; let n ← pOpt; pure (.regDev ⟨i, n⟩)
  | "C" => do let i ← pNat; pure (.regCli i)
  | "U" => do let i ← pNat; pure (.unreg i)
  | "S" => do
    let tag ← pStr
    let dev ← pOpt
    let pol ← pPolicy
    let sd ← pSender
    match Rtr.rmsgOf Generated.registry tag dev pol with
    | some m => pure (.send m sd)
    | none => fail
  | _ => fail

def encTarget : Rtr.Target → String
  | .dev i => "d" ++ toString i
  | .cli i => "c" ++ toString i

def encTrace (t : List (List Rtr.Target)) : String :=
  String.intercalate " | " (t.map fun ds => String.intercalate " " (ds.map encTarget))

def encPolicy : Rtr.Policy → String
  | .never => "Never" | .also => "Also" | .only => "Only"

def encRState (σ : Rtr.State) : String :=
  "clients " ++ String.intercalate "," (σ.clients.map toString) ++ " blob " ++
    String.intercalate ";" (σ.blob.map fun (c, d) => toString c ++ ":" ++
      String.intercalate "," (d.map fun (k, p) => encOpt k ++ "=" ++ encPolicy p))

def handle (ts : List String) : String :=
  match ts with
  | "router" :: "hist" :: rest =>
    match runP (pList pOp) rest with
    | some h => encTrace (Rtr.trace Rtr.init h)
    | none => "bad-op"
  | "spec" :: "router" :: rest =>
    match runP (pList pOp) rest with
    | some h => encTrace (Spec.Rtr.expectedTrace h)
    | none => "bad-op"
  | "codec" :: "eq" :: rest =>
    match runP (do let a ← pMsg; let b ← pMsg; pure (a, b)) rest with
    | some (a, b) => encBool (pyEq a b)
    | none => "bad-op"
  | "spec" :: "eq" :: rest =>
    match runP (do let a ← pMsg; let b ← pMsg; pure (a, b)) rest with
    | some (a, b) => encBool (decide (a = b))
    | none => "bad-op"
  | "codec" :: "fromxml" :: rest =>
    match runP pElem rest with
    | some e => encResMsg (fromXml Generated.registry e)
    | none => "bad-op"
  | "codec" :: "toxml" :: rest =>
    match runP pMsg rest with
    | some m => encElem (toXml m)
    | none => "bad-op"
  | "spec" :: "conformant" :: rest =>
    match runP pMsg rest with
    | some m => encBool (Spec.conformant m)
    | none => "bad-op"
  | _ => "bad-op"

partial def loop (h : IO.FS.Stream) (out : IO.FS.Stream) : IO Unit := do
  let line ← h.getLine
  if line.isEmpty then return ()
  out.putStrLn (handle (tokens (line.trimAscii.toString)))
  loop h out

def main : IO Unit := do
  let out ← IO.getStdout
  loop (← IO.getStdin) out
  out.flush
