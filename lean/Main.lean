/-
  Line-protocol driver: the executable side of the models and of the specs
  (oracles).  `indi-model < cases > observations`, one line each.
-/
import Indi.Model.Wire
import Indi.Generated.Registry
import Indi.Spec.Msg
import Indi.Model.RtrGlue
import Indi.Spec.Rtr
import Indi.Spec.Switch
import Indi.Spec.BufRun
import Indi.Spec.Num
import Indi.Model.B64
import Indi.Model.Dev
import Indi.Spec.Dev
import Indi.Spec.Cli
import Indi.Spec.Wait
import Indi.Model.Send
import Indi.Spec.Sys
import Indi.Model.Sys
import Indi.Model.Xml
import Indi.Spec.RtrR
import Indi.Model.Conn

open Indi Indi.Wire

def encResMsg : Except Err Msg → String
  | .ok m => "ok " ++ encMsg m
  | .error e => "err " ++ encErr e


/-! xml component: the character level -/

def encXmlRes : Xml.Res → String
  | .ok e => "ok " ++ encElem e
  | .err => "err"
  | .uns => "uns"

/-- the parser parameter of the buffer model, instantiated with the character-level model:
`none` stands for "the model does not decide this candidate" -/
def xmlBufParse (x : Str) : Buf.ParseRes (Option Msg) :=
  match Xml.parseDoc x with
  | .ok e =>
    match fromXml Generated.registry e with
    | .ok m => .msg (some m)
    | .error .unsupported => .msg none
    | .error _ => .invalid
  | .err => .notXml
  | .uns => .msg none

def encDeliv' (l : List (Option Msg)) : String :=
  if l.any Option.isNone then "uns" else encList (fun m => match m with | some m => encMsg m | none => "?") l

def xmlBufSession (T : Option Nat) : Str → List Str → List String
  | _, [] => []
  | data, p :: ps =>
    let r := Buf.feed xmlBufParse (Generated.messageClasses.map (·.tag)) T data p
    (encDeliv' r.1 ++ " ; " ++ encStr r.2) :: xmlBufSession T r.2 ps


/-! router component -/

def pPolicy : P Rtr.Policy := do
  let t ← tok
  match t with
  | "Never" => pure .never
  | "Also" => pure .also
  | "Only" => pure .only
  | "~" => pure .never
  | _ => fail

def pSender : P Rtr.Sender := do
  let t ← tok
  match t.toList with
  | ['n'] => pure .nobody
  | 'c' :: r => match (String.ofList r).toNat? with
    | some n => pure (.cli n)
    | none => fail
  | 'd' :: r => match (String.ofList r).toNat? with
    | some n => pure (.dev n)
    | none => fail
  | _ => fail

/-- `D id name|~`, `C id`, `U id`, `S tag device|~ policy sender`; unknown tags make the case unusable -/
def pOp : P Rtr.Op := do
  let t ← tok
  match t with
  | "D" => do let i ← pNat; let n ← pOpt; pure (.regDev ⟨i, n⟩)
  | "C" => do let i ← pNat; pure (.regCli i)
  | "U" => do let i ← pNat; pure (.unreg i)
  | "S" => do
    let tag ← pStr
    let dev ← pOpt
    let pol ← pPolicy
    let sd ← pSender
    match Rtr.rmsgOf Generated.registry tag dev pol with
    | some m => pure (.send m sd)
    | none => fail
  | _ => fail

def encTarget : Rtr.Target → String
  | .dev i => "d" ++ toString i
  | .cli i => "c" ++ toString i


def pTarget : P Rtr.Target := do
  let t ← tok
  match t.toList with
  | 'c' :: r => match (String.ofList r).toNat? with
    | some n => pure (.cli n)
    | none => fail
  | 'd' :: r => match (String.ofList r).toNat? with
    | some n => pure (.dev n)
    | none => fail
  | _ => fail

/-- `id who tag device|~ policy` -/
def pReaction : P Rtr.Reaction := do
  let i ← pNat
  let who ← pTarget
  let tag ← pStr
  let dv ← pOpt
  let pol ← pPolicy
  match Rtr.rmsgOf Generated.registry tag dv pol with
  | some m => pure { id := i, who := who, msg := m }
  | none => fail

def encRTrace (t : List (List (Nat × Rtr.Target))) : String :=
  String.intercalate " | " (t.map fun ds => String.intercalate " " (ds.map fun (i, x) => toString i ++ ":" ++ encTarget x))

def encTrace (t : List (List Rtr.Target)) : String :=
  String.intercalate " | " (t.map fun ds => String.intercalate " " (ds.map encTarget))

def encPolicy : Rtr.Policy → String
  | .never => "Never" | .also => "Also" | .only => "Only"

def encRState (σ : Rtr.State) : String :=
  "clients " ++ String.intercalate "," (σ.clients.map toString) ++ " blob " ++
    String.intercalate ";" (σ.blob.map fun (c, d) => toString c ++ ":" ++
      String.intercalate "," (d.map fun (k, p) => encOpt k ++ "=" ++ encPolicy p))

/-! switch component: states are strings of 0/1 prefixed by `b` -/

def pBits : P (List Bool) := do
  let t ← tok
  match t.toList with
  | 'b' :: r => if r.all (fun c => c = '0' || c = '1') then pure (r.map fun c => c = '1') else fail
  | _ => fail

def encBits (l : List Bool) : String := "b" ++ String.ofList (l.map fun b => if b then '1' else '0')

def pRule : P Switch.Rule := do
  let t ← tok
  match t with
  | "OneOfMany" => pure .oneOfMany
  | "AtMostOne" => pure .atMostOne
  | "AnyOfMany" => pure .anyOfMany
  | _ => fail

def pSwOp : P Switch.Op := do
  let t ← tok
  match t with
  | "A" => do let i ← pNat; let v ← pBool; pure (.assign i v)
  | "W" => do
    let ch ← pList (do let i ← pNat; let v ← pBool; pure (i, v))
    pure (.write ch)
  | "S" => do let ns ← pList pNat; pure (.select ns)
  | _ => fail

def encSwStep (r : List (List Bool) × List Bool) : String :=
  String.intercalate "," (r.1.map encBits) ++ ">" ++ encBits r.2

/-! buffer component -/

def pThreshold : P (Option Nat) := do
  let t ← tok
  if t = "~" then pure none else
  match t.toNat? with
  | some n => pure (some n)
  | none => fail

def pTable : P (List (Str × Nat)) := pList (do let k ← pStr; let v ← pNat; pure (k, v))

def pSeg : P (Buf.Seg Nat) := do
  let g ← pStr; let b ← pStr; let m ← pNat
  pure { gap := g, body := b, msg := m }

def encIds (l : List Nat) : String := String.intercalate "," (l.map toString)

def encCalls (calls : List (List Nat)) : String := String.intercalate " | " (calls.map encIds)

/-- run a session and report, per call, the delivered ids and the retained data -/
def bufSession (tp : Str → Buf.ParseRes Nat) (tags : List Str) (T : Option Nat) : Str → List Str → List String
  | _, [] => []
  | data, p :: ps =>
    let r := Buf.feed tp tags T data p
    (encIds r.1 ++ ">" ++ encStr r.2) :: bufSession tp tags T r.2 ps

/-! numbers and base64 -/

def pRat : P Rat := do
  let t ← tok
  match t.splitOn "/" with
  | [a, b] =>
    match a.toInt?, b.toNat? with
    | some n, some d => if d = 0 then fail else pure ((n : Rat) / (d : Rat))
    | _, _ => fail
  | _ => fail

def pOptRat : P (Option Rat) := do
  let ts ← get
  match ts with
  | "~" :: rest => do set rest; pure none
  | _ => do let r ← pRat; pure (some r)

def encRat (r : Rat) : String := toString r.num ++ "/" ++ toString r.den

def encNumVal : Num.Outcome Num.NumVal → String
  | .ok (.int v) => "int " ++ toString v
  | .ok (.float v) => "float " ++ encRat v
  | .valueError => "ValueError"
  | .assertionError => "AssertionError"
  | .unsupported => "unsupported"

def encRender : Num.Outcome Str → String
  | .ok v => "ok " ++ encStr v
  | .valueError => "ValueError"
  | .assertionError => "AssertionError"
  | .unsupported => "unsupported"

def pBytes : P (List Nat) := do
  let t ← tok
  match t.toList with
  | 'h' :: r =>
    let rec go : List Char → Option (List Nat)
      | [] => some []
      | a :: b :: rest =>
        match hexVal a, hexVal b, go rest with
        | some x, some y, some l => some ((x * 16 + y) :: l)
        | _, _, _ => none
      | _ => none
    match go r with
    | some l => pure l
    | none => fail
  | _ => fail

def encBytes (l : List Nat) : String :=
  "h" ++ String.join (l.map fun b => String.singleton (hexDigit (b / 16)) ++ String.singleton (hexDigit (b % 16)))

/-! driver component -/

def pOptNat' : P (Option Nat) := do
  let ts ← get
  match ts with
  | "~" :: rest => do set rest; pure none
  | _ => do let n ← pNat; pure (some n)

def pValue : P Dev.Value := do
  let t ← tok
  match t with
  | "N" => pure .none
  | "T" => do let v ← pStr; pure (.text v)
  | "R" => do let r ← pRat; let i ← pBool; pure (.num r i)
  | "B" => do let b ← pBytes; let f ← pOpt; pure (.blob b f)
  | "O" => pure .other
  | _ => fail

def encValue : Dev.Value → String
  | .none => "N"
  | .text v => "T " ++ encStr v
  | .num r i => "R " ++ encRat r ++ " " ++ encBool i
  | .blob b f => "B " ++ encBytes b ++ " " ++ encOpt f
  | .other => "O"

def pKind : P Dev.Kind := do
  let t ← tok
  match t with
  | "text" => pure .text | "number" => pure .number | "switch" => pure .switch
  | "light" => pure .light | "blob" => pure .blob
  | _ => fail

def pOptRule : P (Option Switch.Rule) := do
  let ts ← get
  match ts with
  | "~" :: rest => do set rest; pure none
  | _ => do let r ← pRule; pure (some r)

def pOptValue : P (Option Dev.Value) := do
  let ts ← get
  match ts with
  | "~~" :: rest => do set rest; pure none
  | _ => do let v ← pValue; pure (some v)

def pElem' : P Dev.Elem := do
  pLit "L"
  let name ← pStr; let label ← pStr; let fmt ← pStr; let mn ← pStr; let mx ← pStr; let st ← pStr
  let v ← pValue; let en ← pBool
  let wh ← pList (do let i ← pNat; let a ← pBool; let ve ← pBool; pure ({ id := i, async := a, veto := ve } : Dev.WriteH))
  let ch ← pList (do let i ← pNat; let a ← pBool; pure ({ id := i, async := a } : Dev.ChangeH))
  let rf ← pOptValue
  pure { d := { name := name, label := label, format := fmt, min := mn, max := mx, step := st,
                writeH := wh, changeH := ch, refresh := rf }, value := v, enabled := en }

def pVec : P Dev.Vec := do
  pLit "V"
  let name ← pStr; let label ← pStr; let k ← pKind; let perm ← pOpt; let to ← pOpt; let rule ← pOptRule
  let st ← pStr; let en ← pBool; let es ← pList pElem'
  pure { name := name, label := label, kind := k, perm := perm, timeout := to, rule := rule, state := st, enabled := en, elems := es }

def pGroup : P Dev.Group := do
  pLit "G"
  let name ← pStr; let en ← pBool; let vs ← pList pVec
  pure { name := name, enabled := en, vecs := vs }

def pDevice : P Dev.Device := do
  pLit "DEV"
  let name ← pStr; let gs ← pList pGroup
  pure { name := name, groups := gs }

def pAddr : P Dev.Addr := do
  let g ← pNat; let v ← pNat; let e ← pNat
  pure ⟨g, v, e⟩

def pDevOp : P Dev.Op := do
  let t ← tok
  match t with
  | "a" => do let a ← pAddr; let v ← pValue; pure (.assign a v)
  | "s" => do let a ← pAddr; let v ← pValue; pure (.setValue a v)
  | "st" => do let g ← pNat; let v ← pNat; let s ← pOpt; pure (.state g v s)
  | "ev" => do let g ← pNat; let v ← pNat; let b ← pBool; pure (.enableVec g v b)
  | "eg" => do let g ← pNat; let b ← pBool; pure (.enableGroup g b)
  | "ee" => do let a ← pAddr; let b ← pBool; pure (.enableElem a b)
  | "c" => do let m ← pMsg; pure (.client m)
  | _ => fail

def encExc : Option Dev.Exc → String
  | none => "ok"
  | some .assertionError => "AssertionError"
  | some .valueError => "ValueError"
  | some .typeError => "TypeError"
  | some .keyError => "KeyError"
  | some .other => "OtherError"

def encCall (c : Dev.Call) : String :=
  "h" ++ toString c.handler ++ " " ++ (match c.kind with | .write => "W" | .change => "C") ++ " " ++
    encValue c.old ++ " " ++ encValue c.new ++ " " ++ encValue c.seen

def encDevState (d : Dev.Device) : String :=
  String.intercalate " " (d.groups.map fun g => "g" ++ encBool g.enabled ++ " " ++
    String.intercalate " " (g.vecs.map fun v => "v" ++ encBool v.enabled ++ " " ++ encStr v.state ++ " " ++
      String.intercalate " " (v.elems.map fun e => "e" ++ encBool e.enabled ++ " " ++ encValue e.value)))

def encDevResult (r : Dev.Result) : String :=
  encExc r.exc ++ " msgs " ++ encList encMsg r.msgs ++ " calls " ++ encList encCall r.calls ++
    " tasks " ++ encList encCall r.tasks ++ " state " ++ encDevState r.dev

def devRun : Dev.Device → List Dev.Op → List String
  | _, [] => []
  | d, op :: rest => let r := Dev.step d op; encDevResult r :: devRun r.dev rest

/-! send component -/

def pSendStep : P Send.Step := do
  let t ← tok
  match t with
  | "R" => do let m ← pNat; pure (.route m)
  | "S" => pure .start
  | "C" => pure .complete
  | _ => fail

def sendTrace : Send.Conn → List Send.Step → List String
  | _, [] => []
  | c, st :: rest => let c' := Send.step c st; encIds c'.out :: sendTrace c' rest

/-! wait component -/

def pWaitCfg : P Wait.Cfg := do
  let t ← pOptNat'; let p ← pBool; let d ← pNat; let i ← pNat
  pure { timeout := t, polling := p, delay := d, interval := i }

def pBatch : P Wait.Batch := do
  let t ← pNat; let fl ← pList pBool
  pure (t, fl)

def pOutcome : P Wait.Outcome := do
  let t ← tok
  match t with
  | "P" => pure .pending
  | "E" => do let a ← pNat; let i ← pNat; pure (.event a i)
  | "T" => do let a ← pNat; pure (.timeout a)
  | _ => fail

def encOutcome : Wait.Outcome → String
  | .pending => "P"
  | .event t i => "E " ++ toString t ++ " " ++ toString i
  | .timeout t => "T " ++ toString t

/-! client component -/

def pCVal : P Cli.CVal := do
  let t ← tok
  match t with
  | "N" => pure .none
  | "T" => do let v ← pStr; pure (.text v)
  | "B" => do let b ← pBytes; let f ← pOpt; pure (.blob b f)
  | _ => fail

def encCVal : Cli.CVal → String
  | .none => "N"
  | .text v => "T " ++ encStr v
  | .blob b f => "B " ++ encBytes b ++ " " ++ encOpt f

def pVKind : P Cli.VKind := do
  let t ← tok
  match t with
  | "number" => pure .number | "switch" => pure .switch | "text" => pure .text
  | "blob" => pure .blob | "light" => pure .light
  | _ => fail

def encVKind : Cli.VKind → String
  | .number => "number" | .switch => "switch" | .text => "text" | .blob => "blob" | .light => "light"

def pCElem : P (Option Str × Cli.CElem) := do
  let n ← pOpt; let l ← pOpt; let v ← pCVal
  pure (n, { name := n, label := l, value := v })

def pCVec : P (Option Str × Cli.CVec) := do
  let k ← pVKind; let n ← pOpt; let g ← pOpt; let l ← pOpt; let ts ← pOpt; let msg ← pOpt; let st ← pOpt
  let es ← pList pCElem
  pure (n, { kind := k, name := n, group := g, label := l, timestamp := ts, message := msg, state := st, elems := es })

def pMirror : P Cli.Mirror := pList (do
  let n ← pOpt
  let vs ← pList pCVec
  pure (n, ({ vecs := vs } : Cli.CDev)))

def encMirror (σ : Cli.Mirror) : String :=
  encList (fun (dv : Option Str × Cli.CDev) => encOpt dv.1 ++ " " ++
    encList (fun (nv : Option Str × Cli.CVec) =>
      let v := nv.2
      encVKind v.kind ++ " " ++ encOpt v.name ++ " " ++ encOpt v.group ++ " " ++ encOpt v.label ++ " " ++ encOpt v.timestamp ++ " " ++
        encOpt v.message ++ " " ++ encOpt v.state ++ " " ++
        encList (fun (ne : Option Str × Cli.CElem) => encOpt ne.2.name ++ " " ++ encOpt ne.2.label ++ " " ++ encCVal ne.2.value) v.elems)
      dv.2.vecs) σ

def encEvent : Cli.Event → String
  | .value d v e o n => "V " ++ encOpt d ++ " " ++ encOpt v ++ " " ++ encOpt e ++ " " ++ encCVal o ++ " " ++ encCVal n
  | .state d v o n => "S " ++ encOpt d ++ " " ++ encOpt v ++ " " ++ encOpt o ++ " " ++ encOpt n
  | .definition d v => "D " ++ encOpt d ++ " " ++ encOpt v

def pEvent : P Cli.Event := do
  let t ← tok
  match t with
  | "V" => do let d ← pOpt; let v ← pOpt; let e ← pOpt; let o ← pCVal; let n ← pCVal; pure (.value d v e o n)
  | "S" => do let d ← pOpt; let v ← pOpt; let o ← pOpt; let n ← pOpt; pure (.state d v o n)
  | "D" => do let d ← pOpt; let v ← pOpt; pure (.definition d v)
  | _ => fail

def pEvType : P Cli.EvType := do
  let t ← tok
  match t with
  | "base" => pure .base | "value" => pure .value | "state" => pure .state | "definition" => pure .definition
  | _ => fail

def pCallback : P Cli.Callback := do
  let i ← pNat; let d ← pOpt; let v ← pOpt; let e ← pOpt; let t ← pEvType; let f ← pNat; let a ← pBool; let r ← pBool
  pure { id := i, device := d, vector := v, element := e, evType := t, fn := f, async := a, raises := r }

def pOptNat : P (Option Nat) := do
  let ts ← get
  match ts with
  | "~" :: rest => do set rest; pure none
  | _ => do let n ← pNat; pure (some n)

def pOptEvType : P (Option Cli.EvType) := do
  let ts ← get
  match ts with
  | "~" :: rest => do set rest; pure none
  | _ => do let n ← pEvType; pure (some n)

def pCliOp : P Cli.Op := do
  let t ← tok
  match t with
  | "m" => do let m ← pMsg; pure (.msg m)
  | "on" => do let cb ← pCallback; pure (.on cb)
  | "rm" => do
    let i ← pOptNat; let d ← pOpt; let v ← pOpt; let e ← pOpt; let t ← pOptEvType; let f ← pOptNat
    pure (.rm { id := i, device := d, vector := v, element := e, evType := t, fn := f })
  | _ => fail

def encCliExc : Option Cli.Exc → String
  | none => "ok"
  | some .typeError => "TypeError"
  | some .valueError => "ValueError"
  | some .assertionError => "AssertionError"
  | some .keyError => "KeyError"

def encDeliv (l : List (Nat × Cli.Event)) : String :=
  encList (fun (ce : Nat × Cli.Event) => "c" ++ toString ce.1 ++ " " ++ encEvent ce.2) l

def cliRun : Cli.State → List Cli.Op → List String
  | _, [] => []
  | σ, op :: rest =>
    let r := Cli.step σ op
    -- deliveries grouped by callback, as the harness observes them
    let byCb := Spec.Cli.deliveriesByCb σ.cbs r.events
    (encCliExc r.exc ++ " mirror " ++ encMirror r.state.mirror ++ " deliv " ++ encDeliv byCb ++ " sent " ++
      encList encOpt r.sent ++ " ncb " ++ toString r.state.cbs.length) :: cliRun r.state rest

def pDeliv : P (List (Nat × Cli.Event)) := pList (do
  let t ← tok
  match t.toList with
  | 'c' :: r => match (String.ofList r).toNat? with
    | some n => do let e ← pEvent; pure (n, e)
    | none => fail
  | _ => fail)

def pCall (task : Bool) : P Dev.Call := do
  let t ← tok
  let hid ← match t.toList with
    | 'h' :: r => (match (String.ofList r).toNat? with
      | some n => pure n
      | none => fail)
    | _ => fail
  let k ← tok
  let kind : Dev.EvKind ← (match k with
    | "W" => pure Dev.EvKind.write
    | "C" => pure Dev.EvKind.change
    | _ => fail)
  let o ← pValue; let n ← pValue; let sn ← pValue
  pure { handler := hid, kind := kind, old := o, new := n, seen := sn, task := task }

def pSysOp : P Sys.Op := do
  let t ← tok
  match t with
  | "d" => do let di ← pNat; let op ← pDevOp; pure (.driver di op)
  | "cw" => do
    let ci ← pNat; let dev ← pStr; let prop ← pStr
    let ws ← pList (do let n ← pStr; let v ← pCVal; pure (n, v))
    pure (.write ci dev prop ws)
  | "hs" => do let ci ← pNat; let d ← pOpt; let n ← pOpt; pure (.handshake ci d n)
  | _ => fail

def encWorld (w : Sys.World) : String :=
  String.intercalate " ; " (w.devs.map encDevState) ++ " || " ++ String.intercalate " ; " (w.peers.map fun p => encMirror p.mirror)

def sysRun : Sys.World → List Sys.Op → List String
  | _, [] => []
  | w, op :: rest => let w' := Sys.step Generated.registry w op; encWorld w' :: sysRun w' rest


/-! conn component: the whole receive path of a server connection (bytes -> framing -> parser -> router) -/

def pConnEvent : P Conn.Event := do
  let t ← tok
  match t with
  | "D" => do let i ← pNat; let n ← pOpt; pure (.device ⟨i, n⟩)
  | "K" => do let i ← pNat; let k ← pBool; pure (.connect i k)
  | "R" => do let i ← pNat; let chunk ← pStr; let r ← pOptNat'; pure (.recv i chunk r)
  | "E" => do let i ← pNat; pure (.eof i)
  | "X" => do let i ← pNat; pure (.readError i)
  | "P" => do
    let tag ← pStr
    let dv ← pOpt
    let pol ← pPolicy
    let sd ← pSender
    match Rtr.rmsgOf Generated.registry tag dv pol with
    | some m => pure (.publish m sd)
    | none => fail
  | _ => fail

def sortNat (l : List Nat) : List Nat := l.mergeSort (· ≤ ·)

def encConnObs (sv : Conn.Server) (o : Conn.Out) : String :=
  let all := o.deliveries.flatten
  let devs := all.filterMap fun t => match t with | .dev i => some ("d" ++ toString i) | _ => none
  let clis := (sortNat (all.filterMap fun t => match t with | .cli i => some i | _ => none)).eraseDups.map fun i => "c" ++ toString i
  encRState sv.router ++ " closed " ++ String.intercalate "," ((sv.conns.filter (·.writerClosed)).map fun c => toString c.id) ++
    " done " ++ String.intercalate "," ((sv.conns.filter (!·.serving)).map fun c => toString c.id) ++
    " got " ++ String.intercalate " " (devs ++ clis)

def connRun : Conn.Server → List Conn.Event → List String
  | _, [] => []
  | sv, e :: es =>
    let (sv', o) := Conn.step sv e
    encConnObs sv' o :: connRun sv' es


def handle (ts : List String) : String :=
  match ts with
  | "spec" :: "c07" :: rest =>
    match runP (do let d ← pDevice; let n ← pOpt; let ms ← pList pMsg; pure (d, n, ms)) rest with
    | some (d, n, ms) => if Spec.Dev.namesDistinct d then encBool (Spec.Dev.c07Holds d n ms) else "na"
    | none => "bad-op"
  | "spec" :: "flags" :: rest =>
    match runP (do let d ← pDevice; let ops ← pList pDevOp; let d' ← pDevice; pure (d, ops, d')) rest with
    | some (d, ops, d') => encBool (Spec.Dev.flagsHold d ops d')
    | none => "bad-op"
  | "spec" :: "c12" :: rest =>
    match runP (do let d ← pDevice; let m ← pMsg; let r ← pBool; let d' ← pDevice; pure (d, m, r, d')) rest with
    | some (d, m, r, d') => encBool (Spec.Dev.c12Holds d m r d')
    | none => "bad-op"
  | "spec" :: "c14" :: rest =>
    match runP (do
        let d ← pDevice; let a ← pAddr; let w ← pBool; let v ← pValue; let r ← pBool
        let cs ← pList (pCall false); let tsk ← pList (pCall true); let n ← pNat; let d' ← pDevice
        pure (d, a, w, v, r, cs, tsk, n, d')) rest with
    | some (d, a, w, v, r, cs, tsk, n, d') =>
      match Spec.Dev.c14Holds d a w v r cs tsk n d' with
      | some b => encBool b
      | none => "na"
    | none => "bad-op"
  | "spec" :: "c01" :: rest =>
    match runP (do let b ← pBool; let d ← pDevice; let m ← pMirror; pure (b, d, m)) rest with
    | some (b, d, m) => encBool (Spec.Sys.synced b d m)
    | none => "bad-op"
  | "spec" :: "c06" :: rest =>
    match runP (do
        let b ← pDevice; let dn ← pStr; let pr ← pStr
        let w ← pList (do let n ← pStr; let v ← pValue; pure (n, v))
        let a ← pDevice
        pure (b, dn, pr, w, a)) rest with
    | some (b, dn, pr, w, a) => encBool (Spec.Sys.c06Holds b dn pr w a)
    | none => "bad-op"
  | "spec" :: "c08" :: rest =>
    match runP (do
        let p ← pPolicy; let d ← pDevice; let g ← pNat; let v ← pNat; let e ← pNat
        let b ← pMirror; let a ← pMirror
        pure (p, d, g, v, e, b, a)) rest with
    | some (p, d, g, v, e, b, a) => encBool (Spec.Sys.c08Holds (Spec.Rtr.allows p true) d g v e b a)
    | none => "bad-op"
  | "spec" :: "istrue" :: rest =>
    match runP pBool rest with
    | some b => encBool b
    | none => "bad-op"
  | "spec" :: "readsback" :: rest =>
    match runP pMsg rest with
    | some m => encBool (Spec.Dev.readsBack Generated.registry m)
    | none => "bad-op"
  | "spec" :: "normeq" :: rest =>
    match runP (do let a ← pMsg; let b ← pMsg; pure (a, b)) rest with
    | some (a, b) => encBool (Spec.Dev.norm a == Spec.Dev.norm b)
    | none => "bad-op"
  | "send" :: "run" :: tr :: rest =>
    match runP (pList pSendStep) rest with
    | some steps =>
      let t : Send.Transport := if tr = "tty" then .tty else .tcp
      String.intercalate " | " (sendTrace { transport := t } steps)
    | none => "bad-op"
  | "send" :: "runmarks" :: tr :: rest =>
    match runP (do let marks ← pList pNat; let steps ← pList pSendStep; pure (marks, steps)) rest with
    | some (marks, steps) =>
      let t : Send.Transport := if tr = "tty" then .tty else .tcp
      let trace := sendTrace { transport := t } steps
      String.intercalate " | " (marks.map fun i => trace.getD i "?")
    | none => "bad-op"
  | "spec" :: "send" :: rest =>
    -- oracle: every observed output is a prefix of the routed sequence, and the final one is all of it when nothing is pending
    match runP (do let routed ← pList pNat; let outs ← pList (pList pNat); let drained ← pBool; pure (routed, outs, drained)) rest with
    | some (routed, outs, drained) =>
      encBool (outs.all (fun o => o.isPrefixOf routed) && (!drained || outs.getLast? == some routed || (outs.isEmpty && routed.isEmpty)))
    | none => "bad-op"
  | "spec" :: "c16inflight" :: rest =>
    match runP (do let n ← pNat; let i ← pNat; let j ← pNat; let e ← pNat; let logs ← pList (pList pNat); pure (n, i, j, e, logs)) rest with
    | some (n, i, j, e, logs) => encBool (Spec.Cli.inflightHolds n i j e logs)
    | none => "bad-op"
  | "spec" :: "c14own" :: rest =>
    -- a handler subscribed through the driver class is called exactly once for a write to its own driver's element
    match runP (pList pNat) rest with
    | some counts => encBool (counts.all (· == 1))
    | none => "bad-op"
  | "spec" :: "c14nested" :: rest =>
    match runP (do
        let hs ← pList pNat
        let asg ← pList (do let o ← pValue; let n ← pValue; pure (o, n))
        let calls ← pList (do let h ← pNat; let o ← pValue; let n ← pValue; pure (h, o, n))
        pure (hs, asg, calls)) rest with
    | some (hs, asg, calls) => encBool (Spec.Dev.nestedHolds hs asg calls)
    | none => "bad-op"
  | "wait" :: "union" :: rest =>
    -- concurrent waits are independent: the getProperties sent are the merge of what each wait sends on its own
    match runP (do let cs ← pList pWaitCfg; let b ← pList pBatch; let h ← pNat; pure (cs, b, h)) rest with
    | some (cs, b, h) => encIds ((cs.flatMap fun c => (Wait.run c b h).sends.reverse).mergeSort (· ≤ ·))
    | none => "bad-op"
  | "spec" :: "waitunion" :: rest =>
    match runP (do let cs ← pList pWaitCfg; let b ← pList pBatch; let h ← pNat; pure (cs, b, h)) rest with
    | some (cs, b, h) => encIds ((cs.flatMap fun c => Spec.Wait.expectedSends c b h).mergeSort (· ≤ ·))
    | none => "bad-op"
  | "wait" :: "run" :: rest =>
    match runP (do let c ← pWaitCfg; let b ← pList pBatch; let h ← pNat; pure (c, b, h)) rest with
    | some (c, b, h) =>
      let st := Wait.run c b h
      encOutcome st.outcome ++ " sends " ++ encIds st.sends.reverse ++ " cb " ++ encBool st.cbRegistered
    | none => "bad-op"
  | "spec" :: "wait" :: rest =>
    match runP (do
        let c ← pWaitCfg; let b ← pList pBatch; let h ← pNat
        let o ← pOutcome; let sd ← pList pNat; let cb ← pBool
        pure (c, b, h, o, sd, cb)) rest with
    | some (c, b, h, o, sd, cb) => encBool (Spec.Wait.holds c b h o sd cb)
    | none => "bad-op"
  | "cli" :: "run" :: rest =>
    match runP (pList pCliOp) rest with
    | some ops => String.intercalate " | " (cliRun {} ops)
    | none => "bad-op"
  | "spec" :: "c15" :: rest =>
    match runP (do let b ← pMirror; let m ← pMsg; let r ← pBool; let a ← pMirror; pure (b, m, r, a)) rest with
    | some (b, m, r, a) => (match Spec.Cli.c15Holds b m r a with | some x => encBool x | none => "na")
    | none => "bad-op"
  | "spec" :: "c16chain" :: rest =>
    match runP (do let a ← pMirror; let l ← pList pEvent; pure (a, l)) rest with
    | some (a, l) => encBool (Spec.Cli.chainInv a l)
    | none => "bad-op"
  | "spec" :: "c16" :: rest =>
    -- the registry is computed by the specification from the history of onevent / rmonevent calls
    match runP (do let ops ← pList pCliOp; let b ← pMirror; let m ← pMsg; let o ← pDeliv; pure (ops, b, m, o)) rest with
    | some (ops, b, m, o) =>
      let cbs := (ops.foldl (fun st op => (Cli.step st op).state) ({} : Cli.State)).cbs
      (match Spec.Cli.c16Holds cbs b m o with | some x => encBool x | none => "na")
    | none => "bad-op"
  | "sys" :: "start" :: rest =>
    match runP (do
        let ds ← pList pDevice
        let ks ← pList (do let b ← pBool; let i ← pBool; let a ← pBool; pure (b, i, a))
        let ms ← pList pMirror
        pure (ds, ks, ms)) rest with
    | some (ds, ks, ms) =>
      let w := Sys.start Generated.registry ds ks
      if w.peers.map (·.mirror) == ms then "ok" else "differs: model " ++ String.intercalate " ; " (w.peers.map fun p => encMirror p.mirror)
    | none => "bad-op"
  | "sys" :: "next" :: rest =>
    match runP (do
        let ds ← pList pDevice
        let ps ← pList (do let b ← pBool; let i ← pBool; let a ← pBool; let m ← pMirror; pure ({ blobs := b, inproc := i, also := a, mirror := m } : Sys.Peer))
        let op ← pSysOp
        let ds' ← pList pDevice
        let ms' ← pList pMirror
        pure (ds, ps, op, ds', ms')) rest with
    | some (ds, ps, op, ds', ms') =>
      let w : Sys.World := { devs := ds, peers := ps }
      let w' : Sys.World := { devs := ds', peers := (ps.zip ms').map fun (p, m) => { p with mirror := m } }
      if ps.length != ms'.length then "bad-op" else
      if Sys.nextOk Generated.registry w op w' then "ok" else
      let (dsm, msgs) := Sys.react Generated.registry w op
      if !Sys.sameDevs dsm ds' then "devices differ: model " ++ String.intercalate " ; " (dsm.map encDevState)
      else "mirrors differ: model (in-order arrival) " ++ String.intercalate " ; " (ps.map fun p => encMirror (Sys.deliver Generated.registry p msgs).mirror)
    | none => "bad-op"
  | "dev" :: "run" :: rest =>
    match runP (do let d ← pDevice; let ops ← pList pDevOp; pure (d, ops)) rest with
    | some (d, ops) => String.intercalate " | " (devRun d ops)
    | none => "bad-op"
  | "num" :: "render" :: rest =>
    match runP (do let f ← pStr; let x ← pRat; pure (f, x)) rest with
    | some (f, x) => encRender (Num.numToStr Num.exactIEEE f x)
    | none => "bad-op"
  | "num" :: "parse" :: rest =>
    match runP pStr rest with
    | some x => encNumVal (Num.strToNum Num.exactIEEE x)
    | none => "bad-op"
  | "num" :: "check" :: rest =>
    match runP pStr rest with
    | some x => encBool (numberOk x)
    | none => "bad-op"
  | "spec" :: "num" :: "render" :: rest =>
    match runP (do let f ← pStr; let x ← pRat; let t ← pStr; let v ← pBool; let b ← pOptRat; pure (f, x, t, v, b)) rest with
    | some (f, x, t, v, b) =>
      match Num.parseFmt f with
      | some fmt => encBool (Spec.Num.renderHolds fmt x t v b)
      | none => "unsupported"
    | none => "bad-op"
  | "spec" :: "num" :: "parse" :: rest =>
    match runP (do let t ← pStr; let v ← pBool; let i ← pBool; let g ← pOptRat; pure (t, v, i, g)) rest with
    | some (t, v, i, g) =>
      if numberCore (pyStrip t) then encBool (Spec.Num.parseHolds (pyStrip t) v i g) else "na"
    | none => "bad-op"
  | "b64" :: "enc" :: rest =>
    match runP pBytes rest with
    | some bs => encStr (B64.encode bs)
    | none => "bad-op"
  | "b64" :: "dec" :: rest =>
    match runP pStr rest with
    | some x =>
      match B64.decode x with
      | .ok bs => "ok " ++ encBytes bs
      | .error .incorrectPadding => "Error incorrect-padding"
      | .error .oneMoreThanMultiple => "Error one-more"
    | none => "bad-op"
  | "buf" :: "session" :: rest =>
    match runP (do let T ← pThreshold; let tags ← pList pStr; let tb ← pTable; let ps ← pList pStr; pure (T, tags, tb, ps)) rest with
    | some (T, tags, tb, ps) => String.intercalate " | " (bufSession (Buf.tableParse tb) tags T [] ps)
    | none => "bad-op"
  | "spec" :: "buf02" :: rest =>
    match runP (do
        let T ← pThreshold; let tags ← pList pStr; let tb ← pTable
        let segs ← pList pSeg; let final ← pStr; let ps ← pList pStr
        pure (T, tags, tb, segs, final, ps)) rest with
    | some (T, tags, tb, segs, final, ps) =>
      if Buf.streamOkB tb tags T segs final && (ps.flatten.isPrefixOf (Buf.encode segs final)) then
        encCalls (Buf.expectedCalls segs 0 0 ps)
      else "na"
    | none => "bad-op"
  | "spec" :: "buf02len" :: rest =>
    -- C02 for streams handed over by their lengths only: (gap length, body length) per message, the piece lengths
    match runP (do let segs ← pList (do let g ← pNat; let b ← pNat; pure (g, b)); let ps ← pList pNat; pure (segs, ps)) rest with
    | some (segs, ps) => encCalls (Buf.expectedCallsLen segs 0 0 ps)
    | none => "bad-op"
  | "spec" :: "buf11c" :: rest =>
    -- resynchronisation (theorem C11_resync): corrupt prefix, then a valid stream longer than the threshold
    match runP (do
        let T ← pThreshold; let tags ← pList pStr; let tb ← pTable; let c ← pStr
        let segs ← pList pSeg; let final ← pStr
        pure (T, tags, tb, c, segs, final)) rest with
    | some (T, tags, tb, c, segs, final) =>
      match T with
      | some t =>
        if Buf.streamOkB tb tags T segs final && Buf.corruptB tb c && decide (t < (Buf.encode segs final).length) then
          encIds (segs.map (·.msg))
        else "na"
      | none => "na"
    | none => "bad-op"
  | "spec" :: "buf11" :: rest =>
    match runP (do
        let T ← pThreshold; let ids ← pList pNat
        let calls ← pList (do let d ← pList pNat; let r ← pNat; pure (d, r))
        pure (T, ids, calls)) rest with
    | some (T, ids, calls) => encBool (Buf.c11Holds T ids calls)
    | none => "bad-op"
  | "sw" :: "run" :: rest =>
    match runP (do let r ← pRule; let v ← pBits; let ops ← pList pSwOp; pure (r, v, ops)) rest with
    | some (r, v, ops) => String.intercalate " | " ((Switch.run r v ops).map encSwStep)
    | none => "bad-op"
  | "spec" :: "swrefused" :: rest =>
    match runP (do let before ← pBits; let snaps ← pList pBits; let after ← pBits; pure (before, snaps, after)) rest with
    | some (before, snaps, after) => encBool (snaps.all (· == before) && after == before)
    | none => "bad-op"
  | "spec" :: "sw" :: rest =>
    match runP (do
        let r ← pRule; let before ← pBits; let op ← pSwOp
        let snaps ← pList pBits; let after ← pBits
        pure (r, before, op, snaps, after)) rest with
    | some (r, before, op, snaps, after) => encBool (Spec.Switch.holds r before op snaps after)
    | none => "bad-op"
  | "conn" :: "run" :: rest =>
    -- devices registered beforehand (not reported), then the session; one observation per event
    match runP (do let ds ← pList pConnEvent; let marks ← pList pNat; let evs ← pList pConnEvent; pure (ds, marks, evs)) rest with
    | some (ds, marks, evs) =>
      let all := connRun (Conn.run {} ds).1 evs
      String.intercalate " | " (marks.map fun i => all.getD i "?")
    | none => "bad-op"
  | "router" :: "rhist" :: rest =>
    match runP (do let h ← pList pOp; let rs ← pList pReaction; pure (h, rs)) rest with
    | some (h, rs) => encRTrace ((Rtr.traceR Rtr.init rs h).map fun ds => ds.map fun d => (d.mid, d.target))
    | none => "bad-op"
  | "spec" :: "rrouter" :: rest =>
    match runP (do let h ← pList pOp; let rs ← pList pReaction; pure (h, rs)) rest with
    | some (h, rs) => encRTrace (Spec.Rtr.expectedTraceR [] rs h)
    | none => "bad-op"
  | "router" :: "hist" :: rest =>
    match runP (pList pOp) rest with
    | some h => encTrace (Rtr.trace Rtr.init h)
    | none => "bad-op"
  | "router" :: "state" :: rest =>
    match runP (pList pOp) rest with
    | some h => encRState (Rtr.run h)
    | none => "bad-op"
  | "spec" :: "routedcount" :: i :: rest =>
    -- how many messages the specification routes to client i over the whole history
    match runP (pList pOp) rest, i.toNat? with
    | some h, some c => toString (((Spec.Rtr.expectedTrace h).flatten.filter fun t => t == Rtr.Target.cli c).length)
    | _, _ => "bad-op"
  | "spec" :: "deliveries" :: idx :: rest =>
    match runP (pList pOp) rest, idx.toNat? with
    | some h, some i => String.intercalate " " (((Spec.Rtr.expectedTrace h).getD i []).map encTarget)
    | _, _ => "bad-op"
  | "router" :: "deliveries" :: idx :: rest =>
    match runP (pList pOp) rest, idx.toNat? with
    | some h, some i => String.intercalate " " (((Rtr.trace Rtr.init h).getD i []).map encTarget)
    | _, _ => "bad-op"
  | "spec" :: "c18" :: rest =>
    -- an ended connection must be: not registered, writer closed, handler finished, and receive nothing
    match runP (do let a ← pBool; let b ← pBool; let c ← pBool; let d ← pBool; pure (a, b, c, d)) rest with
    | some (registered, stillOpen, running, gotTraffic) => encBool (!registered && !stillOpen && !running && !gotTraffic)
    | none => "bad-op"
  | "spec" :: "c12conn" :: rest =>
    -- after a hostile-but-well-formed message the sending connection is still registered, open and serving
    match runP (do let a ← pBool; let b ← pBool; let c ← pBool; pure (a, b, c)) rest with
    | some (registered, isOpen, running) => encBool (registered && isOpen && running)
    | none => "bad-op"
  | "spec" :: "router" :: rest =>
    match runP (pList pOp) rest with
    | some h => encTrace (Spec.Rtr.expectedTrace h)
    | none => "bad-op"
  | "xml" :: "parse" :: rest =>
    match runP pStr rest with
    | some x => encXmlRes (Xml.parseDoc x)
    | none => "bad-op"
  | "xml" :: "ser" :: rest =>
    match runP pElem rest with
    | some e => encStr (Xml.serElem e)
    | none => "bad-op"
  | "xml" :: "fromstring" :: rest =>
    match runP pStr rest with
    | some x => encResMsg (Xml.fromString Generated.registry x)
    | none => "bad-op"
  | "xml" :: "tostring" :: rest =>
    match runP pMsg rest with
    | some m => encStr (Xml.toString m)
    | none => "bad-op"
  | "xml" :: "sessionflat" :: rest =>
    -- all deliveries of a session flattened, and the data retained at the end
    match runP (do let T ← pThreshold; let ps ← pList pStr; pure (T, ps)) rest with
    | some (T, ps) =>
      let r := Buf.session xmlBufParse (Generated.messageClasses.map (·.tag)) T [] ps
      if r.1.flatten.any Option.isNone then "uns" else encDeliv' r.1.flatten ++ " ; " ++ encStr r.2
    | none => "bad-op"
  | "xml" :: "session" :: rest =>
    match runP (do let T ← pThreshold; let ps ← pList pStr; pure (T, ps)) rest with
    | some (T, ps) =>
      let out := xmlBufSession T [] ps
      if out.any (fun l => l.startsWith "uns") then "uns" else String.intercalate " | " out
    | none => "bad-op"
  | "codec" :: "eq" :: rest =>
    match runP (do let a ← pMsg; let b ← pMsg; pure (a, b)) rest with
    | some (a, b) => encBool (pyEq a b)
    | none => "bad-op"
  | "spec" :: "eq" :: rest =>
    match runP (do let a ← pMsg; let b ← pMsg; pure (a, b)) rest with
    | some (a, b) => encBool (decide (a = b))
    | none => "bad-op"
  | "codec" :: "fromxml" :: rest =>
    match runP pElem rest with
    | some e => encResMsg (fromXml Generated.registry e)
    | none => "bad-op"
  | "codec" :: "toxml" :: rest =>
    match runP pMsg rest with
    | some m => encElem (toXml m)
    | none => "bad-op"
  | "spec" :: "conformant" :: rest =>
    match runP pMsg rest with
    | some m => encBool (Spec.conformant m)
    | none => "bad-op"
  | _ => "bad-op"

partial def loop (h : IO.FS.Stream) (out : IO.FS.Stream) : IO Unit := do
  let line ← h.getLine
  if line.isEmpty then return ()
  out.putStrLn (handle (tokens (line.trimAscii.toString)))
  loop h out

def main : IO Unit := do
  let out ← IO.getStdout
  loop (← IO.getStdin) out
  out.flush
