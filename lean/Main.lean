/-
  Line-protocol driver: the executable side of the models and of the specs
  (oracles).  `indi-model < cases > observations`, one line each.
-/
import Indi.Model.Wire
import Indi.Generated.Registry
import Indi.Spec.Msg

open Indi Indi.Wire

def encResMsg : Except Err Msg → String
  | .ok m => "ok " ++ encMsg m
  | .error e => "err " ++ encErr e

def handle (ts : List String) : String :=
  match ts with
  | "codec" :: "eq" :: rest =>
    match runP (do let a ← pMsg; let b ← pMsg; pure (a, b)) rest with
    | some (a, b) => encBool (pyEq a b)
    | none => "bad-op"
  | "spec" :: "eq" :: rest =>
    match runP (do let a ← pMsg; let b ← pMsg; pure (a, b)) rest with
    | some (a, b) => encBool (decide (a = b))
    | none => "bad-op"
  | "codec" :: "fromxml" :: rest =>
    match runP pElem rest with
    | some e => encResMsg (fromXml Generated.registry e)
    | none => "bad-op"
  | "codec" :: "toxml" :: rest =>
    match runP pMsg rest with
    | some m => encElem (toXml m)
    | none => "bad-op"
  | "spec" :: "conformant" :: rest =>
    match runP pMsg rest with
    | some m => encBool (Spec.conformant m)
    | none => "bad-op"
  | _ => "bad-op"

partial def loop (h : IO.FS.Stream) (out : IO.FS.Stream) : IO Unit := do
  let line ← h.getLine
  if line.isEmpty then return ()
  out.putStrLn (handle (tokens (line.trimAscii.toString)))
  loop h out

def main : IO Unit := do
  let out ← IO.getStdout
  loop (← IO.getStdin) out
  out.flush
